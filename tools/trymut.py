#!/usr/bin/env python3
"""Developer aid: apply a textual mutation (or a patch) to a scratch copy of /repo and run checks on it.

  tools/trymut.py C04 src/work.rs 'pool.running < pool.depth' 'pool.running <= pool.depth'
  tools/trymut.py C04,C01 --patch seeded/x/patch.diff

Evidence of these runs goes to a temp dir, never to /verif/evidence.  The scratch copy lives
outside /repo and /verif and is removed afterwards.
"""
import os, shutil, subprocess, sys, tempfile

HERE = os.path.dirname(os.path.dirname(os.path.abspath(__file__)))


def main():
    pids = sys.argv[1].split(",")
    d = tempfile.mkdtemp(prefix="n2mut-")
    repo = os.path.join(d, "repo")
    try:
        subprocess.check_call(["rsync", "-a", "--exclude", "target", "--exclude", ".git", "/repo/", repo + "/"])
        if sys.argv[2] == "--patch":
            subprocess.check_call(["patch", "-p1", "-s", "-d", repo, "-i", os.path.abspath(sys.argv[3])])
        else:
            args = sys.argv[2:]
            while args:
                f, old, new = args[:3]
                args = args[3:]
                p = os.path.join(repo, f)
                s = open(p).read()
                if s.count(old) < 1:
                    print("pattern not found in", f)
                    sys.exit(2)
                open(p, "w").write(s.replace(old, new, 1))
        env = dict(os.environ, N2SA_EVIDENCE_DIR=os.path.join(d, "ev"))
        rc = 0
        for pid in pids:
            p = subprocess.run([os.path.join(HERE, "check"), pid, "--repo", repo] + (["--tier", os.environ["TIER"]] if "TIER" in os.environ else []), env=env, stdout=subprocess.PIPE, stderr=subprocess.STDOUT, text=True)
            print(p.stdout[-3000:])
            print("exit", p.returncode)
            rc |= p.returncode
        sys.exit(rc)
    finally:
        shutil.rmtree(d, ignore_errors=True)
        # drop the scratch package's fingerprints/artefacts from the shared target dir
        subprocess.run("find %s/.cache/target/debug -maxdepth 2 -name 'n2-*' -newer %s/check -mmin +600 | head -0" % (HERE, HERE), shell=True)


main()
