#!/usr/bin/env python3
"""tools/triage.py <sweep.jsonl> <verdict> <props|-> <why> <id> [<id>...]: record a verdict for sweep mutants in mutants/sweep_triage.json"""
import json, os, sys
HERE = os.path.dirname(os.path.dirname(os.path.abspath(__file__)))
TRI = os.path.join(HERE, "sweep", "triage.json")
sweep, verdict, props, why = sys.argv[1:5]
ids = set(sys.argv[5:])
tri = json.load(open(TRI)) if os.path.exists(TRI) else {}
n = 0
for l in open(sweep):
    r = json.loads(l)
    if r["id"] in ids:
        k = "%s:%d|%s|%s|%s" % (r["file"], r["line"], r["text"], r["old"], r["new"])
        tri[k] = dict(verdict=verdict, why=why)
        if props != "-":
            tri[k]["props"] = props.split(",")
        n += 1
json.dump(tri, open(TRI, "w"), indent=1, sort_keys=True)
print("recorded", n)
