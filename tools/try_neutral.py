#!/usr/bin/env python3
"""tools/try_neutral.py <dir with r*.diff> : apply each behaviour-preserving refactoring to a scratch copy and run ALL checks;
any VIOLATION is a false alarm to be fixed in the rules."""
import glob, os, shutil, subprocess, sys, tempfile, concurrent.futures
HERE = os.path.dirname(os.path.dirname(os.path.abspath(__file__)))
PIDS = ["C%02d" % i for i in range(1, 21)]

def one(diff):
    d = tempfile.mkdtemp(prefix="n2neu-")
    repo = os.path.join(d, "repo")
    out = []
    try:
        subprocess.check_call(["rsync", "-a", "--exclude", "target", "--exclude", ".git", "/repo/", repo + "/"])
        p = subprocess.run(["patch", "-p1", "-s", "-f", "-d", repo, "-i", diff], capture_output=True, text=True)
        if p.returncode != 0:
            return diff, ["PATCH FAILED"]
        env = dict(os.environ, N2SA_EVIDENCE_DIR=os.path.join(d, "ev"))
        for pid in PIDS:
            r = subprocess.run([os.path.join(HERE, "check"), pid, "--repo", repo], env=env, capture_output=True, text=True)
            for line in r.stdout.splitlines():
                if line.strip().startswith("rule "):
                    out.append("%s %s" % (pid, line.strip()))
        return diff, out
    finally:
        shutil.rmtree(d, ignore_errors=True)

diffs = sorted(glob.glob(os.path.join(sys.argv[1], "*.diff")), key=lambda x: int(''.join(c for c in os.path.basename(x) if c.isdigit())))
with concurrent.futures.ThreadPoolExecutor(8) as ex:
    for diff, out in ex.map(one, diffs):
        print("==", os.path.basename(diff), "false alarms:" if out else "silent", len(out))
        for o in sorted(set(out)):
            print("   ", o)
