#!/usr/bin/env python3
"""prints the prompt given to an independent sub-agent for property <id> (nothing from /verif but the property text)"""
import json, sys
pid = sys.argv[1]
variant = sys.argv[2] if len(sys.argv) > 2 else "a"
focus = sys.argv[3] if len(sys.argv) > 3 else ""
for l in open('/verif/properties.jsonl'):
    p = json.loads(l)
    if p['id'] == pid:
        break
wt = "/tmp/seed-%s%s" % (pid, variant)
print(f"""You are helping to test a verification tool. You work ONLY inside the git worktree {wt} (a checkout of the Rust project evmar/n2, a Ninja-compatible build system). Do not read or write anything under /verif or /repo, and do not use the network (there is none; always pass --offline to cargo).

(The unmodified tree may already have unrelated defects; your change must introduce a NEW violation that your demonstration distinguishes from the unmodified tree. Run the full test suite at least THREE times with your change to make sure it is not flaky or hanging.)

Here is a semantic property that n2 is supposed to satisfy:

TITLE: {p['title']}
STATEMENT: {p['statement']}
QUANTIFIED OVER: {p['quantifier']['text']}

Your task: make ONE small, realistic change to the n2 sources under {wt}/src (the kind of mistake a maintainer could plausibly make in a refactoring, an optimisation or a bug fix — not an obviously malicious edit, no dead code, no comments announcing it) such that:
 1. the project still compiles (`cargo build --offline`) and the whole existing test suite still passes (`cargo test --offline` in {wt}; all 71 tests green);
 2. the property above is now violated;
 3. the violation needs something SPECIFIC to manifest — a particular interleaving or completion order, a failure or crash at a particular point, a multi-step sequence of invocations, an unusual input, or two cooperating code sites that each look fine alone — i.e. ordinary simple use would NOT expose it at once.{' Prefer a change in a DIFFERENT part of the code / a different mechanism than the most obvious one.' if variant != 'a' else ''}{(' To spread the experiments over the code base, your change must be in ' + focus + ' (any function there that the property depends on, directly or indirectly); if after reading you are sure no such change exists in those files, say so and stop rather than changing another file.') if focus else ''}

Then write a demonstration: a shell script or small Rust integration test (put it in {wt}/_out/demo.sh or {wt}/_out/demo_test.rs with instructions) that FAILS (exit code != 0) on the changed tree and PASSES on the unchanged tree. The demo may build n2 with cargo (offline) and drive the binary on a temp directory with a small build.ninja; it must be deterministic (use sleeps/files for ordering if needed) and finish in under 2 minutes.

Deliverables, all under {wt}/_out/ :
 - patch.diff : `git -C {wt} diff -- src` of your change (only files under src/),
 - demo.sh (or demo_test.rs + how to run it) : usage `demo.sh <path-to-n2-source-tree>` building that tree (use a CARGO_TARGET_DIR inside the tree) and running the scenario,
 - notes.md : what the change is, why it breaks the property, what is needed for it to manifest, and the exact commands you ran with their results (tests green with the change; demo fails with the change and passes without it — verify the 'without' case with `git diff -- src > {wt}/_out/x.diff; git checkout -- src; ...; git apply {wt}/_out/x.diff` or a second copy; do NOT use `git stash`, its ref is shared with other worktrees).

Verify everything yourself before finishing. Keep the change minimal (a few lines). Reply with a short summary (changed file/function, what manifests it, verification results).""")
