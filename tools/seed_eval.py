#!/usr/bin/env python3
"""tools/seed_eval.py <seed-id> [<property>...]: apply seeded/<id>/patch.diff to /repo, run the checks
(evidence redirected to a temp dir), undo the patch straight afterwards, record the outcome in meta.json."""
import json, os, subprocess, sys, tempfile, shutil
HERE = os.path.dirname(os.path.dirname(os.path.abspath(__file__)))
sid = sys.argv[1]
d = os.path.join(HERE, "seeded", sid)
meta_p = os.path.join(d, "meta.json")
meta = json.load(open(meta_p)) if os.path.exists(meta_p) else {}
props = sys.argv[2:] or meta.get("checks_run") or [meta.get("property", sid.split("-")[0])]
assert subprocess.run(["git", "-C", "/repo", "status", "--porcelain", "--untracked-files=no"], capture_output=True, text=True).stdout.strip() == "", "/repo not clean"
ev = tempfile.mkdtemp(prefix="n2seed-ev-")
res = {}
try:
    subprocess.check_call(["git", "-C", "/repo", "apply", os.path.join(d, "patch.diff")])
    for pid in props:
        p = subprocess.run([os.path.join(HERE, "check"), pid], env=dict(os.environ, N2SA_EVIDENCE_DIR=ev), capture_output=True, text=True)
        rules = [l.strip() for l in p.stdout.splitlines() if l.strip().startswith("rule ")]
        res[pid] = dict(exit=p.returncode, fired=rules)
        print(pid, "exit", p.returncode, rules)
finally:
    subprocess.check_call(["git", "-C", "/repo", "checkout", "--", "."])
    shutil.rmtree(ev, ignore_errors=True)
meta["checks_run"] = props
meta["check_results"] = res
meta["detected"] = any(r["exit"] == 1 and r["fired"] for r in res.values())
json.dump(meta, open(meta_p, "w"), indent=1)
print("detected" if meta["detected"] else "MISSED")
