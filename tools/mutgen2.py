#!/usr/bin/env python3
"""tools/mutgen2.py > mutants2.jsonl : second-generation operators for the mutation sweep of the checker (see mutgen.py):
conditions forced to true/false, one conjunct/disjunct dropped, character literals swapped in byte tests, look-alike identifiers
exchanged (ins/outs, start/end, explicit/implicit/order_only, dirtying/discovered, src/dst, ...), limiting iterator adapters inserted,
`.len()` off by one, `Some(..)`/`None` and `Ok(..)` payload flips.  Same record format as mutgen.py (ids start with n)."""
import json, os, re, sys
sys.path.insert(0, os.path.dirname(os.path.abspath(__file__)))
from mutgen import code_part, in_string, SRC

FILES = ["work.rs", "db.rs", "graph.rs", "load.rs", "parse.rs", "eval.rs", "depfile.rs", "canon.rs", "hash.rs", "task.rs", "process_posix.rs", "scanner.rs", "progress_fancy.rs", "progress_dumb.rs", "run.rs", "densemap.rs", "smallmap.rs"]

IDENT_SWAPS = [
    ("ins", "outs"), ("outs", "ins"), ("start", "end"), ("end", "start"), ("src", "dst"), ("dst", "src"),
    ("explicit_ins", "implicit_ins"), ("implicit_ins", "order_only_ins"), ("order_only_ins", "explicit_ins"), ("explicit_outs", "explicit_ins"),
    ("explicit", "implicit"), ("implicit", "order_only"), ("order_only", "implicit"),
    ("dirtying_ins", "discovered_ins"), ("discovered_ins", "dirtying_ins"), ("ordering_ins", "validation_ins"), ("validation_ins", "dirtying_ins"),
    ("tasks_failed", "tasks_run"), ("prev", "state"), ("state", "prev"), ("depth", "running"), ("running", "depth"),
    ("path", "content"), ("content", "path"), ("name", "path"), ("hash", "id"), ("fileid", "id"), ("bid", "id"), ("id", "bid"),
    ("unique_bid", "bid"), ("target_size", "bar_size"), ("max_cols", "max_len"), ("cont", "brk"),
]
CHAR_SWAPS = [("' '", "'\\t'"), ("'\\n'", "' '"), ("'|'", "'@'"), ("'@'", "'|'"), ("':'", "'|'"), ("'$'", "'#'"), ("'\\0'", "'\\n'"), ("'.'", "'/'"), ("b'/'", "b'.'"), ("b'.'", "b'/'"), ("b'\\\\'", "b'/'"), ("b'\\n'", "b' '"), ("b' '", "b'\\n'"), ("'{'", "'('"), ("'}'", "')'"), ("'#'", "';'")]
ADAPTERS = [(".iter()", ".iter().skip(1)"), (".iter()", ".iter().take(1)"), (".iter()", ".iter().rev()"), (".into_iter()", ".into_iter().skip(1)"), (".iter_mut()", ".iter_mut().skip(1)")]


def gen_file(path, rel):
    lines = open(path).read().split("\n")
    out = []
    cut = len(lines)
    for i, l in enumerate(lines):
        if l.strip() == "#[cfg(test)]":
            cut = i
            break
    for i in range(cut):
        line = lines[i]
        code = code_part(line)
        st = code.strip()
        if not st or st.startswith(("#[", "use ", "//", "pub use", "mod ", "pub mod", "extern ", "fn ", "pub fn ", "struct ", "pub struct ", "impl", "enum ", "pub enum ")):
            continue

        def emit(op, start, old, new):
            if in_string(line, start) or old == new:
                return
            out.append(dict(file=rel, line=i + 1, col=start, op=op, old=old, new=new, text=line.strip()[:160]))

        m = re.match(r"^(\s*)(?:\} else )?if (?!let )(.*)\{\s*$", code)
        if m:
            p = code.index("if ", len(m.group(1))) + 3
            cond = m.group(2)
            emit("COND", p, cond, "true ")
            emit("COND", p, cond, "false ")
            for sep in (" && ", " || "):
                if cond.count(sep) == 1 and "(" not in cond.split(sep)[0][-1:]:
                    a, b = cond.split(sep)
                    emit("CLAUSE", p, cond, a.rstrip() + " ")
                    emit("CLAUSE", p, cond, b.lstrip())
        m = re.match(r"^(\s*)while (?!let )(.*)\{\s*$", code)
        if m:
            p = code.index("while ", len(m.group(1))) + 6
            emit("COND", p, m.group(2), "false ")
        for old, new in CHAR_SWAPS:
            for mm in re.finditer(re.escape(old), code):
                emit("CHAR", mm.start(), old, new)
        for old, new in IDENT_SWAPS:
            for mm in re.finditer(r"(?<![\w.])" + re.escape(old) + r"(?![\w(])", code):
                emit("IDENT", mm.start(), old, new)
            for mm in re.finditer(r"\." + re.escape(old) + r"(?![\w])", code):
                emit("IDENT", mm.start() + 1, old, new)
        for old, new in ADAPTERS:
            for mm in re.finditer(re.escape(old), code):
                emit("ADAPT", mm.start(), old, new)
        for mm in re.finditer(r"\.len\(\)", code):
            emit("LEN", mm.start(), ".len()", ".len() - 1")
            emit("LEN", mm.start(), ".len()", ".len() + 1")
        for mm in re.finditer(r"\bSome\(([a-z_][\w.]*)\)", code):
            if "=>" not in code[:mm.start()] and "let " not in code[:mm.start()] and "if let" not in code:
                emit("OPT", mm.start(), mm.group(0), "None")
    return out


def main():
    n = 0
    for f in FILES:
        for m in gen_file(os.path.join(SRC, f), "src/" + f):
            m["id"] = "n%05d" % n
            n += 1
            print(json.dumps(m))


if __name__ == "__main__":
    main()
