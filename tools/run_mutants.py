#!/usr/bin/env python3
"""Run the developer mutant corpus (mutants/*.json): for each mutant, copy /repo to a scratch dir outside
/repo and /verif, apply the textual edit, run the named checks on the copy and report whether the expected
rule fired.  Usage: tools/run_mutants.py [filter-substring] [-j N]"""
import concurrent.futures, glob, json, os, shutil, subprocess, sys, tempfile

HERE = os.path.dirname(os.path.dirname(os.path.abspath(__file__)))


def run_one(m):
    d = tempfile.mkdtemp(prefix="n2mut-")
    repo = os.path.join(d, "repo")
    try:
        subprocess.check_call(["rsync", "-a", "--exclude", "target", "--exclude", ".git", "/repo/", repo + "/"])
        for ed in m["edits"]:
            p = os.path.join(repo, ed["file"])
            s = open(p).read()
            if s.count(ed["old"]) < 1:
                return m, "skipped (pattern not found)", ""
            s = s.replace(ed["old"], ed["new"], 1)
            open(p, "w").write(s)
        env = dict(os.environ, N2SA_EVIDENCE_DIR=os.path.join(d, "ev"))
        outs = []
        fired = False
        extract_fail = False
        for pid in m["props"]:
            p = subprocess.run([os.path.join(HERE, "check"), pid, "--repo", repo], env=env, stdout=subprocess.PIPE, stderr=subprocess.STDOUT, text=True)
            outs.append(p.stdout)
            if "rule extract" in p.stdout or "rule internal" in p.stdout:
                extract_fail = True
            for line in p.stdout.splitlines():
                if line.strip().startswith("rule ") and (m.get("expect") is None or m["expect"] in line):
                    fired = True
        if extract_fail:
            return m, "BROKEN (does not compile / checker crash)", "\n".join(outs)[-1500:]
        anyv = any("VIOLATION" in o for o in outs)
        if m.get("neutral"):
            return m, "silent (neutral)" if not anyv else "FALSE-ALARM", "\n".join(outs)[-1200:]
        return m, "detected" if fired else "MISSED", "\n".join(outs)[-1200:]
    finally:
        shutil.rmtree(d, ignore_errors=True)


def main():
    flt = None
    jobs = 6
    args = sys.argv[1:]
    while args:
        a = args.pop(0)
        if a == "-j":
            jobs = int(args.pop(0))
        else:
            flt = a
    ms = []
    for f in sorted(glob.glob(os.path.join(HERE, "mutants", "*.json"))):
        for m in json.load(open(f)):
            if flt is None or flt in m["id"] or flt in ",".join(m["props"]):
                ms.append(m)
    bad = 0
    with concurrent.futures.ThreadPoolExecutor(jobs) as ex:
        for m, verdict, out in ex.map(run_one, ms):
            print("%-40s %-10s %s" % (m["id"], ",".join(m["props"]), verdict))
            if verdict not in ("detected", "silent (neutral)"):
                bad += 1
                print("    " + out.replace("\n", "\n    ")[-1000:])
    print("%d mutants, %d not detected" % (len(ms), bad))
    sys.exit(1 if bad else 0)


main()
