#!/usr/bin/env python3
"""tools/sweep_report.py <sweep.jsonl> [--recheck]
Lists the mutants of a mutation sweep that passed the whole test suite and that no check reported, minus the ones already triaged in
mutants/sweep_triage.json (key = file|line text|old|new -> {verdict: equivalent|out-of-scope|control, why, props}).
--emit writes mutants/sweep.json: every triaged `control` (a survivor that does break a property) becomes a developer mutant
that the named checks must report, every `equivalent` one marked "neutral" must stay silent."""
import json, os, sys, collections

HERE = os.path.dirname(os.path.dirname(os.path.abspath(__file__)))
TRI = os.path.join(HERE, "sweep", "triage.json")


def key(m):
    return "%s:%d|%s|%s|%s" % (m["file"], m["line"], m["text"], m["old"], m["new"])


def main():
    rs = [json.loads(l) for l in open(sys.argv[1])]
    tri = json.load(open(TRI)) if os.path.exists(TRI) else {}
    c = collections.Counter(r["outcome"] for r in rs)
    sv = [r for r in rs if r["outcome"] == "survived"]
    und = [r for r in sv if not r.get("fired")]
    print("mutants %d: %s; survived the tests %d; reported by a check %d; unreported %d (triaged %d)" % (len(rs), dict(c), len(sv), len(sv) - len(und), len(und), sum(1 for r in und if key(r) in tri)))
    if "--emit" in sys.argv:
        out = []
        src_cache = {}
        for r in rs:
            t = tri.get(key(r))
            if not t or t["verdict"] not in ("control", "equivalent") or r.get("outcome") != "survived":
                continue
            if t["verdict"] == "equivalent" and not t.get("keep_as_neutral"):
                continue
            lines = src_cache.setdefault(r["file"], open(os.path.join("/repo", r["file"])).read().split("\n"))
            i = r["line"] - 1
            if "new_lines" in r:
                if lines[i].strip()[:140] != r["text"]:
                    continue
                j = r["end"]
                k = 0
                while True:
                    old = "\n".join(lines[i - k:j])
                    if "\n".join(lines).count(old) == 1 or k > 6:
                        break
                    k += 1
                new = "\n".join(lines[i - k:i] + r["new_lines"])
                m = dict(id=(sys.argv[sys.argv.index("--name") + 1] if "--name" in sys.argv else "sweep") + "-%s-%d-%s" % (os.path.basename(r["file"]).replace(".rs", ""), r["line"], r["op"].lower()), props=t.get("props", []), edits=[dict(file=r["file"], old=old, new=new)], note=t.get("why", ""))
                if t["verdict"] == "equivalent":
                    m["neutral"] = True
                out.append(m)
                continue
            if lines[i][r["col"]:r["col"] + len(r["old"])] != r["old"]:
                continue
            newline = lines[i][:r["col"]] + r["new"] + lines[i][r["col"] + len(r["old"]):]
            # make the edit site unique with as many preceding lines as needed
            k = 0
            while True:
                old = "\n".join(lines[i - k:i + 1])
                if "\n".join(lines).count(old) == 1 or k > 6:
                    break
                k += 1
            new = "\n".join(lines[i - k:i] + [newline])
            m = dict(id=(sys.argv[sys.argv.index("--name") + 1] if "--name" in sys.argv else "sweep") + "-%s-%d-%s" % (os.path.basename(r["file"]).replace(".rs", ""), r["line"], r["op"].lower() + str(int(__import__("hashlib").sha1(key(r).encode()).hexdigest()[:6], 16) % 1000)), props=t.get("props", []), edits=[dict(file=r["file"], old=old, new=new)], note=t.get("why", ""))
            if t["verdict"] == "equivalent":
                m["neutral"] = True
            out.append(m)
        name = sys.argv[sys.argv.index("--name") + 1] if "--name" in sys.argv else "sweep"
        json.dump(out, open(os.path.join(HERE, "mutants", name + ".json"), "w"), indent=1)
        print("wrote mutants/%s.json with %d entries" % (name, len(out)))
        return
    for r in und:
        if key(r) in tri:
            continue
        print("%s %s:%d %s %r -> %r | %s" % (r["id"], r["file"], r["line"], r["op"], r["old"], r["new"], r["text"][:100]))


if __name__ == "__main__":
    main()
