#!/usr/bin/env python3
"""tools/mutsweep.py <mutants.jsonl> <out.jsonl> [-j N] [--seed-target <built target dir>]
Mutation sweep of the checker (not a registered check; a development tool whose findings become rules and controls):
for every mutant: apply to a private scratch copy of /repo (under $TMPDIR, never /repo or /verif), `cargo test --offline`;
if the whole suite still passes, run all 20 checks on the copy (tools/check_all.py) and record which fired.
Output line per mutant: {id, ..., outcome: nocompile|killed-by-tests|timeout|survived, fired: {Cxx: [keys]}}.
Undetected survivors (survived and fired == {}) are the list to read."""
import argparse, json, os, shutil, subprocess, sys, tempfile, threading, queue, signal, time

HERE = os.path.dirname(os.path.dirname(os.path.abspath(__file__)))
FLAKY = {"graph::tests::stat_mtime_resolution", "graph::stat_mtime_resolution"}


def sh(cmd, cwd, timeout, env=None):
    p = subprocess.Popen(cmd, cwd=cwd, stdout=subprocess.PIPE, stderr=subprocess.STDOUT, text=True, env=env, start_new_session=True)
    try:
        out, _ = p.communicate(timeout=timeout)
        return p.returncode, out
    except subprocess.TimeoutExpired:
        try:
            os.killpg(p.pid, signal.SIGKILL)
        except ProcessLookupError:
            pass
        p.communicate()
        return 124, "TIMEOUT"


def worker(wid, q, outf, lock, seed_target):
    d = tempfile.mkdtemp(prefix="n2sweep-%d-" % wid)
    repo = os.path.join(d, "repo")
    env = dict(os.environ, CARGO_NET_OFFLINE="true", CARGO_TARGET_DIR=os.path.join(d, "target"), N2SA_EVIDENCE_DIR=os.path.join(d, "ev"))
    try:
        subprocess.check_call(["rsync", "-a", "--exclude", "target", "--exclude", ".git", "/repo/", repo + "/"])
        if seed_target and os.path.isdir(seed_target):
            subprocess.check_call(["cp", "-a", seed_target, env["CARGO_TARGET_DIR"]])
        rc, out = sh(["cargo", "test", "--offline", "--no-run"], repo, 1200, env)
        while True:
            try:
                m = q.get_nowait()
            except queue.Empty:
                break
            fp = os.path.join(repo, m["file"])
            orig = open(fp).read()
            lines = orig.split("\n")
            line = lines[m["line"] - 1]
            if "new_lines" in m:
                stale = line.strip()[:140] != m["text"]
            else:
                stale = line[m["col"]:m["col"] + len(m["old"])] != m["old"]
            if stale:
                res = dict(m, outcome="stale")
            else:
                if "new_lines" in m:
                    lines[m["line"] - 1:m["end"]] = m["new_lines"]
                else:
                    lines[m["line"] - 1] = line[:m["col"]] + m["new"] + line[m["col"] + len(m["old"]):]
                open(fp, "w").write("\n".join(lines))
                t0 = time.time()
                rc, out = sh(["cargo", "test", "--offline", "--no-fail-fast"], repo, 240, env)
                if rc == 124:
                    res = dict(m, outcome="timeout")
                elif "error: could not compile" in out or "error[E" in out or "error: aborting" in out:
                    res = dict(m, outcome="nocompile")
                elif rc != 0 or "test result: FAILED" in out or out.count("test result: ok") < 2:
                    failed = sorted({l.split()[1] for l in out.splitlines() if l.startswith("test ") and l.rstrip().endswith("FAILED")})
                    if failed and set(failed) <= FLAKY:
                        # wall-clock assertions that trip under load: run once more before believing the kill
                        rc, out = sh(["cargo", "test", "--offline", "--no-fail-fast"], repo, 240, env)
                        failed = sorted({l.split()[1] for l in out.splitlines() if l.startswith("test ") and l.rstrip().endswith("FAILED")})
                    if rc == 0 and "test result: FAILED" not in out and out.count("test result: ok") >= 2:
                        p = subprocess.run([sys.executable, os.path.join(HERE, "tools", "check_all.py"), "--repo", repo], env=env, capture_output=True, text=True)
                        try:
                            fired = json.loads(p.stdout)
                        except Exception:
                            fired = {"_error": (p.stdout + p.stderr)[-300:]}
                        res = dict(m, outcome="survived", fired=fired)
                    else:
                        res = dict(m, outcome="killed-by-tests", failed=failed[:6])
                else:
                    p = subprocess.run([sys.executable, os.path.join(HERE, "tools", "check_all.py"), "--repo", repo], env=env, capture_output=True, text=True)
                    try:
                        fired = json.loads(p.stdout)
                    except Exception:
                        fired = {"_error": (p.stdout + p.stderr)[-300:]}
                    res = dict(m, outcome="survived", fired=fired)
                res["secs"] = round(time.time() - t0, 1)
                open(fp, "w").write(orig)
            with lock:
                outf.write(json.dumps(res) + "\n")
                outf.flush()
    finally:
        shutil.rmtree(d, ignore_errors=True)


def main():
    ap = argparse.ArgumentParser()
    ap.add_argument("mutants")
    ap.add_argument("out")
    ap.add_argument("-j", type=int, default=6)
    ap.add_argument("--seed-target")
    a = ap.parse_args()
    done = set()
    if os.path.exists(a.out):
        for l in open(a.out):
            try:
                done.add(json.loads(l)["id"])
            except Exception:
                pass
    q = queue.Queue()
    n = 0
    for l in open(a.mutants):
        m = json.loads(l)
        if m["id"] not in done:
            q.put(m)
            n += 1
    print("%d mutants to run (%d already done)" % (n, len(done)))
    outf = open(a.out, "a")
    lock = threading.Lock()
    ts = [threading.Thread(target=worker, args=(i, q, outf, lock, a.seed_target)) for i in range(a.j)]
    for t in ts:
        t.start()
    for t in ts:
        t.join()


if __name__ == "__main__":
    main()
