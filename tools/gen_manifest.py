#!/usr/bin/env python3
"""Regenerates MANIFEST.json from the rule modules that exist (analysis/rules/Cxx.py) and tools/manifest_meta.json."""
import importlib, json, os, sys
HERE = os.path.dirname(os.path.dirname(os.path.abspath(__file__)))
sys.path.insert(0, os.path.join(HERE, "analysis"))
meta = json.load(open(os.path.join(HERE, "tools", "manifest_meta.json")))
props = [json.loads(l) for l in open(os.path.join(HERE, "properties.jsonl"))]
checks = []
na = []
for p in props:
    pid = p["id"]
    m = meta["checks"].get(pid)
    if m is None or not os.path.exists(os.path.join(HERE, "analysis", "rules", pid + ".py")):
        na.append(dict(property_id=pid, reason=meta["not_applicable"].get(pid, "structural rules designed in DESIGN.md section 4 but not built yet; behavioural core quantifies over runtime values")))
        continue
    checks.append(dict(
        property_id=pid,
        quick_cmd="./check %s --tier quick" % pid,
        thorough_cmd="./check %s --tier thorough" % pid,
        evidence_file="/verif/evidence/%s.json" % pid,
        replay_cmd_template="./check %s --replay {path}" % pid,
        engine="n2sa",
        level_claimed=dict(category="other", text=m["text"], design_ref=m.get("design_ref", "DESIGN.md section 4 " + pid)),
        level_note=m["note"],
        technique=m["technique"],
    ))
man = dict(
    version=1,
    setup_cmd="./setup.sh",
    hooks=dict(guard="n2_verif", enable="none needed: the checks read rustc MIR of the unmodified sources (RUSTC_WORKSPACE_WRAPPER=engine/n2facts under cargo +nightly check); no instrumentation exists", baseline_off_cmd="cd /repo && cargo test --workspace --no-fail-fast --offline", source_commits=[], add_only=True),
    engines=[dict(name="n2sa", path="/verif/check", serves_properties=[c["property_id"] for c in checks], kind_free_text="static analysis: rustc_private MIR fact extractor (engine/n2facts) + Python rule engine (analysis/): CFG dominance, field-write/call-site censuses, symbolic operand resolution, finite-domain abstract interpretation, typestate")],
    checks=checks,
    notes=meta["notes"],
    not_applicable=na,
)
json.dump(man, open(os.path.join(HERE, "MANIFEST.json"), "w"), indent=1)
print("checks:", [c["property_id"] for c in checks], "n/a:", [n["property_id"] for n in na])
