#!/usr/bin/env python3
"""tools/check_all.py --repo <dir> [Cxx ...]: extract the MIR of <dir> ONCE and run the quick rules of all (or the named)
properties on it; prints one line per property with the failing rule instances (known findings excluded).
Used by the mutation sweep (tools/mutsweep.py); the registered checks are ./check, not this."""
import argparse, importlib, json, os, sys, traceback

HERE = os.path.dirname(os.path.dirname(os.path.abspath(__file__)))
sys.path.insert(0, os.path.join(HERE, "analysis"))
from n2sa import facts, query, report  # noqa: E402


def run_all(repo, pids=None):
    pids = pids or ["C%02d" % i for i in range(1, 21)]
    out = {}
    try:
        F = facts.load_current("default", repo)
    except facts.ExtractError as e:
        return {"_extract": str(e)[-400:]}
    ctx = query.Ctx(F)
    ctx.config, ctx.tier, ctx.seed = "default", "quick", 0
    for pid in pids:
        mod = importlib.import_module("rules.%s" % pid)
        ck = report.Check(pid, "quick", 0)
        try:
            mod.run(ck, ctx)
        except report.AnchorMissing:
            pass
        except Exception:
            ck.ob("internal", "checker-error", False, traceback.format_exc()[-300:], nontrivial=False)
        bad = sorted({o["key"] for o in ck.obs if not o["ok"] and (pid, o["key"]) not in ck.known})
        if bad:
            out[pid] = bad
    return out


if __name__ == "__main__":
    ap = argparse.ArgumentParser()
    ap.add_argument("--repo", required=True)
    ap.add_argument("pids", nargs="*")
    a = ap.parse_args()
    r = run_all(a.repo, a.pids)
    print(json.dumps(r, indent=1))
    sys.exit(1 if r else 0)
