#!/usr/bin/env python3
"""tools/mutgen3.py > mutants3.jsonl : third-generation operators for the mutation sweep of the checker:
  DELIF   a whole `if .. { .. }` block without else (up to 12 lines) removed
  SWAPST  two adjacent single-line statements exchanged
  NOERR   `expr?;` statement turned into `let _ = expr;` (an error is swallowed)
  ARGSW   the first two simple arguments of a call exchanged
  ELSE    `} else {` branch bodies: condition inverted is covered by NEG; here the else body is emptied
Records use the line-range form: {file, line, end, new_lines: [...]} (mutsweep replaces lines line..end by new_lines)."""
import json, os, re, sys
sys.path.insert(0, os.path.dirname(os.path.abspath(__file__)))
from mutgen import code_part, SRC
from mutgen2 import FILES


def block_end(lines, i):
    """index of the line closing the block opened at the end of line i (brace matching on code parts), or None"""
    depth = 0
    for j in range(i, min(len(lines), i + 40)):
        c = code_part(lines[j])
        # ignore braces in strings roughly
        c = re.sub(r'"(\\.|[^"\\])*"', '""', c)
        c = re.sub(r"'(\\.|[^'\\])'", "''", c)
        depth += c.count("{") - c.count("}")
        if depth == 0 and j > i:
            return j
        if depth < 0:
            return None
    return None


def gen_file(path, rel):
    lines = open(path).read().split("\n")
    out = []
    cut = len(lines)
    for i, l in enumerate(lines):
        if l.strip() == "#[cfg(test)]":
            cut = i
            break

    def emit(op, i, j, new_lines, note):
        out.append(dict(file=rel, line=i + 1, end=j + 1, op=op, new_lines=new_lines, text=lines[i].strip()[:140], old="\n".join(x.strip() for x in lines[i:j + 1])[:200], new=note, col=0))

    single = re.compile(r"^\s+[A-Za-z_(*&][^{}]*;\s*$")
    for i in range(cut):
        code = code_part(lines[i])
        st = code.strip()
        if not st:
            continue
        m = re.match(r"^(\s*)if (?!let ).*\{\s*$", code)
        if m and not st.startswith("} else"):
            j = block_end(lines, i)
            if j is not None and j - i <= 12 and code_part(lines[j]).strip() == "}":
                emit("DELIF", i, j, [], "(block removed)")
        m = re.match(r"^(\s*)\} else \{\s*$", code)
        if m:
            j = block_end(lines, i)
            if j is not None and j - i <= 10 and code_part(lines[j]).strip() == "}":
                emit("ELSE", i, j, [m.group(1) + "} else {", m.group(1) + "}"], "(else body emptied)")
        if single.match(code) and i + 1 < cut and single.match(code_part(lines[i + 1])) and not re.match(r"^\s+(return|break|continue)\b", code) and not re.match(r"^\s+(return|break|continue)\b", lines[i + 1]):
            emit("SWAPST", i, i + 1, [lines[i + 1], lines[i]], "(statements swapped)")
        m = re.match(r"^(\s+)([A-Za-z_][^;{}=]*)\?;\s*$", code)
        if m and not m.group(2).startswith(("let ", "return")):
            emit("NOERR", i, i, [m.group(1) + "let _ = " + m.group(2) + ";"], "(error ignored)")
        for mm in re.finditer(r"\b([A-Za-z_][\w:.]*)\((&?(?:mut )?[a-z_][\w.]*), (&?(?:mut )?[a-z_][\w.]*)([,)])", code):
            a, b = mm.group(2), mm.group(3)
            if a != b and not code.strip().startswith(("fn ", "pub fn ")):
                new = code[:mm.start(2)] + b + ", " + a + code[mm.end(3):]
                emit("ARGSW", i, i, [new + lines[i][len(code):]], "(arguments swapped)")
    return out


def main():
    n = 0
    for f in FILES:
        for m in gen_file(os.path.join(SRC, f), "src/" + f):
            m["id"] = "p%05d" % n
            n += 1
            print(json.dumps(m))


if __name__ == "__main__":
    main()
