#!/usr/bin/env python3
"""tools/mutgen.py [--files a.rs,b.rs] > mutants.jsonl
Generates first-order source mutants of /repo/src (non-test code) for the mutation sweep of the *checker*:
the sweep keeps the mutants that still compile and pass the 71 tests, runs every check on them, and lists the ones no
check reports -- each of those is either an equivalent mutant or a gap in the rules, decided by reading.
Operators: relational (== != < <= > >=), logical (&& ||), negation removal/insertion on `if`, boolean and small integer
literals, +1/-1, statement deletion (single-line expression statements), break/continue swap, and a few method pairs."""
import argparse, json, os, re, sys

SRC = "/repo/src"
SKIP_FILES = {"process_win.rs", "intern.rs"}

REL = {" == ": [" != "], " != ": [" == "], " < ": [" <= ", " > "], " <= ": [" < "], " > ": [" >= ", " < "], " >= ": [" > "]}
PAIRS = [
    (" && ", " || "), (" || ", " && "),
    ("push_back(", "push_front("), ("push_front(", "push_back("), ("pop_front(", "pop_back("),
    (".min(", ".max("), (".max(", ".min("),
    (" += 1", " -= 1"), (" -= 1", " += 1"), (" + 1", " - 1"), (" - 1", " + 1"), (" + 1", ""), (" - 1", ""),
    ("continue;", "break;"), ("break;", "continue;"),
    ("is_empty()", "len() == 1"), ("is_some()", "is_none()"), ("is_none()", "is_some()"),
    ("saturating_sub(", "wrapping_sub("),
    ("Ok(true)", "Ok(false)"), ("Ok(false)", "Ok(true)"), ("return true", "return false"), ("return false", "return true"),
    ("Some(0)", "Some(1)"),
    ("ordering_ins()", "dirtying_ins()"), ("dirtying_ins()", "ordering_ins()"), ("validation_ins()", "ordering_ins()"),
    ("explicit_outs()", "outs()"), ("explicit_ins()", "dirtying_ins()"),
    ("BuildState::Done", "BuildState::Failed"), ("BuildState::Ready", "BuildState::Want"), ("BuildState::Want", "BuildState::Ready"),
    ("BuildState::Queued", "BuildState::Ready"), ("BuildState::Running", "BuildState::Queued"),
    ("Termination::Success", "Termination::Failure"), ("Termination::Failure", "Termination::Success"), ("Termination::Interrupted", "Termination::Failure"),
    ("MTime::Missing", "MTime::Stamp(SystemTime::UNIX_EPOCH)"),
]
BOOL = [(r"\btrue\b", "false"), (r"\bfalse\b", "true")]
INTS = [(r"(?<![\w.])0(?![\w.x])", "1"), (r"(?<![\w.])1(?![\w.])", "0"), (r"(?<![\w.])1(?![\w.])", "2")]


def code_part(line):
    """the part of a line before a // comment (string-literal aware enough for this code base)"""
    in_s = False
    i = 0
    while i < len(line):
        c = line[i]
        if c == "\\" and in_s:
            i += 2
            continue
        if c == '"':
            in_s = not in_s
        elif not in_s and line.startswith("//", i):
            return line[:i]
        i += 1
    return line


def in_string(line, pos):
    in_s = False
    i = 0
    while i < pos:
        c = line[i]
        if c == "\\" and in_s:
            i += 2
            continue
        if c == '"':
            in_s = not in_s
        i += 1
    return in_s


def gen_file(path, rel):
    lines = open(path).read().split("\n")
    out = []
    cut = len(lines)
    for i, l in enumerate(lines):
        if l.strip() == "#[cfg(test)]":
            cut = i
            break
    for i in range(cut):
        line = lines[i]
        code = code_part(line)
        st = code.strip()
        if not st or st.startswith(("#[", "use ", "//", "pub use", "mod ", "pub mod", "extern ")):
            continue

        def emit(op, start, old, new):
            if in_string(line, start):
                return
            out.append(dict(file=rel, line=i + 1, col=start, op=op, old=old, new=new, text=line.strip()[:160]))

        for old, news in REL.items():
            for m in re.finditer(re.escape(old), code):
                for new in news:
                    emit("ROR", m.start(), old, new)
        for old, new in PAIRS:
            for m in re.finditer(re.escape(old), code):
                emit("PAIR", m.start(), old, new)
        for pat, new in BOOL:
            for m in re.finditer(pat, code):
                emit("BOOL", m.start(), m.group(0), new)
        for pat, new in INTS:
            for m in re.finditer(pat, code):
                emit("INT", m.start(), m.group(0), new)
        m = re.match(r"^(\s*)(?:\} else )?if (!?)", code)
        if m and "if let" not in code:
            p = m.end(0) - len(m.group(2))
            if m.group(2):
                emit("NEG", p, "!", "")
            else:
                # if COND {  ->  if !(COND) {
                j = code.rfind("{")
                if j > p:
                    emit("NEG", p, code[p:j], "!(" + code[p:j].rstrip() + ") ")
        m = re.match(r"^(\s*)while (!?)", code)
        if m and "while let" not in code and m.group(2):
            emit("NEG", m.end(0) - 1, "!", "")
        # statement deletion: a single-line expression statement
        if re.match(r"^\s+[A-Za-z_(*&][^{}]*;\s*$", code) and not re.match(r"^\s+(let |return\b|use |pub |const |static |type |fn )", code) and code.count("(") == code.count(")"):
            emit("SDL", len(code) - len(code.lstrip()), code.strip(), "")
        # `?` statement: make errors vanish is not type-correct in general; drop `return Ok(..)`-less early `continue`
    return out


def main():
    ap = argparse.ArgumentParser()
    ap.add_argument("--files")
    a = ap.parse_args()
    files = sorted(f for f in os.listdir(SRC) if f.endswith(".rs") and f not in SKIP_FILES)
    if a.files:
        files = [f for f in files if f in a.files.split(",")]
    n = 0
    for f in files:
        for m in gen_file(os.path.join(SRC, f), "src/" + f):
            m["id"] = "m%05d" % n
            n += 1
            print(json.dumps(m))


if __name__ == "__main__":
    main()
