#!/usr/bin/env python3
"""tools/sweep_recheck.py <sweep.jsonl> <out.jsonl> [-j N]: for the mutants that survived the test suite, re-apply the edit to a scratch
copy and run all checks again with the *current* rules (no cargo test); writes the refreshed records."""
import argparse, json, os, shutil, subprocess, sys, tempfile, threading, queue

HERE = os.path.dirname(os.path.dirname(os.path.abspath(__file__)))


def worker(q, outf, lock):
    d = tempfile.mkdtemp(prefix="n2recheck-")
    repo = os.path.join(d, "repo")
    env = dict(os.environ, N2SA_EVIDENCE_DIR=os.path.join(d, "ev"))
    try:
        subprocess.check_call(["rsync", "-a", "--exclude", "target", "--exclude", ".git", "/repo/", repo + "/"])
        while True:
            try:
                m = q.get_nowait()
            except queue.Empty:
                break
            fp = os.path.join(repo, m["file"])
            orig = open(fp).read()
            lines = orig.split("\n")
            line = lines[m["line"] - 1]
            if "new_lines" in m:
                stale = line.strip()[:140] != m["text"]
            else:
                stale = line[m["col"]:m["col"] + len(m["old"])] != m["old"]
            if stale:
                res = dict(m, outcome="stale")
            else:
                if "new_lines" in m:
                    lines[m["line"] - 1:m["end"]] = m["new_lines"]
                else:
                    lines[m["line"] - 1] = line[:m["col"]] + m["new"] + line[m["col"] + len(m["old"]):]
                open(fp, "w").write("\n".join(lines))
                p = subprocess.run([sys.executable, os.path.join(HERE, "tools", "check_all.py"), "--repo", repo], env=env, capture_output=True, text=True)
                try:
                    fired = json.loads(p.stdout)
                except Exception:
                    fired = {"_error": (p.stdout + p.stderr)[-300:]}
                res = dict(m, fired=fired)
                open(fp, "w").write(orig)
            with lock:
                outf.write(json.dumps(res) + "\n")
                outf.flush()
    finally:
        shutil.rmtree(d, ignore_errors=True)


def main():
    ap = argparse.ArgumentParser()
    ap.add_argument("sweep")
    ap.add_argument("out")
    ap.add_argument("-j", type=int, default=8)
    a = ap.parse_args()
    q = queue.Queue()
    rest = []
    for l in open(a.sweep):
        m = json.loads(l)
        if m["outcome"] == "survived":
            q.put(m)
        else:
            rest.append(m)
    outf = open(a.out, "w")
    for m in rest:
        outf.write(json.dumps(m) + "\n")
    lock = threading.Lock()
    ts = [threading.Thread(target=worker, args=(q, outf, lock)) for _ in range(a.j)]
    for t in ts:
        t.start()
    for t in ts:
        t.join()


if __name__ == "__main__":
    main()
