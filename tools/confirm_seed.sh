#!/bin/bash
# usage: confirm_seed.sh <worktree> <seed-id> <property>
# Confirms a sub-agent's seeded change independently: (1) tests green with the change, (2) demo fails with it,
# (3) demo passes without it.  On success copies the deliverables to /verif/seeded/<seed-id>/ and writes
# confirm.log there.  Never touches /repo's working tree.
set -u
WT=$1; ID=$2; PROP=$3
OUT=/verif/seeded/$ID
LOG=$(mktemp)
cd "$WT" || exit 2
export CARGO_NET_OFFLINE=true
git diff -- src > /tmp/confirm-$ID.diff
if ! diff -q <(grep -v '^index ' /tmp/confirm-$ID.diff) <(grep -v '^index ' _out/patch.diff) >/dev/null; then echo "NOTE: worktree diff differs from _out/patch.diff; using _out/patch.diff" | tee -a $LOG; git checkout -- src; git apply _out/patch.diff || { echo "patch does not apply"; exit 2; }; fi
echo "== cargo test with change" | tee -a $LOG
cargo test --offline --no-fail-fast 2>&1 | grep -E '^test result|FAILED|failed' | tee -a $LOG
T_OK=$(grep -c 'test result: ok' $LOG); T_BAD=$(grep -c 'test result: FAILED' $LOG)
echo "== demo with change (expect non-zero)" | tee -a $LOG
DEMO=_out/demo.sh
timeout 600 bash $DEMO "$WT" > /tmp/confirm-$ID.with 2>&1; RC_WITH=$?
tail -5 /tmp/confirm-$ID.with | tee -a $LOG; echo "rc=$RC_WITH" | tee -a $LOG
git diff -- src > /tmp/confirm-$ID.applied.diff; git checkout -- src
echo "== demo without change (expect zero)" | tee -a $LOG
timeout 600 bash $DEMO "$WT" > /tmp/confirm-$ID.without 2>&1; RC_WITHOUT=$?
tail -5 /tmp/confirm-$ID.without | tee -a $LOG; echo "rc=$RC_WITHOUT" | tee -a $LOG
git apply /tmp/confirm-$ID.applied.diff
if [ "$T_BAD" = 0 ] && [ "$T_OK" -ge 2 ] && [ $RC_WITH -ne 0 ] && [ $RC_WITH -ne 124 ] && [ $RC_WITHOUT -eq 0 ]; then
  mkdir -p $OUT; cp _out/patch.diff _out/notes.md $OUT/ 2>/dev/null; cp _out/demo* $OUT/ 2>/dev/null; cp $LOG $OUT/confirm.log
  echo "CONFIRMED $ID ($PROP)" | tee -a $OUT/confirm.log
else
  echo "NOT CONFIRMED $ID: tests ok=$T_OK bad=$T_BAD with=$RC_WITH without=$RC_WITHOUT"
fi
