#!/bin/sh
# Builds the fact extractor and warms the dependency cache (offline). Idempotent.
set -e
cd "$(dirname "$0")"
export CARGO_NET_OFFLINE=true
(cd engine/n2facts && cargo build --release --offline 2>&1 | tail -2)
mkdir -p .cache evidence
# one extraction run compiles /repo's dependencies (jemalloc-sys' C build dominates) into .cache/target
python3 - <<'PY'
import sys
sys.path.insert(0, 'analysis')
from n2sa import facts
for cfg in ('default', 'nodefault', 'crlf'):
    F = facts.load_current(cfg)
    print('warm', cfg, len(F.bodies), 'bodies', round(F.extract_s, 1), 's')
PY
