"""EFF: effect table of work::BuildStates::set (shared by C01, C04, C06, C19) and StateCounts::idx."""
from n2sa.pathint import PathInt, concretise, Unsupported, PathExplosion
from n2sa.facts import norm

SET = "work::BuildStates::set"
STATE = "work::BuildState"

CLAUSES = {
    # clause -> (event selector, expected count as function of (prev, new, phony))
    "replace": (lambda e: e[0] == "replace", lambda p, n, ph: 1),
    "pending+": (lambda e: e[0] == "add" and e[1].endswith("work::BuildStates.total_pending") and e[3].endswith("work::BuildStates.total_pending") and e[2] == 1, lambda p, n, ph: int(p == "Unknown")),
    "pending-": (lambda e: e[0] == "add" and e[1].endswith("work::BuildStates.total_pending") and e[3].endswith("work::BuildStates.total_pending") and e[2] == -1, lambda p, n, ph: int(n in ("Done", "Failed"))),
    "running-": (lambda e: e[0] == "add" and e[1].endswith("work::PoolState.running") and e[3] == e[1] and e[2] == -1, lambda p, n, ph: int(p == "Running")),
    "running+": (lambda e: e[0] == "add" and e[1].endswith("work::PoolState.running") and e[3] == e[1] and e[2] == 1, lambda p, n, ph: int(n == "Running")),
    "ready-push": (lambda e: e[0] in ("push_back", "push_front") and e[1].endswith("work::BuildStates.ready"), lambda p, n, ph: int(n == "Ready")),
    "counts-prev": (lambda e: e[0] == "counts.add" and e[2] == -1, lambda p, n, ph: int(p != "Unknown" and not ph)),
    "counts-new": (lambda e: e[0] == "counts.add" and e[2] == 1, lambda p, n, ph: int(not ph)),
}
IGNORED = ("may-panic", "unwrap")


def _hook(F):
    variants = frozenset(F.variants(STATE))

    def on_call(eng, st, bb, t, callee, args):
        if callee == "std::mem::replace":
            s2 = st.copy()
            s2.events.append(("replace", eng.show(st, args[0]), eng.show(st, args[1])))
            if "prev" not in s2.syms:
                s2.syms["prev"] = variants
            return [(s2, ("sym", "prev"))]
        if callee in ("std::option::Option::is_none", "std::option::Option::is_some"):
            a = args[0]
            if a and a[0] == "pl" and a[1].endswith("graph::Build.cmdline"):
                s2 = st.copy()
                if "phony" not in s2.syms:
                    s2.syms["phony"] = frozenset([True, False])
                v = ("sym", "phony")
                return [(s2, v if callee.endswith("is_none") else ("not", v))]
            return None
        if callee.endswith("IndexMut<K>>::index_mut") or callee.endswith("Index<K>>::index"):
            a = args[0]
            base = a[1] if a and a[0] == "pl" else "?"
            return [(st, ("pl", base + "/[%s]" % eng.show(st, args[1])))]
        if callee == "work::BuildStates::get_pool":
            return [(st, ("pl", "POOL(%s)" % eng.show(st, args[1])))]
        if callee == "work::StateCounts::add":
            s2 = st.copy()
            s2.events.append(("counts.add", eng.show(st, args[1]), args[2][1] if args[2] and args[2][0] == "int" else "?"))
            return [(s2, ("op", "unit"))]
        if callee.endswith("VecDeque::push_back") or callee.endswith("VecDeque::push_front"):
            s2 = st.copy()
            a = args[0]
            s2.events.append(("push_back" if callee.endswith("back") else "push_front", a[1] if a and a[0] == "pl" else "?", eng.show(st, args[1])))
            return [(s2, ("op", "unit"))]
        if callee == "work::BuildStates::get":
            return None
        return None

    return on_call


def set_paths(F):
    body = F.body(SET)
    if body is None:
        return None, None
    # parameters: 1 self, 2 id, 3 build, 4 state
    names = {v: k for k, v in body.names.items()}
    new_l = None
    for i in range(1, body.argc + 1):
        if norm(body.locals[i]["adt"] or "") == STATE and not body.locals[i]["s"].startswith("&"):
            new_l = i
    eng = PathInt(F, body, on_call=_hook(F))
    init = {}
    for i in range(1, body.argc + 1):
        if i == new_l:
            init[i] = ("sym", "new")
        elif body.locals[i]["s"].startswith("&"):
            init[i] = ("pl", body.local_name(i))
        else:
            init[i] = ("op", body.local_name(i))
    res = eng.run(init, {"new": frozenset(F.variants(STATE))})
    return body, res


def eff_table(ck, ctx, clauses):
    """obligations `table|<clause>` for the requested clauses, decided over all 98 abstract inputs"""
    F = ctx.F
    ck.need("fn " + SET, F.body(SET))
    ck.need("enum " + STATE, F.adts.get(STATE))
    try:
        body, res = set_paths(F)
    except (Unsupported, PathExplosion) as e:
        ck.ob("table", "interpretable", False, "BuildStates::set could not be interpreted over finite domains: %s" % e, span=F.body(SET).loc, fn=SET)
        return
    ck.functions.add(SET)
    variants = F.variants(STATE)
    # coverage: every (prev, new, phony) combination is taken by exactly one returning path
    cover = {}
    bad_kind = []
    rows = []
    for kind, st in res:
        for a in concretise(st):
            prevs = [a["prev"]] if "prev" in a else variants
            phs = [a["phony"]] if "phony" in a else [True, False]
            for p in prevs:
                for ph in phs:
                    key = (p, a["new"], ph)
                    cover.setdefault(key, []).append((kind, st))
    total = len(variants) * len(variants) * 2
    ck.extra["eff_inputs"] = total
    ck.extra["eff_paths"] = len(res)
    missing = [k for k in ((p, n, ph) for p in variants for n in variants for ph in (True, False)) if k not in cover]
    nonret = sorted({k for k, v in cover.items() if any(kind != "return" for kind, _ in v)})
    ck.ob("table", "total", not missing and not nonret, "set() must return normally for all %d (prev,new,phony) inputs; missing=%s non-returning=%s" % (total, missing[:4], nonret[:4]), span=body.loc, fn=SET)

    def concrete_events(st, p, n, ph):
        out = []
        for e in st.events:
            if e[0] in IGNORED:
                continue
            e2 = tuple(({"$prev": p, "$new": n}.get(x, x) if isinstance(x, str) else x) for x in e)
            out.append(e2)
        return out

    for cl in clauses:
        sel, exp = CLAUSES[cl]
        bad = []
        for (p, n, ph), lst in sorted(cover.items(), key=str):
            for kind, st in lst:
                if kind != "return":
                    continue
                evs = [e for e in concrete_events(st, p, n, ph) if sel(e)]
                want = exp(p, n, ph)
                ok = len(evs) == want
                # argument checks
                if ok and cl == "counts-prev" and evs and evs[0][1] != p:
                    ok = False
                if ok and cl == "counts-new" and evs and evs[0][1] != n:
                    ok = False
                if ok and cl == "replace" and evs and (evs[0][2] != n or "work::BuildStates.states" not in evs[0][1]):
                    ok = False
                if ok and cl == "ready-push" and evs and evs[0][2] not in ("op:id", "id") and "id" not in str(evs[0][2]):
                    ok = False
                if not ok:
                    bad.append(("prev=%s new=%s phony=%s" % (p, n, ph), "observed %r expected %d" % (evs, want)))
        ck.ob(
            "table",
            cl,
            not bad,
            ("effect `%s` of BuildStates::set agrees with the specification on all %d inputs" % (cl, total)) if not bad else "effect `%s` wrong for %d inputs, e.g. %s" % (cl, len(bad), bad[:3]),
            span=body.loc,
            path=["%s: %s" % b for b in bad[:6]],
            fn=SET,
        )
    # no effects outside the table
    known = list(CLAUSES.values())
    stray = set()
    for kind, st in res:
        for e in st.events:
            if e[0] in IGNORED:
                continue
            if e[0] == "opaque-branch":
                stray.add(("opaque-branch", e[1]))
                continue
            if not any(sel(e) for sel, _ in known):
                stray.add(tuple(str(x) for x in e))
    ck.ob("table", "no-other-effects", not stray, "effects of BuildStates::set outside the specified table: %s" % sorted(stray)[:5] if stray else "no effect outside the table on any of %d paths" % len(res), span=body.loc, fn=SET)
    for k, lst in sorted(cover.items(), key=str)[:1]:
        pass
    ck.extra.setdefault("eff_rows", [])
    for (p, n, ph) in [("Running", "Done", False), ("Unknown", "Ready", True), ("Queued", "Running", False)]:
        if (p, n, ph) in cover:
            kind, st = cover[(p, n, ph)][0]
            ck.extra["eff_rows"].append({"prev": p, "new": n, "phony": ph, "events": [list(map(str, e)) for e in concrete_events(st, p, n, ph)]})


def idx_bijection(ck, ctx):
    """StateCounts::idx maps the six counted states to distinct slots 0..5 (each step counted in exactly one state)"""
    F = ctx.F
    body = ck.need("fn work::StateCounts::idx", F.body("work::StateCounts::idx"))
    eng = PathInt(F, body)
    try:
        res = eng.run({1: ("sym", "s")}, {"s": frozenset(F.variants(STATE))})
    except (Unsupported, PathExplosion) as e:
        ck.ob("idx", "interpretable", False, str(e), span=body.loc)
        return
    m = {}
    for kind, st in res:
        for a in concretise(st):
            if kind == "return":
                m[a["s"]] = st.vals.get(0)
            else:
                m[a["s"]] = ("diverge",)
    counted = [v for v in F.variants(STATE) if v != "Unknown"]
    vals = [m.get(v) for v in counted]
    ok = all(v and v[0] == "int" for v in vals) and sorted(v[1] for v in vals) == list(range(len(counted)))
    ck.ob("idx", "bijection", ok, "StateCounts::idx: %s" % {k: (v[1] if v and v[0] == "int" else v) for k, v in m.items()}, span=body.loc, fn=body.nname)
    ck.ob("idx", "unknown-not-counted", m.get("Unknown") == ("diverge",), "Unknown has no counter slot (idx diverges)", span=body.loc, fn=body.nname)


def state_predicate_table(F, fn):
    """truth table {state: bool} of a bool-returning BuildStates helper that inspects the state of one build id,
    by finite-domain interpretation; None if the function is not of that shape"""
    body = F.body(fn)
    if body is None or body.locals[0]["s"] != "bool":
        return None
    variants = frozenset(F.variants(STATE))

    def on_call(eng, st, bb, t, callee, args):
        if callee.endswith("Index<K>>::index") or callee.endswith("IndexMut<K>>::index_mut"):
            a = args[0]
            if a and a[0] == "pl" and a[1].endswith("work::BuildStates.states"):
                s2 = st.copy()
                s2.syms.setdefault("st", variants)
                return [(s2, ("refv", ("sym", "st")))]
        if callee == "work::BuildStates::get":
            s2 = st.copy()
            s2.syms.setdefault("st", variants)
            return [(s2, ("sym", "st"))]
        return None

    eng = PathInt(F, body, on_call=on_call)
    init = {}
    for i in range(1, body.argc + 1):
        init[i] = ("pl", body.local_name(i)) if body.locals[i]["s"].startswith("&") else ("op", body.local_name(i))
    try:
        res = eng.run(init, {})
    except (Unsupported, PathExplosion):
        return None
    table = {}
    for kind, st in res:
        if kind != "return" or "st" not in st.syms:
            return None
        v = st.vals.get(0)
        if v is None or v[0] != "bool":
            return None
        if any(e[0] in ("call", "write", "add", "opaque-branch") for e in st.events):
            return None
        for s_ in st.syms["st"]:
            if s_ in table and table[s_] != v[1]:
                return None
            table[s_] = v[1]
    return table if set(table) == set(variants) else None
