"""Rules over scanner.rs / parse.rs / depfile.rs shared by C12 and C15."""
from n2sa import query as Q
from n2sa.expr import strip, show, field_chain, alts, calls_in, walk
from n2sa.facts import callee_of, norm
from n2sa.typestate import Typestate, Recursion, READ, PEEK, BACK
from . import common as C

SC = "scanner::Scanner"


def nul_typestate(ck, ctx, entries, rule="nul-typestate"):
    F = ctx.F
    ts = Typestate(F)
    res = {}
    try:
        for e in entries:
            ck.need("fn " + e, F.body(e))
            res[e] = ts.analyze(e)
    except Recursion as r:
        ck.ob(rule, "interpretable", False, "recursive scanner function %s: summaries would not terminate (fail closed)" % r, span=None)
        return res
    fns = sorted({k[0] for k in ts.memo})
    per_fn = {}
    for (fn, bb, c) in ts.site_keys:
        per_fn.setdefault(fn, set()).add((bb, c))
    for fn in fns:
        ck.functions.add(fn)
    bad_fns = {v["key"].split("->")[0] for v in ts.viol.values()}
    for fn in fns:
        ctxs = len([k for k in ts.memo if k[0] == fn])
        n = len(per_fn.get(fn, ()))
        if fn in bad_fns:
            continue
        ck.ob(rule, fn, True, "%s: %d read/peek site-contexts in %d calling contexts all have the scanner SAFE (no read after an un-returned NUL)" % (fn, n, ctxs), span=F.body(fn).loc, fn=fn, nontrivial=n > 0 or ctxs > 0)
    for v in ts.viol.values():
        ck.ob(rule, v["key"], False, "scanner may be %s (past the NUL terminator) when %s; deepest site %s" % (v["ghost"], v["what"], v["deepest"]), span=v["loc"], path=["via " + " -> ".join(x.split("::")[-1] for x in v["chain"])], fn=v["key"].split("->")[0])
    # net-advance (termination) clause: every cycle of every loop in these functions consumes >= 1 byte
    for (fn, k) in sorted(ts.loops_checked):
        key = "%s|loop#%d" % (fn, k)
        bad = ts.noadv.get(key)
        ck.ob("advance", key, bad is None, ("every cycle through loop #%d of %s consumes at least one input byte (the cursor is bounded by the buffer, so the loop terminates)" % (k, fn)) if bad is None else "a cycle through loop #%d of %s may consume no input (lower bound of net advance %s): possible endless loop; reached via %s" % (k, fn, bad["lb"], " -> ".join(x.split("::")[-1] for x in bad["chain"])), span=(bad or {}).get("loc") or F.body(fn).loc, fn=fn)
    # slice-ordered: Scanner::slice is unchecked, so at every call start <= end must follow from how the offsets were obtained
    # (snapshots of scanner.ofs and the net movement between them), on every path and in every calling context
    for key, rec in ts.slices.items():
        ck.ob("slice-ordered", key, rec["ok"], "Scanner::slice(start, end) in %s: %s on every path (%s)" % (rec["fn"], "start <= end" if rec["ok"] else "start <= end is NOT established", "; ".join(rec["why"][:4])), span=rec["loc"], fn=rec["fn"])
    ck.floor("Scanner::slice sites checked for ordered offsets", len(ts.slices), 6 if len(entries) > 1 else 1)
    ck.floor("scanner-driven loops checked for progress", len(ts.loops_checked), 8 if len(entries) > 1 else 3)
    ck.extra["typestate"] = dict(functions=len(fns), contexts=len(ts.memo), site_contexts=len(ts.site_keys), loops=len(ts.loops_checked), exits={e: sorted({str((x[0], x[1])) for x in r}) for e, r in res.items()})
    ck.extra["typestate_raw_exits"] = {e: sorted(r, key=str) for e, r in res.items()}
    ck.floor("functions under the NUL typestate", len(fns), 5)
    ck.floor("read/peek site-contexts checked", len(ts.site_keys), 10)
    return res


def scanner_axioms(ck, ctx, rule="scanner-axioms"):
    """shape rules on scanner.rs that justify the typestate axioms"""
    F = ctx.F
    # unchecked access only in get / slice
    un = {}
    for b in F.all_bodies():
        for bb, t in b.calls():
            c = callee_of(t)
            if "get_unchecked" in c or c.endswith("from_utf8_unchecked") or "slice_unchecked" in c or c.endswith("::assume_init") or c.endswith("hint::assert_unchecked") or c.endswith("Vec::set_len") or c.endswith("as_mut_vec"):
                un.setdefault(c.split("::")[-1], set()).add(b.nname)
    exp = {
        "get_unchecked": {"scanner::Scanner::get", "scanner::Scanner::slice"},
        "from_utf8_unchecked": {"scanner::Scanner::slice", "db::Reader::read_str", "task::extract_showincludes"},
        "assume_init": {"canon::StackStack::pop"},
        "assert_unchecked": {"canon::canonicalize_path"},
        "set_len": {"canon::canonicalize_path", "scanner::read_file_with_nul"},
        "as_mut_vec": {"canon::canonicalize_path"},
    }
    for k, fns in sorted(un.items()):
        ck.ob(rule, "unchecked|%s" % k, fns <= exp.get(k, set()), "unchecked primitive %s is used in %s (expected within %s)" % (k, sorted(fns), sorted(exp.get(k, []))), span="crate")
    C.callers_exact(ck, ctx, rule, "scanner::Scanner::get", ["scanner::Scanner::peek", "scanner::Scanner::read", "scanner::Scanner::back"], floor=3)
    C.single_writer(ck, ctx, rule, SC, "ofs", ["scanner::Scanner::read", "scanner::Scanner::back"])
    C.single_writer(ck, ctx, rule, SC, "buf", [], need_writer=False)
    cons = Q.adt_constructors(F, SC)
    ck.ob(rule, "ctor", [b.nname for b, _, _ in cons] == ["scanner::Scanner::new"], "Scanner is constructed only in Scanner::new (%s)" % [b.nname for b, _, _ in cons], span=SC)
    nb = ck.need("fn scanner::Scanner::new", F.body("scanner::Scanner::new"))
    ncfg = ctx.cfg(nb)
    NR = ctx.res(nb)

    def pred_nul(e):
        e = strip(e)
        if e[0] == "call" and e[1].endswith("slice::ends_with") and strip(e[2][0])[0] == "param":
            return True
        return False

    g = C.bool_gate_edges(ctx, nb, pred_nul)
    strs = Q.body_strings(F, nb)
    for b, bb, s in cons:
        if b.nname != nb.nname:
            continue
        fields = F.struct_fields(SC)
        ok = Q.gated(ncfg, bb, g)[0] and any(x in ('b"\\0"', 'b"\\x00"') or "\\x00" in x or "\\0" in x for x in strs)
        ofs0 = NR.agg_op(bb, s, fields.index("ofs")) == ("const", 0)
        bufp = strip(NR.agg_op(bb, s, fields.index("buf")))[0] == "param"
        ck.ob(rule, "new|nul-terminated", ok and ofs0 and bufp, "Scanner::new builds {buf: <param>, ofs: 0} only when buf.ends_with(b\"\\0\") (strings %s)" % strs[:2], span=nb.loc, fn=nb.nname)
    # read: returns the byte fetched before the increment; ofs += 1 on every returning path (one extra under crlf)
    rb = ck.need("fn " + READ, F.body(READ))
    ds = C.field_deltas(ctx, rb, SC, "ofs")
    rcfg = ctx.cfg(rb)
    plus = [d for d in ds if d[1] == 1]
    ok = bool(plus) and all(d[1] == 1 for d in ds) and any(all(rcfg.dominates(d[0], r) for r in rcfg.returns()) for d in plus) and len(ds) <= 2
    ck.ob(rule, "read|advances", ok, "Scanner::read advances ofs by exactly one step on every returning path (updates %s)" % ds, span=rb.loc, fn=READ)
    RR = ctx.res(rb)
    rets = rcfg.returns()
    e = RR.local(0, RR.term_at(rets[0]))
    okr = all(any(c[1] == "scanner::Scanner::get" for c in calls_in(a)) or a == ("const", 10) for a in alts(e))
    gets = [bb for bb, t in rb.calls() if callee_of(t) == "scanner::Scanner::get"]
    okr = okr and bool(gets) and all(rcfg.dominates(gets[0], d[0]) for d in ds)
    ck.ob(rule, "read|returns-fetched-byte", okr, "Scanner::read returns the byte fetched at the old offset (%s)" % show(e, 2), span=rb.loc, fn=READ)
    bb_ = ck.need("fn " + BACK, F.body(BACK))
    dsb = C.field_deltas(ctx, bb_, SC, "ofs")
    bcfg = ctx.cfg(bb_)
    ok = bool(dsb) and all(d[1] == -1 for d in dsb) and any(all(bcfg.dominates(d[0], r) for r in bcfg.returns()) for d in dsb)
    ck.ob(rule, "back|retreats", ok, "Scanner::back moves ofs back on every returning path (updates %s)" % dsb, span=bb_.loc, fn=BACK)
    pb = ck.need("fn " + PEEK, F.body(PEEK))
    ck.ob(rule, "peek|pure", not C.field_deltas(ctx, pb, SC, "ofs") and PEEK not in Q.writers(F, SC, "ofs"), "Scanner::peek does not move the cursor", span=pb.loc, fn=PEEK)
    gb = ck.need("fn scanner::Scanner::get", F.body("scanner::Scanner::get"))
    GR = ctx.res(gb)
    okg = False
    for bb, t in gb.calls():
        if "get_unchecked" in callee_of(t):
            i = strip(GR.arg(bb, 1))
            base, names = field_chain(i)
            okg = names == ["ofs"] and strip(base)[0] == "param" and field_chain(strip(GR.arg(bb, 0)))[1][-1:] == ["buf"]
    ck.ob(rule, "get|indexes-buf-at-ofs", okg, "Scanner::get reads buf[ofs]", span=gb.loc, fn=gb.nname)


def inputs_nul_terminated(ck, ctx, rule="inputs"):
    """every buffer handed to Scanner::new / Parser::new comes from read_file_with_nul, which appends the NUL"""
    F = ctx.F
    b = ck.need("fn scanner::read_file_with_nul", F.body("scanner::read_file_with_nul"))
    cfg = ctx.cfg(b)
    R = ctx.res(b)
    pushes = [(bb, t) for bb, t in b.calls() if callee_of(t).endswith("Vec::push") and R.arg(bb, 1) == ("const", 0)]
    oks = C.ok_return_blocks(ctx, b)
    ok = len(pushes) == 1 and all(cfg.dominates(pushes[0][0], x) for x, s, e in oks)
    if ok:
        after = cfg.reach_avoid([y for y, _ in cfg.succ[pushes[0][0]]])
        muts = [x for x, t in b.calls() if x in after and callee_of(t).startswith("std::vec::Vec::") and callee_of(t).split("::")[-1] in ("push", "pop", "truncate", "set_len", "clear", "extend_from_slice", "insert", "remove")]
        ok = not muts
    ck.ob(rule, "read_file_with_nul|appends-nul", ok, "read_file_with_nul pushes 0 as the last mutation of the buffer it returns", span=b.loc, fn=b.nname)
    for callee in ("scanner::Scanner::new", "parse::Parser::new"):
        for i, (cb, bb, t) in enumerate(F.call_sites(callee)):
            CR = ctx.res(cb)
            e = CR.arg(bb, 0)
            src = {c[1] for c in calls_in(e)}
            okp = "scanner::read_file_with_nul" in src or "load::Loader::read_file_by_id" in src or (cb.nname == "parse::Parser::new" and strip(e)[0] == "param")
            ck.ob(rule, "%s<-%s#%d" % (callee, cb.nname, i), okp, "%s receives a buffer from read_file_with_nul (%s)" % (callee, sorted(s for s in src if "read_file" in s) or show(strip(e), 2)), span=t["loc"], fn=cb.nname)
    rb = F.body("load::Loader::read_file_by_id")
    if rb is not None:
        cl = [n for n in F.bodies if n.startswith("load::Loader::read_file_by_id::{closure#")]
        ok = any(callee_of(t) == "scanner::read_file_with_nul" for n in cl for _, t in F.body(n).calls())
        ck.ob(rule, "read_file_by_id|uses-read_file_with_nul", ok, "Loader::read_file_by_id reads through read_file_with_nul", span=rb.loc, fn=rb.nname)


def parse_error_flow(ck, ctx, rule="errflow"):
    """parse errors are formatted with format_parse_error and propagated up to main"""
    F = ctx.F
    for callee, fmt_owner in (("parse::Parser::read", "parse::Parser::format_parse_error"), ("depfile::parse", "scanner::Scanner::format_parse_error")):
        sites = F.call_sites(callee)
        ck.floor("call sites of %s" % callee, len(sites), 1)
        for i, (b, bb, t) in enumerate(sites):
            R = ctx.res(b)
            cfg = ctx.cfg(b)
            # result -> map_err(closure calling format_parse_error) -> `?`
            tries = C.try_err_edges(ctx, b)
            ok = False
            for tb, (cont, brk, ope) in tries.items():
                if ope is None:
                    continue
                o = strip(ope)
                if o[0] == "call" and o[1].endswith("Result::map_err") and any(c[1] == callee and c[3] == bb for c in calls_in(o[2][0])):
                    clo = strip(o[2][1])
                    if clo[0] == "agg" and clo[1] == "closure":
                        cb = F.body(clo[2])
                        ok = cb is not None and any(callee_of(tt) == fmt_owner for _, tt in cb.calls())
            ck.ob(rule, "%s<-%s#%d|formatted-and-propagated" % (callee, b.nname, i), ok, "the ParseResult of %s is mapped through %s and propagated with `?`" % (callee, fmt_owner.split("::")[-1]), span=t["loc"], fn=b.nname)
            # after an Err nothing reads that scanner again: the `?` Break edge leaves the function
    # propagation chain to run::build
    chain = [
        ("load::Loader::parse_with_parser", "load::Loader::parse_with_parser"),
        ("load::read::{closure#0}", "load::Loader::parse_with_parser"),
        ("load::Loader::parse_with_parser", "load::Loader::read_file_by_id"),
        ("load::Loader::parse_with_parser", "load::Loader::add_build"),
        ("load::Loader::add_build", "graph::Graph::add_build"),
    ]
    for fn, callee in chain:
        b = ck.need("fn " + fn, F.body(fn))
        cfg = ctx.cfg(b)
        R = ctx.res(b)
        for i, (bb, t) in enumerate(Q.sites_in(b, callee)):
            tries = C.try_err_edges(ctx, b)
            via_try = any(ope is not None and strip(ope)[0] == "call" and strip(ope)[3] == bb for (_, _, ope) in tries.values())
            tail = not t["dest"]["p"] and t["dest"]["l"] == 0
            ck.ob(rule, "%s->%s#%d|propagates" % (fn, callee, i), via_try or tail, "the Result of %s is propagated (`?` or returned) by %s" % (callee, fn), span=t["loc"], fn=fn)
    # load::read: scope(closure#0)? ; run::build: scope(load::read)?
    from . import runloop as RL
    for fn, inner in (("load::read", "load::Loader::parse_with_parser"), ("run::build", "load::read")):
        b = ck.need("fn " + fn, F.body(fn))
        for i, (bb, t, clo) in enumerate(RL.scope_sites(ctx, b, inner)):
            ck.ob(rule, "%s->scope(%s)#%d|propagates" % (fn, inner, i), RL.try_of_call(ctx, b, bb) is not None, "%s propagates the error of %s with `?`" % (fn, inner), span=t["loc"], fn=fn)
    # ParseError carries the scanner offset at the time of the error
    cons = Q.adt_constructors(F, "scanner::ParseError")
    ok = [b.nname for b, _, _ in cons] == ["scanner::Scanner::parse_error"]
    if ok:
        b, bb, s = cons[0]
        R = ctx.res(b)
        fields = F.struct_fields("scanner::ParseError")
        e = strip(R.agg_op(bb, s, fields.index("ofs")))
        ok = field_chain(e)[1] == ["ofs"]
    ck.ob(rule, "ParseError|ofs-is-scanner-ofs", ok, "ParseError is built only by Scanner::parse_error with ofs = self.ofs", span="scanner::ParseError")


def format_error_shape(ck, ctx, rule="diagnostic"):
    """format_parse_error scans the whole buffer (every reportable offset 0..=len has a line) and its cuts are in range"""
    F = ctx.F
    b = ck.need("fn scanner::Scanner::format_parse_error", F.body("scanner::Scanner::format_parse_error"))
    cfg = ctx.cfg(b)
    R = ctx.res(b)
    ck.functions.add(b.nname)
    sp = [(bb, t) for bb, t in b.calls() if callee_of(t).endswith("slice::split") or callee_of(t).endswith("::lines") or callee_of(t).endswith("split_inclusive")]
    ck.floor("line split in format_parse_error", len(sp), 1)
    for bb, t in sp:
        e = strip(R.arg(bb, 0))
        base, names = field_chain(e)
        ck.ob(rule, "scans-whole-buffer", names == ["buf"] and strip(base)[0] == "param" and e[0] == "field", "the line scan covers the whole scanner buffer including the terminator (%s), so offset == len still has a line" % show(e, 3), span=t["loc"], fn=b.nname)
        clo = strip(R.arg(bb, 1))
        if clo[0] == "agg" and clo[1] == "closure":
            cb = F.body(clo[2])
            from n2sa import bytetable as BT
            tab = BT.predicate_table(cb, 2)
            trues = tab.get(1, tab.get(True))
            ck.ob(rule, "splits-on-newline", trues == [10] and not tab.get(None), "lines are split exactly at '\\n' (predicate true for %s, evaluated for all 256 bytes)" % trues, span=cb.loc, fn=cb.nname)
    # the lines tile the buffer: the running offset starts at 0 and grows by len(line) + 1 after each line that does not contain the
    # error offset; hence when `ofs + len >= err.ofs` first holds, ofs <= err.ofs and the column `err.ofs - ofs` cannot underflow
    names = {nm: l for l, nm in b.names.items()}
    ofs_l = names.get("ofs")
    tiling = False
    det = "no running offset"
    if ofs_l is not None:
        defs = []
        for bi in cfg.reach:
            for si, s_ in enumerate(b.blocks[bi]["stmts"]):
                if s_["k"] == "assign" and not s_["place"]["p"] and s_["place"]["l"] == ofs_l:
                    defs.append((bi, R.stmt_rvalue(bi, s_)))
        inits = [e for bi, e in defs if cfg.enclosing_loop_header(bi) is None]
        incs = [strip(e) for bi, e in defs if cfg.enclosing_loop_header(bi) is not None]

        def is_len_line(x):
            x = strip(x)
            return x[0] == "call" and x[1].endswith("::len")

        def is_ofs_plus_len(x):
            x = strip(x)
            return x[0] == "bin" and x[1] == "Add" and is_len_line(x[3]) and not is_len_line(x[2])

        inc_ok = len(incs) == 1 and incs[0][0] == "bin" and incs[0][1] == "Add" and ((incs[0][3] == ("const", 1) and is_ofs_plus_len(incs[0][2])) or (strip(incs[0][3])[0] == "bin" and strip(incs[0][3])[1] == "Add" and strip(incs[0][3])[3] == ("const", 1) and is_len_line(strip(incs[0][3])[2])))
        tests = [sbb for sbb, st, e in Q.switches(ctx, b) if strip(e)[0] == "bin" and strip(e)[1] == "Ge" and is_ofs_plus_len(strip(e)[2]) and field_chain(strip(strip(e)[3]))[1][-1:] == ["ofs"]]
        cols = [bi for bi in cfg.reach for s_ in b.blocks[bi]["stmts"] if s_["k"] == "assign" and not s_["place"]["p"] and b.local_name(s_["place"]["l"]) == "col" and strip(R.stmt_rvalue(bi, s_))[0] == "bin" and strip(R.stmt_rvalue(bi, s_))[1] == "Sub" and field_chain(strip(strip(R.stmt_rvalue(bi, s_))[2]))[1][-1:] == ["ofs"]]
        tiling = inits == [("const", 0)] and inc_ok and len(tests) == 1 and len(cols) >= 1 and all(Q.gated(cfg, c_, {(tests[0], Q.bool_edges(b.blocks[tests[0]]["term"])[0])})[0] for c_ in cols)
        det = "init %s, %d increments (%s), %d selection tests, %d column computations" % ([show(e) for e in inits], len(incs), "ofs + len + 1" if inc_ok else "unrecognised", len(tests), len(cols))
    ck.ob(rule, "line-tiling", tiling, "the running line offset starts at 0, advances by line.len() + 1 per skipped line, and a line is selected by `ofs + line.len() >= err.ofs`: so `err.ofs - ofs` cannot underflow (%s)" % det, span=b.loc, fn=b.nname)
    # the message names file and line: the `<file>:<line>: ` prefix with line = index + 1 is appended on the way to every return
    pre_ok = False
    for bi in cfg.reach:
        for s_ in b.blocks[bi]["stmts"]:
            if s_["k"] == "assign" and not s_["place"]["p"] and b.local_name(s_["place"]["l"]) == "prefix":
                pass
    pushes = [(bb_, t_) for bb_, t_ in b.calls() if callee_of(t_).endswith("String::push_str")]
    for bb_, t_ in pushes:
        a_ = strip(R.arg(bb_, 1))
        # the pushed text *is* the formatted prefix (not something computed from it, like its length)
        while a_[0] == "call" and a_[1].endswith("hint::must_use") and a_[2]:
            a_ = strip(a_[2][0])
        if a_[0] == "call" and "format" in a_[1] and any(c[1].endswith("Path::display") for c in calls_in(a_)):
            # its line number argument is <enumerate index> + 1, nothing else
            adds = [y for y in walk(a_) if y[0] == "bin" and y[1] in ("Add", "Sub", "Mul")]
            line_ok = len(adds) == 1 and adds[0][1] == "Add" and adds[0][3] == ("const", 1) and any(c[1].endswith("Iterator>::next") or c[1].endswith("Enumerate<I> as std::iter::Iterator>::next") for c in calls_in(adds[0][2]))
            pre_ok = line_ok and all(cfg.dominates(bb_, r_) for r_ in cfg.returns())
    ck.ob(rule, "names-file-and-line", pre_ok, "the `<file>:<line>: ` prefix (line = 0-based index + 1, file = the path argument's display()) is appended on every path to the return", span=b.loc, fn=b.nname)
    strs = Q.body_strings(F, b)
    ck.ob(rule, "texts", any("parse error: " in s for s in strs), "the message starts with `parse error: `", span=b.loc, fn=b.nname)
    # byte-slice cuts with computed bounds
    cuts = [(bb, t) for bb, t in b.calls() if callee_of(t).startswith("core::slice::index::") and callee_of(t).endswith("::index")]
    for i, (bb, t) in enumerate(cuts):
        rng = strip(R.arg(bb, 1))
        ok = False
        why = show(rng, 2)
        if rng[0] == "agg" and rng[2] == "std::ops::RangeFrom":
            lo = strip(rng[4][0])
            # col - k under col > m with m >= k
            if lo[0] == "bin" and lo[1] == "Sub" and lo[3][0] == "const":
                k = lo[3][1]
                def pred(e, lo=lo, k=k):
                    e = strip(e)
                    # col > m with m >= k - 1, or col >= m with m >= k: either way col - k cannot underflow
                    return e[0] == "bin" and e[1] in ("Gt", "Ge") and strip(e[2]) == strip(lo[2]) and e[3][0] == "const" and e[3][1] + (1 if e[1] == "Gt" else 0) >= k
                g = C.bool_gate_edges(ctx, b, pred)
                ok = Q.gated(cfg, bb, g)[0]
                why = "start = col - %d under col > bound (gates %s); col <= line.len() by the line-selection test" % (k, sorted(g))
        elif rng[0] == "agg" and rng[2] == "std::ops::Range":
            lo, hi = strip(rng[4][0]), strip(rng[4][1])
            if lo == ("const", 0) and hi[0] == "const":
                def pred(e, hi=hi):
                    e = strip(e)
                    # len > m with m >= hi - 1, or len >= m with m >= hi
                    return e[0] == "bin" and e[1] in ("Gt", "Ge") and e[3][0] == "const" and e[3][1] + (1 if e[1] == "Gt" else 0) >= hi[1] and strip(e[2])[0] == "call" and strip(e[2])[1].endswith("slice::len")
                g = C.bool_gate_edges(ctx, b, pred)
                ok = Q.gated(cfg, bb, g)[0]
                why = "0..%d under len > %d (gates %s)" % (hi[1], hi[1], sorted(g))
        ck.ob(rule, "excerpt-cut#%d" % i, ok, "byte-slice cut in format_parse_error: %s" % why, span=t["loc"], fn=b.nname)
    # the column subtraction is dominated by the line-selection test `ofs + line.len() >= err.ofs`
    def pred_sel(e):
        e = strip(e)
        return e[0] == "bin" and e[1] == "Ge" and strip(e[2])[0] == "bin" and strip(e[2])[1] == "Add" and field_chain(strip(e[3]))[1][-1:] == ["ofs"]
    g = C.bool_gate_edges(ctx, b, pred_sel)
    subs = [(bi, s) for bi in cfg.reach for si, s in enumerate(b.blocks[bi]["stmts"]) if s["k"] == "assign" and s["rv"]["k"] == "bin" and s["rv"]["op"] == "SubWithOverflow" and field_chain(strip(R.operand(s["rv"]["a"], (bi, si))))[1][-1:] == ["ofs"]]
    ck.ob(rule, "column-in-line", bool(g) and bool(subs) and all(Q.gated(cfg, bi, g)[0] for bi, s in subs), "col = err.ofs - line_start is computed only for the line selected by `line_start + line.len() >= err.ofs`", span=b.loc, fn=b.nname)


def no_explicit_panic(ck, ctx, root, rule, scope_prefixes):
    """explicit panic terminators reachable from `root` through crate functions whose name starts with scope_prefixes"""
    F = ctx.F
    seen, order = set(), [root]
    found = []
    while order:
        fn = order.pop()
        if fn in seen:
            continue
        seen.add(fn)
        b = F.body(fn)
        if b is None:
            continue
        cfg = ctx.cfg(b)
        k = 0
        for bb, t in b.calls():
            if bb not in cfg.reach:
                continue
            c = callee_of(t)
            if t["target"] < 0 and (c.startswith("std::rt::panic") or c.startswith("core::panicking") or c.startswith("std::rt::begin_panic")):
                strs = [s for s in Q.const_strings(b)]
                msg = ""
                for pb, pt in b.calls():
                    if pt["target"] == bb and pt["args"] and pt["args"][0]["k"] == "const":
                        msg = pt["args"][0]["repr"]
                found.append((fn, "panic#%d" % k, msg, t["loc"] if "rustlib" not in t["loc"] else b.loc))
                k += 1
            elif c in ("std::option::Option::unwrap", "std::option::Option::expect", "std::result::Result::unwrap", "std::result::Result::expect"):
                found.append((fn, "%s#%d" % (c.split("::")[-1], k), "", t["loc"]))
                k += 1
            elif any(c.startswith(p) for p in scope_prefixes) and F.body(c) is not None:
                order.append(c)
            # closures passed as arguments
            for a in t["args"]:
                pass
    return found, sorted(seen)
