"""C08 — log records follow steps by output name across manifest edits (structural clauses)."""
from . import common as C
from . import dblog as DB
from . import dirty as D

EXPLANATION = (
    "Static conformance of the record codec and of record attribution on rustc MIR of the current tree: (codec) the call sequence of write_build over "
    "{u16,id,u64} and of the reader (record dispatch + read_build) form the same regular pattern `u16 (id)* u16 (id)* u64`, path records are `u16 bytes` on "
    "both sides, primitive widths agree (2/2, 3/3 with a zero-initialised 4-byte decode buffer, 8/8), ids are u24 on both sides, the tag bit is the one "
    "constant 0x8000 in the build mark, the path length guard and the reader mask, and the reader dispatches tag-clear to read_path(len) and tag-set to "
    "read_build(len & !mask); (prefix-agrees) each count written before an id loop is .len() of the slice that loop iterates, the loops have no early exit, "
    "the fields are outs() then discovered_ins() then the hash parameter, and each reader loop runs 0..n for the count just read; (narrowing) every narrowing "
    "integer cast in the writers must be dominated by a bound that makes it lossless, and write_id must reach write_u24 only for id < 2^24; (attribution) "
    "read_build applies hash and deps only when its unique-producer accumulator is Some, always both together, to that build; an output without a producer "
    "or with a different producer forces the accumulator to None, rejection is sticky, and records are parsed through even when unusable; (hash-types) the "
    "hash sees names, mtimes and text only. Decides these clauses, not value-level round trips over manifest edit sequences."
)
ASSUMPTIONS = ["value-level round trip and behaviour across arbitrary manifest edit sequences are not decided"]
THOROUGH_CONFIGS = ["nodefault"]


def run(ck, ctx):
    DB.codec(ck, ctx)
    DB.prefix_agrees(ck, ctx)
    DB.narrowing(ck, ctx)
    DB.attribution(ck, ctx)
    D.hash_types(ck, ctx)
    D.hashes_frozen(ck, ctx)


def run_config(ck, ctx):
    run(ck, ctx)
