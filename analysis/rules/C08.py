"""C08 — log records follow steps by output name across manifest edits (structural clauses)."""
from . import common as C
from . import dblog as DB
from . import dirty as D

EXPLANATION = (
    "Static conformance of the record codec and of record attribution on rustc MIR of the current tree: (loaded-as-recorded) Build.discovered_ins has one "
    "whole-value writer that stores its argument unchanged (no sort / dedup / merge), read_build builds the loaded list by pushing each id it reads, once, in "
    "order, and the writer emits the stored list in order; (codec) the call sequence of write_build over "
    "{u16,id,u64} and of the reader (record dispatch + read_build) form the same regular pattern `u16 (id)* u16 (id)* u64`, path records are `u16 bytes` on "
    "both sides, primitive widths agree (2/2, 3/3 with a zero-initialised 4-byte decode buffer, 8/8), ids are u24 on both sides, the tag bit is the one "
    "constant 0x8000 in the build mark, the path length guard and the reader mask, and the reader dispatches tag-clear to read_path(len) and tag-set to "
    "read_build(len & !mask); (prefix-agrees) each count written before an id loop is .len() of the slice that loop iterates, the loops have no early exit, "
    "the fields are outs() then discovered_ins() then the hash parameter, and each reader loop runs 0..n for the count just read; (narrowing) every narrowing "
    "integer cast in the writers must be dominated by a bound that makes it lossless, and write_id must reach write_u24 only for id < 2^24; (attribution) "
    "read_build applies hash and deps only when its unique-producer accumulator is Some, always both together, to that build; an output without a producer "
    "or with a different producer forces the accumulator to None, rejection is sticky, and records are parsed through even when unusable; (hash-types) the "
    "hash sees names, mtimes and text only. Decides these clauses, not value-level round trips over manifest edit sequences."
)
ASSUMPTIONS = ["value-level round trip and behaviour across arbitrary manifest edit sequences are not decided"]
THOROUGH_CONFIGS = ["nodefault"]


def loaded_as_recorded(ck, ctx):
    """the dependency list attached on load is, element for element and in order, the list of ids read from the record"""
    from n2sa import query as Q
    from n2sa.expr import strip, calls_in, field_chain
    from n2sa.facts import callee_of
    from . import C09 as R09
    F = ctx.F
    R09.single_writer(ck, ctx)
    b = ck.need("fn " + DB.RB, F.body(DB.RB))
    R = ctx.res(b)
    cfg = ctx.cfg(b)
    sdi = Q.sites_in(b, "graph::Build::set_discovered_ins")
    for bb, t in sdi:
        e = strip(R.arg(bb, 1))
        ok = e[0] == "call" and e[1].endswith("Vec::new")
        # every Vec method applied to that vector in read_build is `push`
        meths = sorted({callee_of(tt).split("::")[-1] for x, tt in b.calls() if callee_of(tt).startswith("std::vec::Vec::") or callee_of(tt).startswith("core::slice::") if tt["args"] and any(c == e for c in calls_in(R.arg(x, 0)))} - {"new"})
        ck.ob("loaded-as-recorded", "read_build|list-built-by-push-only", ok and meths == ["push"], "the loaded list is a fresh Vec filled only by push (methods applied: %s)" % meths, span=t["loc"], fn=b.nname)
    pushes = [(bb, t) for bb, t in b.calls() if callee_of(t).endswith("Vec::push")]
    for i, (bb, t) in enumerate(pushes):
        v = strip(R.arg(bb, 1))
        ok = any(c[1].endswith("Index<K>>::index") and field_chain(strip(c[2][0]))[1][-1:] == ["fileids"] and any(cc[1] == "db::Reader::read_id" for cc in calls_in(c[2][1])) for c in calls_in(v)) or (v[0] == "call" and v[1].endswith("Index<K>>::index"))
        hdr = cfg.enclosing_loop_header(bb)
        rid = [x for x, tt in b.calls() if callee_of(tt) == "db::Reader::read_id" and cfg.enclosing_loop_header(x) == hdr]
        ck.ob("loaded-as-recorded", "read_build|push#%d" % i, ok and len(rid) == 1 and cfg.dominates(rid[0], bb), "each id read in the dependency loop is pushed once, mapped through the id table, in reading order", span=t["loc"], fn=b.nname)
    # the writer emits discovered_ins() in its stored order (no sort / dedup between accessor and loop)
    wb = F.body(DB.WB)
    WR = ctx.res(wb)
    for bb, t in Q.sites_in(wb, "db::Writer::ensure_id"):
        e = WR.arg(bb, 2)
        whole, bad = C.iter_is_whole(e)
        ck.ob("loaded-as-recorded", "write_build|order#%d" % bb, whole and not any(c[1].endswith(("sort", "sort_unstable", "dedup", "rev")) for c in calls_in(e)), "ids are written in the stored order of the list (%s)" % bad, span=t["loc"], fn=wb.nname)


def run(ck, ctx):
    C.adapter_census(ck, ctx, "codec", ("db::", "graph::"))
    loaded_as_recorded(ck, ctx)
    DB.codec(ck, ctx)
    DB.prefix_agrees(ck, ctx)
    DB.narrowing(ck, ctx)
    DB.attribution(ck, ctx)
    D.hash_types(ck, ctx)
    D.hashes_frozen(ck, ctx)


def run_config(ck, ctx):
    run(ck, ctx)
