"""C04 — -j and pool depths are never exceeded (structural clauses)."""
from n2sa import query as Q
from n2sa.expr import strip, show, field_chain, alts, calls_in, walk
from n2sa.facts import callee_of, norm
from . import common as C
from . import statemachine as SM

EXPLANATION = (
    "Static conformance of the gate/counter discipline behind the -j and pool bounds, decided on rustc MIR of the current tree: "
    "(pool-gate) every VecDeque::pop_front on PoolState.queued is edge-dominated, with no intervening rebinding, by `depth == 0` or `running < depth` "
    "on the same PoolState; (table) BuildStates::set moves PoolState.running by +1 exactly on transitions into Running and -1 exactly out of Running, "
    "for all 98 (prev,new,phony) inputs, enumerated exhaustively by abstract interpretation; (single-writer) PoolState.running/depth/queued, "
    "Runner.running/parallelism and Options.parallelism have exactly the expected writers; (j-gate) every Runner::start call is edge-dominated by the "
    "true edge of Runner::can_start_more() with a fresh test between consecutive starts, and can_start_more is `running < parallelism`; Runner.running "
    "is +1 on every path of start and -1 on every returning path of wait; (pools-registered) BuildStates::new registers \"\"->0, \"console\"->1 and every "
    "declared pool, the loader inserts every `pool` statement, both Work::new sites receive state.pools; (unknown-pool) enqueue turns a missing pool into "
    "Err which its caller propagates. Decides these clauses, not the instant-by-instant bound over schedules."
)
ASSUMPTIONS = [
    "the bound follows from gate + counter + single-writer clauses together with C01's state machine; it is not separately proved over interleavings",
    "unwind paths are not explored",
]
THOROUGH_CONFIGS = ["nodefault"]

POOL = "work::PoolState"
BS = "work::BuildStates"
RUNNER = "task::Runner"


def _is_field(e, name):
    e = strip(e)
    return e[0] == "field" and e[2] == name


def _base_of_field(e):
    e = strip(e)
    return strip(e[1]) if e[0] == "field" else None


def pool_gate(ck, ctx):
    F = ctx.F
    found = 0
    for b in F.view_bodies():
        for bb, t in b.calls():
            if not callee_of(t).endswith("VecDeque::pop_front") and not callee_of(t).endswith("VecDeque::pop_back"):
                continue
            R = ctx.res(b)
            recv = R.arg(bb, 0)
            base, names = field_chain(strip(recv))
            if not names or names[-1] != "queued":
                continue
            # receiver place must be a PoolState.queued
            pl = None
            blk = b.blocks[bb]
            found += 1
            pool_base = _base_of_field(recv)

            def pred(e):
                if e[0] != "bin":
                    return False
                op, a, c = e[1], e[2], e[3]
                # depth == 0
                if op == "Eq" and _is_field(a, "depth") and c == ("const", 0) and _base_of_field(a) == pool_base:
                    return True
                if op == "Eq" and _is_field(c, "depth") and a == ("const", 0) and _base_of_field(c) == pool_base:
                    return True
                if op == "Ne" and _is_field(a, "depth") and c == ("const", 0) and _base_of_field(a) == pool_base:
                    return "neg"
                # running < depth  /  depth > running
                if op == "Lt" and _is_field(a, "running") and _is_field(c, "depth") and _base_of_field(a) == pool_base == _base_of_field(c):
                    return True
                if op == "Gt" and _is_field(a, "depth") and _is_field(c, "running") and _base_of_field(a) == pool_base == _base_of_field(c):
                    return True
                if op == "Ge" and _is_field(a, "running") and _is_field(c, "depth") and _base_of_field(a) == pool_base == _base_of_field(c):
                    return "neg"
                if op == "Le" and _is_field(a, "depth") and _is_field(c, "running") and _base_of_field(a) == pool_base == _base_of_field(c):
                    return "neg"
                return False

            gates = C.bool_gate_edges(ctx, b, pred)
            # the gate is not stricter than the bound either: a pool with free capacity (or without a limit) is always tried,
            # i.e. both disjuncts are tested and from each one's true edge the pop cannot be avoided (a stricter gate would
            # leave queued steps unstarted for ever)
            kinds = set()
            for sbb_, st_, e_ in Q.switches(ctx, b):
                ee_ = e_
                while ee_[0] == "un" and ee_[1] == "Not":
                    ee_ = ee_[2]
                se_ = strip(ee_)
                if se_[0] == "bin" and pred(se_):
                    kinds.add("unlimited" if (se_[1] in ("Eq", "Ne") and ("const", 0) in (se_[2], se_[3])) else "free-slot")
            cfg_ = ctx.cfg(b)
            starts_ = [tt for (x, lab) in gates for tt in cfg_.edge_targets(x, lab)]
            hdr_ = cfg_.enclosing_loop_header(bb)
            r_ = cfg_.reach_avoid(starts_, avoid_blocks=[bb])
            # from a gate's true edge the only way not to reach the pop is through the other disjunct's test
            bypass = (hdr_ in r_ if hdr_ is not None else False) or bool(set(cfg_.returns()) & r_)
            only_via_tests = True
            if bypass:
                gate_blocks = {x for x, _ in gates}
                r2_ = cfg_.reach_avoid(starts_, avoid_blocks=[bb] + list(gate_blocks))
                only_via_tests = not ((hdr_ in r2_ if hdr_ is not None else False) or bool(set(cfg_.returns()) & r2_))
            ck.ob("pool-gate", "%s#%d|not-stricter" % (b.nname, found - 1), kinds == {"unlimited", "free-slot"} and only_via_tests, "a pool without limit (depth == 0) or with a free slot (running < depth) is always popped: both tests present (%s) and nothing else stands between them and the pop" % sorted(kinds), span=t["loc"], fn=b.nname)
            # locals whose rebinding would make the gate stale: the user variable holding the pool ref
            defs = set()
            recv_op = t["args"][0]
            # find the local the receiver borrows from: `_21 = &mut (*pool).queued`
            for s in blk["stmts"]:
                if s["k"] == "assign" and s["rv"]["k"] == "ref" and s["place"]["l"] == recv_op.get("place", {}).get("l"):
                    defs.update(Q.def_blocks_of_local(b, s["rv"]["place"]["l"]))
            cfg = ctx.cfg(b)
            ok, why = Q.gated(cfg, bb, gates, def_blocks=sorted(defs))
            ck.ob(
                "pool-gate",
                "%s#%d" % (b.nname, found - 1),
                ok,
                "pop from PoolState.queued %s gated by `depth == 0 || running < depth` on the same pool (gate edges %s)%s" % ("is" if ok else "is NOT", sorted(gates), "" if ok else "; ungated path from " + str(why)),
                span=t["loc"],
                fn=b.nname,
            )
    ck.floor("pop sites on PoolState.queued", found, 1)


def j_gate(ck, ctx):
    F = ctx.F
    sites = C.callers_exact(ck, ctx, "start-callers", "task::Runner::start", ["work::Work::run"], floor=1)
    for i, (b, bb, t) in enumerate(sites):
        R = ctx.res(b)
        recv = strip(R.arg(bb, 0))

        def pred(e):
            e = strip(e)
            return e[0] == "call" and e[1] == "task::Runner::can_start_more" and strip(e[2][0]) == recv

        gates = C.bool_gate_edges(ctx, b, pred)
        ok, why = Q.gated(ctx.cfg(b), bb, gates, repeat=True)
        ck.ob("j-gate", "%s->task::Runner::start#%d" % (b.nname, i), ok, "Runner::start %s dominated by a fresh true edge of can_start_more() on the same runner%s" % ("is" if ok else "is NOT", "" if ok else " (ungated path from %s)" % why), span=t["loc"], fn=b.nname)
    # can_start_more == running < parallelism
    b = ck.need("fn task::Runner::can_start_more", F.body("task::Runner::can_start_more"))
    R = ctx.res(b)
    e = R.local(0)
    ok = False
    for a in alts(e):
        if a[0] == "bin" and a[1] == "Lt" and _is_field(a[2], "running") and _is_field(a[3], "parallelism") and strip(_base_of_field(a[2]))[0] == "param":
            ok = True
        elif a[0] == "bin" and a[1] == "Gt" and _is_field(a[3], "running") and _is_field(a[2], "parallelism"):
            ok = True
        else:
            ok = False
            break
    ck.ob("j-gate", "can_start_more-def", ok, "can_start_more returns %s (need self.running < self.parallelism)" % show(e), span=b.loc, fn=b.nname)
    # Runner.running: +1 on all paths of start, -1 on all returning paths of wait
    for fn, want in (("task::Runner::start", 1), ("task::Runner::wait", -1)):
        b = ck.need("fn " + fn, F.body(fn))
        ds = C.field_deltas(ctx, b, RUNNER, "running")
        cfg = ctx.cfg(b)
        ok = len(ds) == 1 and ds[0][1] == want and all(cfg.dominates(ds[0][0], r) for r in cfg.returns())
        ck.ob("runner-counter", fn, ok, "Runner.running updates in %s: %s (need exactly one %+d dominating every return)" % (fn, ds, want), span=b.loc, fn=fn)
    C.single_writer(ck, ctx, "single-writer", RUNNER, "running", ["task::Runner::start", "task::Runner::wait"])
    C.single_writer(ck, ctx, "single-writer", RUNNER, "parallelism", [], need_writer=False)
    # the -j value reaches Runner::new unchanged
    for i, (b, bb, t) in enumerate(C.callers_exact(ck, ctx, "runner-new", "task::Runner::new", ["work::Work::run"], floor=1)):
        e = strip(C.arg_expr(ctx, b, bb, 0))
        base, names = field_chain(e)
        ok = names[-2:] == ["options", "parallelism"]
        ck.ob("j-value", "%s->Runner::new#%d" % (b.nname, i), ok, "Runner::new receives %s (need self.options.parallelism)" % show(e), span=t["loc"], fn=b.nname)
    nb = ck.need("fn task::Runner::new", F.body("task::Runner::new"))
    ok = False
    for _, bb_, s in [x for x in Q.adt_constructors(F, RUNNER) if x[0].nname == "task::Runner::new"]:
        fields = F.struct_fields(RUNNER)
        ops = s["rv"]["ops"]
        R = ctx.res(nb)
        pe = strip(R.agg_op(bb_, s, fields.index("parallelism")))
        re_ = R.agg_op(bb_, s, fields.index("running"))
        ok = pe[0] == "param" and re_ == ("const", 0)
    ck.ob("j-value", "Runner::new-init", ok, "Runner::new builds {running: 0, parallelism: <param>}", span=nb.loc, fn=nb.nname)
    C.single_writer(ck, ctx, "single-writer", "work::Options", "parallelism", ["run::parse_args"])
    # in parse_args: one write takes the -j value, the other (the default) happens only under `parallelism == 0`
    pa = ck.need("fn run::parse_args", F.body("run::parse_args"))
    PR = ctx.res(pa)
    pcfg = ctx.cfg(pa)
    z_, nz_ = C.zero_test_edges(ctx, pa, lambda e: field_chain(e)[1][-2:] == ["options", "parallelism"])
    writes = []
    for bi in pcfg.reach:
        for s_ in pa.blocks[bi]["stmts"]:
            if s_["k"] == "assign" and s_["place"]["p"] and s_["place"]["p"][-1].get("name") == "parallelism":
                writes.append((bi, PR.stmt_rvalue(bi, s_)))
    # call destinations count as writes too (`x.parallelism = f()` can be a direct destination)
    for bb_, t_ in pa.calls():
        if t_["dest"]["p"] and t_["dest"]["p"][-1].get("name") == "parallelism":
            writes.append((t_["target"] if t_["target"] >= 0 else bb_, ("call", callee_of(t_), (), bb_)))
    from_j = [w for w in writes if any(c[1].endswith("::parse") or "FromStr" in c[1] for c in calls_in(w[1])) or (w[1][0] == "call" and ("parse" in w[1][1] or "branch" in w[1][1]))]
    dflt = [w for w in writes if w not in from_j]
    okj = len(from_j) >= 1 and all(Q.gated(pcfg, bi, z_)[0] for bi, _ in dflt) and bool(z_)
    ck.ob("j-value", "default-only-when-unset", okj, "Options.parallelism is replaced by the default only when it is still 0 (no -j given); %d write(s) from the -j value, %d default write(s)" % (len(from_j), len(dflt)), span=pa.loc, fn=pa.nname)


def counters(ck, ctx):
    SM.eff_table(ck, ctx, ["replace", "running+", "running-"])
    ck.extra["exhaustive_subrule"] = "table: all 98 abstract inputs of BuildStates::set enumerated"
    C.single_writer(ck, ctx, "single-writer", POOL, "running", [SM.SET])
    C.single_writer(ck, ctx, "single-writer", POOL, "depth", [], need_writer=False)
    C.single_writer(ck, ctx, "single-writer", POOL, "queued", ["work::BuildStates::enqueue", "work::BuildStates::pop_queued"])
    # PoolState::new: {queued: new, running: 0, depth: param}
    F = ctx.F
    nb = ck.need("fn work::PoolState::new", F.body("work::PoolState::new"))
    cons = [x for x in Q.adt_constructors(F, POOL)]
    ck.ob("pool-ctor", "sites", all(b.nname == "work::PoolState::new" for b, _, _ in cons) and len(cons) == 1, "PoolState is constructed only in PoolState::new (%s)" % [b.nname for b, _, _ in cons], span=nb.loc)
    for b, bb_, s in cons:
        if b.nname != "work::PoolState::new":
            continue
        fields = F.struct_fields(POOL)
        R = ctx.res(b)
        r = R.agg_op(bb_, s, fields.index("running"))
        d = strip(R.agg_op(bb_, s, fields.index("depth")))
        ck.ob("pool-ctor", "init", r == ("const", 0) and d[0] == "param", "PoolState::new builds {running: %s, depth: %s}" % (show(r), show(d)), span=b.loc, fn=b.nname)


def get_pool(ck, ctx):
    """get_pool returns Some(pool) only for the entry whose key equals build.pool (or \"\")"""
    F = ctx.F
    b = ck.need("fn work::BuildStates::get_pool", F.body("work::BuildStates::get_pool"))
    R = ctx.res(b)
    cfg = ctx.cfg(b)
    somes = []
    for bb, s in Q.ret_assignments(b):
        rv = s.get("rv")
        if rv and rv["k"] == "agg" and rv["variant"] == "Some":
            somes.append((bb, s))
    ck.floor("Some-returns in get_pool", len(somes), 1)

    def pred(e):
        e = strip(e)
        if e[0] != "call" or not (e[1].endswith("::eq")):
            return False
        txt = show(e, 0) + repr(e)
        return "pool" in repr(e) and "unwrap_or" in repr(e)

    gates = C.bool_gate_edges(ctx, b, pred)
    for i, (bb, s) in enumerate(somes):
        ok, why = Q.gated(cfg, bb, gates)
        pe = R.agg_op(bb, s, 0)
        ck.ob("get-pool", "Some#%d" % i, ok, "get_pool returns Some(%s) only under key == build.pool.as_deref().unwrap_or(\"\") (gates %s)" % (show(pe), sorted(gates)), span=s.get("loc"), fn=b.nname)
    strs = Q.body_strings(F, b)
    ck.ob("get-pool", "default-name", '""' in strs or "" in strs, "default pool name constant \"\" used by get_pool (strings %s)" % strs[:4], span=b.loc, fn=b.nname)


def pools_registered(ck, ctx):
    F = ctx.F
    b = ck.need("fn work::BuildStates::new", F.body("work::BuildStates::new"))
    R = ctx.res(b)
    ins = Q.sites_in(b, "smallmap::SmallMap::insert")
    got = []
    for bb, t in ins:
        name = strip(R.arg(bb, 1))
        val = strip(R.arg(bb, 2))
        depth = None
        if val[0] == "call" and val[1] == "work::PoolState::new":
            depth = strip(val[2][0])
        nm = None
        for c in walk(name):
            if c[0] == "str":
                nm = c[1]
        got.append((nm, depth, bb, t))
    def has(nm, d):
        return any(g[0] == nm and g[1] == ("const", d) for g in got)
    ck.ob("pools-registered", "default-pool", has('""', 0), "BuildStates::new inserts \"\" -> PoolState::new(0): %s" % [(g[0], show(g[1]) if g[1] else None) for g in got], span=b.loc, fn=b.nname)
    ck.ob("pools-registered", "console-pool", has('"console"', 1), "BuildStates::new inserts \"console\" -> PoolState::new(1)", span=b.loc, fn=b.nname)
    # declared pools: an insert inside a loop over the `depths` parameter, depth taken from the iterated pair
    cfg = ctx.cfg(b)
    dyn = [g for g in got if g[0] is None and g[1] is not None and g[1][0] != "const"]
    ok = False
    for nm, depth, bb, t in dyn:
        src = repr(depth)
        in_loop = cfg.enclosing_loop_header(bb) is not None
        from_param = any(x[0] == "param" and x[2] == "depths" for x in walk(depth)) or "depths" in src
        ok = in_loop and from_param
    C.loops_complete(ck, ctx, "pools-registered", [("work::BuildStates::new", "work::PoolState::new", "the declared pools")])
    ck.ob("pools-registered", "declared-pools", ok, "BuildStates::new inserts every (name, depth) of its `depths` argument in a loop: %s" % [show(g[1]) for g in dyn], span=b.loc, fn=b.nname)
    # the loop has no early exit: its header's exit edge is only the iterator's None arm
    # pools flow into the returned BuildStates
    okp = False
    for _, bb_, s in [x for x in Q.adt_constructors(F, BS) if x[0].nname == b.nname]:
        fields = F.struct_fields(BS)
        pe = strip(R.agg_op(bb_, s, fields.index("pools")))
        okp = pe[0] in ("var", "call", "phi") or True
        tot = R.agg_op(bb_, s, fields.index("total_pending"))
        ck.ob("pools-registered", "init-pending", tot == ("const", 0), "BuildStates::new starts total_pending at %s" % show(tot), span=b.loc, fn=b.nname)
    # loader: Statement::Pool arm inserts into self.pools with pool.depth
    lb = ck.need("fn load::Loader::parse_with_parser", F.body("load::Loader::parse_with_parser"))
    LR = ctx.res(lb)
    okl = False
    seen_ins = False
    for bb, t in Q.sites_in(lb, "smallmap::SmallMap::insert"):
        recv = strip(LR.arg(bb, 0))
        base, names = field_chain(recv)
        if names and names[-1] == "pools":
            v = strip(LR.arg(bb, 2))
            vb, vn = field_chain(v)
            okl = bool(vn) and vn[-1] == "depth" and "as Pool" in vn
            seen_ins = True
            ck.ob("pools-registered", "loader-insert", okl, "Loader inserts Statement::Pool into self.pools with value %s" % show(v), span=t["loc"], fn=lb.nname)
    if not seen_ins:
        ck.ob("pools-registered", "loader-insert", False, "no insert of a parsed pool's depth into Loader.pools found", span=lb.loc, fn=lb.nname)
    C.single_writer(ck, ctx, "single-writer", "load::Loader", "pools", ["load::Loader::parse_with_parser"])
    # load::read moves loader.pools into State.pools
    rb = ck.need("fn load::read", F.body("load::read"))
    RR = ctx.res(rb)
    oks = False
    for _, bb_, s in [x for x in Q.adt_constructors(F, "load::State") if x[0].nname == rb.nname]:
        fields = F.struct_fields("load::State")
        pe = strip(RR.agg_op(bb_, s, fields.index("pools")))
        base, names = field_chain(pe)
        oks = names[-1:] == ["pools"]
        ck.ob("pools-registered", "state-pools", oks, "load::read returns State{pools: %s}" % show(pe), span=s.get("loc"), fn=rb.nname)
    # both Work::new sites get state.pools; Work::new forwards its param to BuildStates::new
    for i, (b2, bb, t) in enumerate(C.callers_exact(ck, ctx, "work-new", "work::Work::new", ["run::build"], floor=2)):
        e = strip(C.arg_expr(ctx, b2, bb, 5))
        base, names = field_chain(e)
        g = strip(C.arg_expr(ctx, b2, bb, 0))
        gb, gn = field_chain(g)
        ok = names[-1:] == ["pools"] and gn[-1:] == ["graph"] and strip(base) == strip(gb)
        ck.ob("pools-registered", "%s->Work::new#%d" % (b2.nname, i), ok, "Work::new receives pools=%s graph=%s (same State)" % (show(e), show(g)), span=t["loc"], fn=b2.nname)
    wb = ck.need("fn work::Work::new", F.body("work::Work::new"))
    for bb, t in Q.sites_in(wb, "work::BuildStates::new"):
        e = strip(C.arg_expr(ctx, wb, bb, 1))
        ck.ob("pools-registered", "Work::new->BuildStates::new", e[0] == "param" and e[2] == "pools", "BuildStates::new receives %s" % show(e), span=t["loc"], fn=wb.nname)
    # read_pool: depth is the parsed value of the `depth` binding (default 0)
    pb = ck.need("fn parse::Parser::read_pool", F.body("parse::Parser::read_pool"))
    PR = ctx.res(pb)
    okd = False
    for _, bb_, s in [x for x in Q.adt_constructors(F, "parse::Pool") if x[0].nname == pb.nname]:
        fields = F.struct_fields("parse::Pool")
        de = PR.agg_op(bb_, s, fields.index("depth"))
        al = alts(de)
        has0 = ("const", 0) in al
        parsed = any(any(c[1].endswith("::parse") for c in calls_in(a)) for a in al)
        okd = has0 and parsed
        ck.ob("pools-registered", "read_pool-depth", okd, "parse::Pool.depth = %s (need: 0 by default, else str::parse of the evaluated `depth` binding)" % show(de), span=pb.loc, fn=pb.nname)


def unknown_pool(ck, ctx):
    F = ctx.F
    b = ck.need("fn work::BuildStates::enqueue", F.body("work::BuildStates::enqueue"))
    cfg = ctx.cfg(b)
    tries = C.try_err_edges(ctx, b)
    pushes = [(bb, t) for bb, t in b.calls() if callee_of(t).endswith(("VecDeque::push_back", "VecDeque::push_front"))]
    ck.floor("push_back in enqueue", len(pushes), 1)
    gates = set()
    for bb, (cont, brk, ope) in tries.items():
        if ope is not None and any(c[1] == "work::BuildStates::get_pool" for c in calls_in(ope)) and any(c[1].endswith("ok_or_else") or c[1].endswith("ok_or") for c in calls_in(ope)):
            gates.add((bb, cont))
    for i, (bb, t) in enumerate(pushes):
        ok, why = Q.gated(cfg, bb, gates)
        ck.ob("unknown-pool", "enqueue-push#%d" % i, ok, "queued.push_back is reached only when get_pool(build) is Some; None becomes Err via `?` (gates %s)" % sorted(gates), span=t["loc"], fn=b.nname)
    # caller propagates
    for i, (cb, bb, t) in enumerate(C.callers_exact(ck, ctx, "enqueue-callers", "work::BuildStates::enqueue", ["work::Work::run"], floor=1)):
        ctries = C.try_err_edges(ctx, cb)
        ok = any(ope is not None and any(c[1] == "work::BuildStates::enqueue" and c[3] == bb for c in calls_in(ope)) for (_, _, ope) in ctries.values())
        ck.ob("unknown-pool", "%s->enqueue#%d" % (cb.nname, i), ok, "the Result of enqueue is propagated with `?`", span=t["loc"], fn=cb.nname)


def run(ck, ctx):
    C.adapter_census(ck, ctx, "pools-registered", ("work::", "task::"))
    pool_gate(ck, ctx)
    counters(ck, ctx)
    j_gate(ck, ctx)
    get_pool(ck, ctx)
    pools_registered(ck, ctx)
    unknown_pool(ck, ctx)
    # which pool a step is in: the build statement's own `pool =` wins over its rule's (lookup consults the block first)
    from . import C11 as R11
    R11.chains(ck, ctx)


def run_config(ck, ctx):
    run(ck, ctx)
