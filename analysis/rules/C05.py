"""C05 — failures contained, budgeted by -k, reflected in the exit status (structural clauses)."""
from . import common as C
from . import runloop as RL
from . import C01 as R01

EXPLANATION = (
    "Static conformance, on rustc MIR of the current tree, of the failure discipline: (success-only) in Work::run only the Success arm of the completion "
    "switch reaches record_finished / ready_dependents, Failure and Interrupted never do; (ctor) process::Termination::Success is constructed only under "
    "ExitStatus::success() in the posix runner and in the adopt literal gated by options.adopt, Interrupted only under signal == SIGINT, the spawn-error "
    "fallback is Failure, run_task forwards the termination unchanged; (budget) every Failure completion reaches the failures_left test, a Some budget is "
    "decremented once and `== 0` returns Ok(false) with no call and no further iteration; Interrupted returns at once; (final) Work::run's normal result is "
    "tasks_failed == 0 && !was_interrupted() and every continuing Failure increments the counter; (exit) both Work::run sites in run::build turn `false` into "
    "an immediate Ok(None), run_impl maps None to a non-zero code, every Err reaches main's `n2: error: ` arm with code 1, and main exits with every "
    "non-zero code; (failed-stays-failed) no transition leaves Failed (C01.sites relation); (table) BuildStates::set releases the pool slot exactly when "
    "a step leaves Running (also into Failed) and the pending count exactly on Done/Failed, for all 98 inputs, so a failure cannot starve unrelated steps. "
    "Decides these clauses, not the liveness clause "
    "(`every wanted step not downstream of a failure is still brought up to date`)."
)
ASSUMPTIONS = ["liveness under partial failure is not decided", "unwind paths are not explored", "cfg(windows) process runner is not analysed (Linux configuration)"]
THOROUGH_CONFIGS = ["nodefault"]


def run(ck, ctx):
    C.adapter_census(ck, ctx, "budget", ("work::", "task::", "process_posix::"))
    # a failed command must give back its pool slot and its pending count, or steps that are not
    # downstream of the failure can never run
    from . import statemachine as SM
    SM.eff_table(ck, ctx, ["running+", "running-", "pending+", "pending-"])
    ck.extra["exhaustive_subrule"] = "table: all 98 abstract inputs of BuildStates::set enumerated"
    R01.success_only(ck, ctx)
    RL.termination_ctors(ck, ctx, "ctor")
    # a command that could not even be spawned is a failure of *that* step: posix_spawn's result goes through the checker for its
    # error convention (non-zero), so that waitpid is never called with pid 0 (which would reap a sibling's child and swap verdicts)
    from . import C16 as R16
    R16.recipe(ck, ctx)
    R16.read_then_wait(ck, ctx)
    RL.budget(ck, ctx, "budget")
    RL.final_value(ck, ctx, "final")
    RL.run_false_stops(ck, ctx, "exit")
    RL.exit_status(ck, ctx, "exit")
    # "non-zero whenever a command failed": after a failure with nothing left to run, Work::run reaches its epilogue (and so the exit
    # status) instead of spinning or hitting the internal-error panic
    from . import C06 as R06
    R06.loop_shape(ck, ctx)
    # Failed is terminal: the site relation has no edge out of Failed / Done
    R01.sites(ck, ctx)
    rel = ck.extra.get("transition_relation", [])
    ck.ob("failed-terminal", "no-exit-from-Failed", not any(p in ("Failed", "Done") for p, n in rel), "no set() site has pre-state Failed or Done (relation %s)" % rel, span="work::BuildStates::set")
    R01.ready_recheck(ck, ctx)


def run_config(ck, ctx):
    run(ck, ctx)
