"""GUARD family: operations with a precondition (str cut, usize subtraction, division) must be dominated by
predicate facts that imply it.  Small predicate domain; anything not recognised is reported."""
from n2sa import query as Q
from n2sa.expr import strip, show, field_chain, alts, calls_in, walk
from n2sa.facts import callee_of, norm
from . import common as C

CUT_CALLEES = {
    "core::str::traits::index": ("range", 1),
    "core::str::traits::index_mut": ("range", 1),
    "std::string::String::truncate": ("idx", 1),
    "<std::string::String as std::ops::Index<I>>::index": ("range", 1),
    "<std::string::String as std::ops::IndexMut<I>>::index_mut": ("range", 1),
    "core::str::split_at": ("idx", 1),
    "core::str::split_at_mut": ("idx", 1),
    "std::string::String::split_off": ("idx", 1),
    "std::string::String::insert": ("idx", 1),
    "std::string::String::insert_str": ("idx", 1),
    "std::string::String::remove": ("idx", 1),
    "std::string::String::drain": ("range", 1),
    "std::string::String::replace_range": ("range", 1),
    "core::str::get_unchecked": ("range", 1),
    "core::str::slice_unchecked": ("idx", 1),
}


def _same_string(a, b):
    """two receiver expressions denote the same string buffer (modulo deref / as_str)"""
    return strip(a) == strip(b)


def prefix_fn(ctx, name):
    """a crate function all of whose returns are its str parameter or a boundary-safe prefix cut of it"""
    F = ctx.F
    b = F.body(name)
    if b is None:
        return False
    R = ctx.res(b)
    cfg = ctx.cfg(b)
    rets = cfg.returns()
    if not rets:
        return False
    e = R.local(0, R.term_at(rets[0]))
    for a in alts(e):
        a = strip(a)
        if a[0] == "param" and b.local_ty(a[1]).replace("'_ ", "") in ("&str",):
            continue
        if a[0] == "call" and a[1] == "core::str::traits::index":
            s_ = strip(a[2][0])
            rng = strip(a[2][1])
            if s_[0] == "param" and rng[0] == "agg" and rng[2] == "std::ops::RangeTo":
                # the cut itself must be safe
                ok, _ = cut_is_safe(ctx, b, a[3])
                if ok:
                    continue
        return False
    return True


def cut_is_safe(ctx, body, bb):
    """(ok, reason) for the str cut performed by the call terminating block bb"""
    t = body.blocks[bb]["term"]
    kind, argi = CUT_CALLEES[callee_of(t)]
    R = ctx.res(body)
    cfg = ctx.cfg(body)
    recv = R.arg(bb, 0)
    idx_exprs = []
    e = strip(R.arg(bb, argi))
    if kind == "range":
        if e[0] == "agg" and e[2].startswith("std::ops::Range"):
            idx_exprs = [strip(x) for x in e[4]]
        else:
            return False, "unrecognised range %s" % show(e, 2)
    else:
        idx_exprs = [e]
    reasons = []
    for ie in idx_exprs:
        ok = False
        why = ""
        al = alts(ie)
        per_alt = []
        for a in al:
            a = strip(a)
            if a[0] == "const" and a[1] == 0:
                # offset 0 is a boundary of every string; any other constant is not (it can fall inside a multi-byte character,
                # or beyond the end)
                per_alt.append("const 0")
                continue
            # len() of the same string, or of a boundary-safe prefix of it
            if a[0] == "call" and a[1] in ("core::str::len", "std::string::String::len"):
                x = strip(a[2][0])
                if _same_string(x, recv):
                    per_alt.append("len(self)")
                    continue
                if x[0] == "call" and prefix_fn(ctx, x[1]) and _same_string(x[2][0], recv):
                    per_alt.append("len(prefix by %s)" % x[1])
                    continue
            # find()/char_indices()-derived offsets are boundaries
            if any(c[1].endswith(("str::find", "str::rfind", "CharIndices as std::iter::Iterator>::next", "str::floor_char_boundary")) for c in calls_in(a)) and not any(x[0] == "bin" for x in walk(a)):
                per_alt.append("find/char_indices")
                continue
            per_alt.append(None)
        if all(per_alt):
            reasons.append("/".join(sorted(set(per_alt))))
            continue
        # guard: is_char_boundary(recv, idx) true edge, fresh
        def pred(x):
            x = strip(x)
            return x[0] == "call" and x[1] == "core::str::is_char_boundary" and _same_string(x[2][0], recv)
        gates = C.bool_gate_edges(ctx, body, pred)
        # the index local: find the user local feeding the operand
        idx_local = _index_local(body, bb, t, argi, kind)
        defs = Q.def_blocks_of_local(body, idx_local) if idx_local is not None else []
        # the guard must test that very local
        good_gates = set()
        for (x, lab) in gates:
            d = strip(R.discr(x))
            while d[0] == "un":
                d = strip(d[2])
            if d[0] == "call" and idx_local is not None and _mentions_local(body, x, d, idx_local, ctx):
                good_gates.add((x, lab))
        g, w = Q.gated(cfg, bb, good_gates, def_blocks=[d for d in defs if d != bb])
        if good_gates and g:
            reasons.append("is_char_boundary guard")
            continue
        return False, "index %s is not 0, a len(), nor guarded by is_char_boundary on the same string" % show(ie, 2)
    return True, "; ".join(reasons)


def _index_local(body, bb, t, argi, kind):
    op = t["args"][argi]
    if op["k"] not in ("copy", "move") or op["place"]["p"]:
        return None
    l = op["place"]["l"]
    # trace through temporaries in this block to a named local
    for _ in range(6):
        if l in body.names:
            return l
        src = None
        for s in body.blocks[bb]["stmts"]:
            if s["k"] == "assign" and not s["place"]["p"] and s["place"]["l"] == l:
                rv = s["rv"]
                if rv["k"] == "use" and rv["op"]["k"] in ("copy", "move") and not rv["op"]["place"]["p"]:
                    src = rv["op"]["place"]["l"]
                elif rv["k"] == "agg" and rv["ops"]:
                    o = rv["ops"][-1]
                    if o["k"] in ("copy", "move") and not o["place"]["p"]:
                        src = o["place"]["l"]
        if src is None:
            return l
        l = src
    return l


def _mentions_local(body, bb, call_expr, local, ctx):
    """does the is_char_boundary call in block chain use `local` as its index operand"""
    cb = call_expr[3]
    t = body.blocks[cb]["term"]
    op = t["args"][1]
    if op["k"] in ("copy", "move") and not op["place"]["p"]:
        l = op["place"]["l"]
        if l == local:
            return True
        for s in body.blocks[cb]["stmts"]:
            if s["k"] == "assign" and not s["place"]["p"] and s["place"]["l"] == l and s["rv"]["k"] == "use" and s["rv"]["op"]["k"] in ("copy", "move") and not s["rv"]["op"]["place"]["p"]:
                return s["rv"]["op"]["place"]["l"] == local
    return False


def str_cuts(ck, ctx, rule, fn_filter=None):
    """obligation per str cut site in non-derive code"""
    F = ctx.F
    n = 0
    for b in F.view_bodies():
        if b.expn:
            continue
        if fn_filter and not fn_filter(b.nname):
            continue
        k = {}
        for bb, t in b.calls():
            c = callee_of(t)
            if c not in CUT_CALLEES:
                continue
            if t.get("expn"):
                continue
            i = k.get(c, 0)
            k[c] = i + 1
            n += 1
            ok, why = cut_is_safe(ctx, b, bb)
            ck.ob(rule, "%s|%s#%d" % (b.nname, c.split("::")[-1], i), ok, "str cut `%s` in %s: %s" % (c, b.nname, why), span=t["loc"], fn=b.nname)
    return n


def arith_guards(ck, ctx, rule, fns, lower_bounds=None):
    """usize Sub and Div/Rem in the given functions must be guarded"""
    F = ctx.F
    lower_bounds = lower_bounds or {}
    n = 0
    for fn in fns:
        b = F.body(fn)
        if b is None:
            continue
        cfg = ctx.cfg(b)
        R = ctx.res(b)
        ks = {"Sub": 0, "Div": 0}
        for bi in sorted(cfg.reach):
            for si, s in enumerate(b.blocks[bi]["stmts"]):
                if s["k"] != "assign" or s["rv"]["k"] != "bin":
                    continue
                op = s["rv"]["op"]
                if op in ("Sub", "SubWithOverflow"):
                    kind = "Sub"
                elif op in ("Div", "Rem"):
                    kind = "Div"
                else:
                    continue
                aty = _op_ty(b, s["rv"]["a"])
                if aty not in ("usize", "u64", "u32", "u16", "u8"):
                    continue
                n += 1
                i = ks[kind]
                ks[kind] += 1
                a = strip(R.operand(s["rv"]["a"], (bi, si)))
                c = strip(R.operand(s["rv"]["b"], (bi, si)))
                ok, why = (_sub_ok if kind == "Sub" else _div_ok)(ctx, b, bi, si, s, a, c, lower_bounds)
                ck.ob(rule, "%s|%s#%d" % (fn, kind, i), ok, "%s(%s, %s) in %s: %s" % (op, show(a, 2), show(c, 2), fn, why), span=s.get("loc"), fn=fn)
    return n


def _op_ty(body, op):
    if op["k"] in ("copy", "move"):
        return op["place"]["ty"]["s"]
    if op["k"] == "const":
        return op["ty"]["s"]
    return None


def _cmp_edges(ctx, body, pred):
    return C.bool_gate_edges(ctx, body, pred)


def nobb(e):
    """drop call-site ids so that two evaluations of the same pure call compare equal"""
    if isinstance(e, tuple):
        if e and e[0] == "call":
            return ("call", e[1], tuple(nobb(x) for x in e[2]))
        return tuple(nobb(x) for x in e)
    return e


def _sub_ok(ctx, b, bi, si, s, a, c, lower_bounds):
    cfg = ctx.cfg(b)
    a, c = nobb(a), nobb(c)
    if a[0] == "const" and c[0] == "const":
        return a[1] >= c[1], "constants"
    # dominated by a comparison a > c / a >= c (or c < a / c <= a)
    def pred(e):
        e = strip(e)
        if e[0] != "bin":
            return False
        l, r = nobb(strip(e[2])), nobb(strip(e[3]))
        if e[1] in ("Gt", "Ge") and l == a and r == c:
            return True
        if e[1] in ("Lt", "Le") and l == c and r == a:
            return True
        if e[1] in ("Lt",) and l == a and r == c:
            return "neg"
        if e[1] in ("Gt",) and l == c and r == a:
            return "neg"
        if c[0] == "const" and e[1] == "Eq" and l == a and r[0] == "const" and r[1] < c[1] and c[1] - r[1] == 1 and r[1] == 0:
            return "neg"  # a != 0  =>  a >= 1
        if c[0] == "const" and e[1] in ("Gt", "Ge") and l == a and r[0] == "const" and r[1] + (1 if e[1] == "Gt" else 0) >= c[1]:
            return True
        return False
    g = _cmp_edges(ctx, b, pred)
    lhs_local = _named_src(b, bi, s["rv"]["a"])
    # freshness is only tracked for named user variables; a temporary re-evaluating the same pure expression
    # (e.g. a second `.len()`) is taken to equal the guarded one
    defs = [d for d in (Q.def_blocks_of_local(b, lhs_local) if lhs_local is not None and lhs_local in b.names else []) if d != bi]
    if g and Q.gated(cfg, bi, g, def_blocks=defs)[0]:
        return True, "dominated by a comparison implying lhs >= rhs"
    # x - 1 under !is_char_boundary(s, x): boundary 0 always holds, so x >= 1
    if c == ("const", 1):
        def pred2(e):
            e = strip(e)
            if e[0] == "call" and e[1] == "core::str::is_char_boundary":
                return "neg"
            return False
        g2 = _cmp_edges(ctx, b, pred2)
        g2 = {(x, lab) for (x, lab) in g2 if lhs_local is not None and _mentions_local(b, x, strip(_unnot(ctx.res(b).discr(x))), lhs_local, ctx)}
        if g2 and Q.gated(cfg, bi, g2, def_blocks=defs)[0]:
            return True, "under !is_char_boundary(s, x): offset 0 is always a boundary, so x >= 1"
    # lower-bound facts (modular contracts)
    if c[0] == "const":
        for a_ in alts(a):
            lb = _lower_bound(ctx, strip(a_), lower_bounds)
            if lb is None or lb < c[1]:
                break
        else:
            return True, "lhs has lower bound >= %d by contract" % c[1]
    return False, "no fact implies lhs >= rhs (would underflow / panic)"


def _unnot(e):
    while e[0] == "un" and e[1] == "Not":
        e = e[2]
    return e


def _named_src(body, bi, op):
    if op["k"] in ("copy", "move") and not op["place"]["p"]:
        l = op["place"]["l"]
        if l in body.names:
            return l
        for s in body.blocks[bi]["stmts"]:
            if s["k"] == "assign" and not s["place"]["p"] and s["place"]["l"] == l and s["rv"]["k"] == "use" and s["rv"]["op"]["k"] in ("copy", "move") and not s["rv"]["op"]["place"]["p"]:
                return s["rv"]["op"]["place"]["l"]
        return l
    return None


def _lower_bound(ctx, e, lower_bounds):
    if e[0] == "const":
        return e[1]
    if e[0] == "call" and e[1] == "std::option::Option::unwrap_or":
        inner = strip(e[2][0])
        dflt = strip(e[2][1])
        if inner[0] == "call" and inner[1] in lower_bounds and dflt[0] == "const":
            return min(lower_bounds[inner[1]], dflt[1])
    if e[0] == "call" and e[1] in lower_bounds:
        return lower_bounds[e[1]]
    if e[0] == "param":
        return lower_bounds.get("param:" + e[2])
    return None


def _div_ok(ctx, b, bi, si, s, a, c, lower_bounds):
    cfg = ctx.cfg(b)
    a, c = nobb(a), nobb(c)
    if c[0] == "const":
        return c[1] != 0, "constant divisor"
    def pred(e):
        e = strip(e)
        if e[0] != "bin":
            return False
        l, r = nobb(strip(e[2])), nobb(strip(e[3]))
        if e[1] == "Eq" and l == c and r == ("const", 0):
            return "neg"
        if e[1] == "Ne" and l == c and r == ("const", 0):
            return True
        if e[1] == "Gt" and l == c and r[0] == "const":
            return True
        return False
    g = _cmp_edges(ctx, b, pred)
    if g and Q.gated(cfg, bi, g)[0]:
        return True, "divisor tested non-zero on every path"
    return False, "divisor not shown non-zero"
