"""Rules over Work::run / run::build / run_impl / main shared by C05, C06, C17, C18, C19."""
from n2sa import query as Q
from n2sa.expr import strip, show, field_chain, alts, calls_in, walk
from n2sa.facts import callee_of, norm
from . import common as C

RUN = "work::Work::run"
TERM = "process::Termination"


def closure_bodies_calling(F, parent_nname, callee):
    """closure bodies `parent::{closure#k}` that call `callee`"""
    out = []
    for b in F.all_bodies():
        if b.kind == "closure" and (b.nname.startswith(parent_nname + "::{closure#") or F.owner(b.nname) == parent_nname):
            if any(callee_of(t) == callee for _, t in b.calls()):
                out.append(b.nname)
    return out


def scope_sites(ctx, body, callee):
    """[(bb, term, closure_name)] trace::scope(..) calls in `body` whose closure argument calls `callee`, plus direct calls"""
    F = ctx.F
    R = ctx.res(body)
    cl = set(closure_bodies_calling(F, body.nname, callee))
    out = []
    for bb, t in body.calls():
        c = callee_of(t)
        if c == callee:
            out.append((bb, t, None))
        elif c == "trace::scope":
            e = strip(R.arg(bb, 1))
            if e[0] == "agg" and e[1] == "closure" and e[2] in cl:
                out.append((bb, t, e[2]))
    return out


def try_of_call(ctx, body, call_bb):
    """(try_bb, continue_label, break_label) of the `?` applied to the result of the call in call_bb"""
    return C.try_of(ctx, body, call_bb)


def bool_switch_on_payload(ctx, body, call_bb):
    """(switch_bb, true_label, false_label) of the branch on the Continue payload of `call?`"""
    for sbb, st, e in Q.switches(ctx, body):
        neg = False
        ee = e
        while ee[0] == "un" and ee[1] == "Not":
            ee = ee[2]
            neg = not neg
        s = strip(ee)
        if s[0] == "field" and s[2] == "0":
            d = strip(s[1])
            if d[0] == "downcast" and d[2] == "Continue" and any(c[3] == call_bb for c in calls_in(d)):
                tl, fl = Q.bool_edges(st)
                return (sbb, fl, tl) if neg else (sbb, tl, fl)
    return None


def ok_none_blocks(body):
    """blocks assigning `_0 = Ok(<None>)`-like: Ok of an Option::None aggregate built in the same block"""
    out = []
    for bi, blk in enumerate(body.blocks):
        if blk["cleanup"]:
            continue
        none_locals = set()
        for s in blk["stmts"]:
            if s["k"] != "assign":
                continue
            rv = s["rv"]
            if rv["k"] == "agg" and rv["variant"] == "None" and not s["place"]["p"]:
                none_locals.add(s["place"]["l"])
            if rv["k"] == "agg" and rv["variant"] == "Ok" and s["place"]["l"] == 0 and rv["ops"]:
                o = rv["ops"][0]
                if o["k"] in ("copy", "move") and not o["place"]["p"] and o["place"]["l"] in none_locals:
                    out.append(bi)
    return out


def run_false_stops(ck, ctx, rule):
    """ERRFLOW: in run::build a `false` from Work::run returns Ok(None) at once, at every call site"""
    F = ctx.F
    b = ck.need("fn run::build", F.body("run::build"))
    cfg = ctx.cfg(b)
    ck.functions.add(b.nname)
    sites = scope_sites(ctx, b, RUN)
    ck.floor("Work::run call sites in run::build", len(sites), 2)
    nones = set(ok_none_blocks(b))
    out = []
    for i, (bb, t, clo) in enumerate(sites):
        key = "run::build->Work::run#%d" % i
        tr = try_of_call(ctx, b, bb)
        sw = bool_switch_on_payload(ctx, b, bb)
        if not tr or not sw:
            ck.ob(rule, key, False, "result of Work::run is not propagated with `?` and branched on", span=t["loc"], fn=b.nname)
            continue
        sbb, tl, fl = sw
        starts = cfg.edge_targets(sbb, fl)
        r = cfg.reach_avoid(starts)
        calls = sorted({callee_of(b.blocks[x]["term"]) for x in r if b.blocks[x]["term"] and b.blocks[x]["term"]["k"] == "call"})
        bad_calls = [c for c in calls if c.startswith(("work::", "load::", "trace::scope")) ]
        hits_none = bool(starts) and all(s in nones for s in starts)
        # the test is unavoidable: nothing of the build machinery is reachable from the call without passing the switch on its result
        tgt = t.get("target", -1)
        around = cfg.reach_avoid([tgt], avoid_blocks=[sbb]) if tgt is not None and tgt >= 0 and tgt != sbb else set()
        skipped = sorted({callee_of(b.blocks[x]["term"]) for x in around if x != bb and b.blocks[x]["term"] and b.blocks[x]["term"]["k"] == "call" and callee_of(b.blocks[x]["term"]).startswith(("work::", "load::", "trace::scope"))})
        ck.ob(rule, key + "|tested-on-every-path", not skipped, "no path from Work::run's return reaches further build activity without testing its verdict (reachable around the test: %s)" % skipped, span=t["loc"], fn=b.nname)
        ck.ob(rule, key, hits_none and not bad_calls, "Work::run()? == false leads straight to `return Ok(None)` with no further build activity (calls after: %s)" % bad_calls, span=t["loc"], fn=b.nname)
        out.append((bb, t, sbb, tl, fl))
    return out


def exit_status(ck, ctx, rule):
    """run_impl maps None -> 1; main maps Err -> `n2: error: ` + 1 and exits with any non-zero code"""
    F = ctx.F
    b = ck.need("fn run::run_impl", F.body("run::run_impl"))
    cfg = ctx.cfg(b)
    R = ctx.res(b)
    ck.functions.add(b.nname)
    okn = False
    for x, t, scrut, adt, vmap in Q.enum_switches(ctx, b):
        s = strip(scrut)
        if adt == "std::option::Option" and any(c[1] == "run::build" for c in calls_in(s)):
            tg = cfg.edge_targets(x, vmap.get("None"))
            for tb in tg:
                for s_ in b.blocks[tb]["stmts"]:
                    if s_["k"] == "assign" and s_["place"]["l"] == 0 and s_["rv"]["k"] == "agg" and s_["rv"]["variant"] == "Ok":
                        e = R.agg_op(tb, s_, 0)
                        okn = e[0] == "const" and e[1] != 0
            # build's Err propagates
    ck.ob(rule, "run_impl|None=>nonzero", okn, "run_impl returns Ok(non-zero) when build() yields None", span=b.loc, fn=b.nname)
    site = Q.sites_in(b, "run::build")
    ck.floor("run::build call in run_impl", len(site), 1)
    for bb, t in site:
        ck.ob(rule, "run_impl|build-err-propagates", try_of_call(ctx, b, bb) is not None, "run_impl applies `?` to build()", span=t["loc"], fn=b.nname)
    for bb, t in Q.sites_in(b, "run::parse_args"):
        ck.ob(rule, "run_impl|args-err-propagates", try_of_call(ctx, b, bb) is not None, "run_impl applies `?` to parse_args()", span=t["loc"], fn=b.nname)
    # run(): returns run_impl's result unchanged
    rb = ck.need("fn run::run", F.body("run::run"))
    RR = ctx.res(rb)
    rets = ctx.cfg(rb).returns()
    e = strip(RR.local(0, RR.term_at(rets[0]))) if rets else ("unk",)
    ck.ob(rule, "run|forwards", e[0] == "call" and e[1] == "run::run_impl", "run::run returns %s" % show(e, 2), span=rb.loc, fn=rb.nname)
    # main
    m = ck.need("fn main", F.body("bin::main"))
    mcfg = ctx.cfg(m)
    MR = ctx.res(m)
    ck.functions.add(m.nname)
    strs = Q.body_strings(F, m)
    ck.ob(rule, "main|diagnostic-prefix", any("n2: error: " in s for s in strs), "main prints the `n2: error: ` prefix (strings %s)" % [s for s in strs if "n2" in s], span=m.loc, fn=m.nname)
    exits = Q.sites_in(m, "std::process::exit")
    ck.floor("process::exit in main", len(exits), 1)
    for bb, t in exits:
        e = MR.arg(bb, 0)
        al = alts(e)
        # value is the Ok payload of run() or the constant 1 (Err arm)
        ok_vals = all((a[0] == "const" and a[1] != 0) or any(c[1].endswith("run::run") for c in calls_in(a)) for a in al) and any(a[0] == "const" for a in al)
        # gate: exit is reached exactly on `code != 0`
        def pred(x):
            x = strip(x)
            if x[0] == "bin" and x[1] == "Ne" and x[3] == ("const", 0):
                return True
            if x[0] == "bin" and x[1] == "Eq" and x[3] == ("const", 0):
                return "neg"
            return False
        gates = C.bool_gate_edges(ctx, m, pred)
        g, _ = Q.gated(mcfg, bb, gates)
        ck.ob(rule, "main|exit-nonzero", ok_vals and g, "main calls process::exit(%s) on every non-zero code; Err arm yields 1" % show(e, 2), span=t["loc"], fn=m.nname)
        # the zero edge does not exit with non-zero: nothing else calls exit
    # Err arm sets 1
    for x, t, scrut, adt, vmap in Q.enum_switches(ctx, m):
        if adt == "std::result::Result" and any(c[1].endswith("run::run") for c in calls_in(strip(scrut))):
            tg = mcfg.edge_targets(x, vmap.get("Err"))
            r = mcfg.reach_avoid(tg)
            pr = any(callee_of(m.blocks[y]["term"]).endswith("_print") for y in r if m.blocks[y]["term"] and m.blocks[y]["term"]["k"] == "call")
            ck.ob(rule, "main|err-arm-prints", pr, "the Err arm of main prints the diagnostic", span=m.loc, fn=m.nname)


def final_value(ck, ctx, rule):
    """Work::run's normal return is `tasks_failed == 0 && !was_interrupted()`; tasks_failed counts every Failure"""
    F = ctx.F
    b = ck.need("fn " + RUN, F.body(RUN))
    cfg = ctx.cfg(b)
    R = ctx.res(b)
    ck.functions.add(b.nname)
    finals = []
    consts = []
    for bb, s in Q.ret_assignments(b):
        if "rv" in s and s["rv"]["k"] == "agg" and s["rv"]["variant"] == "Ok":
            e = R.agg_op(bb, s, 0)
            if e[0] == "const":
                consts.append((bb, e[1]))
            else:
                finals.append((bb, e, s))
    ck.ob(rule, "run|early-returns-false", all(v == 0 for _, v in consts), "constant returns of Work::run are all Ok(false): %s" % consts, span=b.loc, fn=b.nname)
    ck.floor("computed return value in Work::run", len(finals), 1)
    tf_local = None
    for bb, e, s in finals:
        al = alts(e)
        has_false = ("const", 0) in al
        nots = [a for a in al if a[0] == "un" and a[1] == "Not" and strip(a[2])[0] == "call" and strip(a[2])[1] == "signal::was_interrupted"]
        others = [a for a in al if a != ("const", 0) and a not in nots]
        # the Not(..) alternative is selected only under tasks_failed == 0
        gate_ok = False
        for sbb, st, de in Q.switches(ctx, b):
            de_ = strip(de)
            if de_[0] == "bin" and de_[1] == "Eq" and de_[3] == ("const", 0):
                d = st["discr"]
                tl, fl = Q.bool_edges(st)
                # the true edge leads to was_interrupted, the false edge to `success = false`
                rt = cfg.reach_avoid(cfg.edge_targets(sbb, tl), avoid_blocks=[bb])
                rf = cfg.reach_avoid(cfg.edge_targets(sbb, fl), avoid_blocks=[bb])
                wi = [x for x in cfg.reach if b.blocks[x]["term"] and b.blocks[x]["term"]["k"] == "call" and callee_of(b.blocks[x]["term"]) == "signal::was_interrupted"]
                if wi and all(x in rt for x in wi) and not any(x in rf for x in wi):
                    gate_ok = True
                    # which local is compared
                    for a in walk(de_[2]):
                        pass
                    tf_local = _compared_local(b, sbb)
        ck.ob(rule, "run|final-value", has_false and bool(nots) and not others and gate_ok, "Work::run returns Ok(%s); need false | !was_interrupted() selected by tasks_failed == 0" % show(e, 3), span=s.get("loc"), fn=b.nname)
    # tasks_failed: +1 on the Failure arm before the next iteration
    sw = [z for z in Q.enum_switches(ctx, b) if z[3] == TERM]
    for x, t, scrut, adt, vmap in sw:
        hdr = cfg.enclosing_loop_header(x)
        incs = []
        if tf_local is not None:
            for bi in cfg.reach:
                for s in b.blocks[bi]["stmts"]:
                    if s["k"] == "assign" and not s["place"]["p"] and s["place"]["l"] == tf_local:
                        e = R.stmt_rvalue(bi, s)
                        if e[0] == "bin" and e[1] == "Add" and e[3] == ("const", 1):
                            incs.append(bi)
        starts = cfg.edge_targets(x, vmap.get("Failure"))
        r = cfg.reach_avoid(starts, avoid_blocks=incs)
        ok = bool(incs) and hdr not in r
        ck.ob(rule, "run|failure-counted", ok, "every Failure completion that lets the loop continue increments the failure counter (inc blocks %s)" % incs, span=t.get("loc"), fn=b.nname)
        # and nothing else resets it
        if tf_local is not None:
            defs = [(bi, s) for bi in cfg.reach for s in b.blocks[bi]["stmts"] if s["k"] == "assign" and not s["place"]["p"] and s["place"]["l"] == tf_local]
            vals = []
            for bi, s in defs:
                e = R.stmt_rvalue(bi, s)
                vals.append("inc" if (e[0] == "bin" and e[1] == "Add" and e[3] == ("const", 1)) else ("zero" if e == ("const", 0) else show(e, 2)))
            ck.ob(rule, "run|failure-counter-defs", sorted(vals) == ["inc", "zero"] and not any(bi in cfg.natural_loop(hdr) for bi, s in defs if R.stmt_rvalue(bi, s) == ("const", 0)), "failure counter is zeroed once before the loop and only incremented inside: %s" % vals, span=b.loc, fn=b.nname)


def _compared_local(body, sbb):
    """user local compared in the `Eq(x, 0)` computed in block sbb"""
    stmts = body.blocks[sbb]["stmts"]
    for s in reversed(stmts):
        if s["k"] == "assign" and s["rv"]["k"] == "bin" and s["rv"]["op"] == "Eq":
            a = s["rv"]["a"]
            if a["k"] in ("copy", "move") and not a["place"]["p"]:
                l = a["place"]["l"]
                for s2 in stmts:
                    if s2["k"] == "assign" and not s2["place"]["p"] and s2["place"]["l"] == l and s2["rv"]["k"] == "use" and s2["rv"]["op"]["k"] in ("copy", "move") and not s2["rv"]["op"]["place"]["p"]:
                        return s2["rv"]["op"]["place"]["l"]
                return l
    return None


def budget(ck, ctx, rule):
    """on Failure with a budget: decrement, then `== 0` returns Ok(false) immediately"""
    F = ctx.F
    b = ck.need("fn " + RUN, F.body(RUN))
    cfg = ctx.cfg(b)
    R = ctx.res(b)
    sw = [z for z in Q.enum_switches(ctx, b) if z[3] == TERM]
    for x, t, scrut, adt, vmap in sw:
        fstart = cfg.edge_targets(x, vmap.get("Failure"))
        hdr = cfg.enclosing_loop_header(x)
        region = cfg.reach_avoid(fstart, avoid_blocks=[hdr] if hdr is not None else [])
        # the Option<usize> budget switch inside the Failure arm
        bsw = [z for z in Q.enum_switches(ctx, b) if z[0] in region and z[3] == "std::option::Option" and field_chain(strip(z[2]))[1][-1:] == ["failures_left"]]
        ck.ob(rule, "budget|examined", len(bsw) == 1 and all(Q.gated(cfg, z[0], {(x, vmap.get("Failure"))})[0] for z in bsw) and bsw and all(cfg.dominates(z[0], y) or y == z[0] or True for z in bsw for y in []), "the Failure arm examines options.failures_left (%d switch)" % len(bsw), span=t.get("loc"), fn=b.nname)
        for z in bsw:
            zb = z[0]
            # the budget switch is unavoidable on the Failure arm
            r0 = cfg.reach_avoid(fstart, avoid_blocks=[zb])
            ck.ob(rule, "budget|unavoidable", hdr not in r0 and not (set(cfg.returns()) & r0), "every Failure completion reaches the budget test", span=t.get("loc"), fn=b.nname)
            some = cfg.edge_targets(zb, z[4].get("Some"))
            rs = cfg.reach_avoid(some, avoid_blocks=[hdr] if hdr is not None else [])
            decs = []
            for bi in sorted(rs):
                for s in b.blocks[bi]["stmts"]:
                    if s["k"] == "assign" and s["place"]["p"] and s["place"]["p"][-1]["k"] == "deref":
                        e = R.stmt_rvalue(bi, s)
                        if e[0] == "bin" and e[1] == "Sub" and e[3] == ("const", 1):
                            decs.append(bi)
            okd = len(decs) == 1
            ck.ob(rule, "budget|decrement", okd, "with a budget the Failure arm decrements it exactly once (blocks %s)" % decs, span=t.get("loc"), fn=b.nname)
            # zero test after the decrement, true edge -> Ok(false) -> return with no call
            okz = False
            for sbb, st, de in Q.switches(ctx, b):
                if sbb not in rs:
                    continue
                de_ = strip(de)
                if de_[0] == "bin" and de_[1] in ("Eq", "Le") and de_[3] == ("const", 0) and "failures_left" in repr(de_[2]):
                    tl, fl = Q.bool_edges(st)
                    rr = cfg.reach_avoid(cfg.edge_targets(sbb, tl))
                    calls = [callee_of(b.blocks[y]["term"]) for y in rr if b.blocks[y]["term"] and b.blocks[y]["term"]["k"] == "call"]
                    ret_false = False
                    for y in cfg.edge_targets(sbb, tl):
                        for s in b.blocks[y]["stmts"]:
                            if s["k"] == "assign" and s["place"]["l"] == 0 and s["rv"]["k"] == "agg" and s["rv"]["variant"] == "Ok":
                                ret_false = R.agg_op(y, s, 0) == ("const", 0)
                    after_dec = decs and cfg.dominates(decs[0], sbb)
                    okz = ret_false and not calls and hdr not in rr and bool(after_dec)
            ck.ob(rule, "budget|exhausted-returns", okz, "after the decrement, budget == 0 returns Ok(false) at once: no call, no further loop iteration", span=t.get("loc"), fn=b.nname)
        # Interrupted: immediate Ok(false)
        istart = cfg.edge_targets(x, vmap.get("Interrupted"))
        ri = cfg.reach_avoid(istart)
        calls = [callee_of(b.blocks[y]["term"]) for y in ri if b.blocks[y]["term"] and b.blocks[y]["term"]["k"] == "call"]
        ck.ob(rule, "interrupted|returns", hdr not in ri and not calls, "an Interrupted completion returns without any further call or iteration", span=t.get("loc"), fn=b.nname)
    C.single_writer(ck, ctx, rule, "work::Options", "failures_left", ["run::parse_args", RUN])


def termination_ctors(ck, ctx, rule):
    """Success is constructed only under ExitStatus::success() (posix) and in the adopt literal;
    Interrupted only under signal == SIGINT; the spawn-error fallback is Failure."""
    F = ctx.F
    cons = Q.adt_constructors(F, TERM)
    seen = {}
    for b, bb, s in cons:
        v = s["rv"]["variant"]
        owner = b.nname.split("::promoted[")[0]
        seen.setdefault((owner, v), []).append((b, bb, s))
    allowed = {
        ("process_posix::run_command", "Success"), ("process_posix::run_command", "Interrupted"), ("process_posix::run_command", "Failure"),
        (RUN, "Success"),
        ("task::Runner::start::{closure#0}::{closure#1}", "Failure"),
    }
    cmp_only = set()
    for (owner, v), lst in sorted(seen.items()):
        # promoted constants used only as comparison operands are not constructions of results
        if all(b.kind == "promoted" for b, _, _ in lst):
            cmp_only.add((owner, v))
            continue
        ck.ob(rule, "ctor|%s::%s" % (owner, v), (owner, v) in allowed, "Termination::%s is constructed in %s" % (v, owner), span=lst[0][0].loc, fn=owner)
    ck.extra["termination_comparison_constants"] = sorted("%s:%s" % x for x in cmp_only)
    ck.floor("constructions of Termination", len([k for k in seen if k not in cmp_only]), 4)
    # gating in run_command
    rc = F.body("process_posix::run_command")
    if rc is not None:
        cfg = ctx.cfg(rc)
        ck.functions.add(rc.nname)

        def pred_succ(e):
            e = strip(e)
            return e[0] == "call" and e[1].endswith("ExitStatus::success")

        g_s = C.bool_gate_edges(ctx, rc, pred_succ)
        # status comes from waitpid
        for b, bb, s in seen.get((rc.nname, "Success"), []):
            if b.kind == "promoted":
                continue
            ok, _ = Q.gated(cfg, bb, g_s)
            ck.ob(rule, "posix|success-gated", ok, "Termination::Success only on the true edge of ExitStatus::success() (gates %s)" % sorted(g_s), span=s.get("loc"), fn=rc.nname)
        # Interrupted only when the signal equals SIGINT (2)
        for b, bb, s in seen.get((rc.nname, "Interrupted"), []):
            if b.kind == "promoted":
                continue
            gates = set()
            for sbb, st, de in Q.switches(ctx, rc):
                if any(c[1].endswith("ExitStatusExt>::signal") or c[1].endswith("::signal") for c in calls_in(de)) and de[0] != "discr":
                    for v, tgt in st["arms"]:
                        if v == 2:
                            gates.add((sbb, 2))
            ok, _ = Q.gated(cfg, bb, gates)
            ok2, _ = Q.gated(cfg, bb, {(x, fl) for (x, tl) in g_s for fl in [Q.bool_edges(rc.blocks[x]["term"])[1]]})
            ck.ob(rule, "posix|interrupted-gated", ok and ok2, "Termination::Interrupted only when status.signal() == SIGINT (2) and the status is not success (gates %s)" % sorted(gates), span=s.get("loc"), fn=rc.nname)
        # the number compared with SIGINT is the signal that terminated the waited-for process, nothing derived from its exit code
        # (an ordinary `exit 130` is a failure, not an interruption that stops the build)
        sig_sw = [(sbb, de) for sbb, st, de in Q.switches(ctx, rc) if de[0] != "discr" and any(c[1].endswith("::signal") for c in calls_in(de))]
        for n_, (sbb, de) in enumerate(sig_sw):
            others = sorted({c[1] for c in calls_in(de) if not c[1].endswith(("ExitStatusExt>::signal", "ExitStatusExt>::from_raw"))})
            ck.ob(rule, "posix|signal-is-wait-status#%d" % n_, not others, "the value matched against SIGINT is ExitStatusExt::signal() of the status filled in by waitpid (other sources: %s)" % others, span=rc.blocks[sbb]["term"].get("loc"), fn=rc.nname)
        ck.floor("matches on the terminating signal", len(sig_sw), 1)
        # conversely: death by SIGINT is always reported as Interrupted, and success() always as Success (no other constructor on those edges)
        sig_gates = set()
        for sbb, st, de in Q.switches(ctx, rc):
            if any(c[1].endswith("ExitStatusExt>::signal") or c[1].endswith("::signal") for c in calls_in(de)) and de[0] != "discr":
                for v, tgt in st["arms"]:
                    if v == 2:
                        sig_gates.add((sbb, 2))
        cons_blocks = {}
        for (owner_, v_), lst_ in seen.items():
            if owner_ == rc.nname:
                for b_, bb_, s_ in lst_:
                    if b_.kind != "promoted":
                        cons_blocks.setdefault(v_, []).append(bb_)
        for what, gates_, want_ in (("sigint=>interrupted", sig_gates, "Interrupted"), ("success=>success", g_s, "Success")):
            starts_ = [tt for (x, lab) in gates_ for tt in cfg.edge_targets(x, lab)]
            others_ = [bb_ for v_, bl in cons_blocks.items() if v_ != want_ for bb_ in bl]
            r_all = cfg.reach_avoid(starts_)
            r_wo = cfg.reach_avoid(starts_, avoid_blocks=cons_blocks.get(want_, []))
            ok_ = bool(starts_) and not any(x in r_all for x in others_) and not (set(cfg.returns()) & r_wo)
            ck.ob(rule, "posix|" + what, ok_, "on the %s edge the only Termination constructed before returning is %s" % ("signal() == SIGINT" if "sig" in what else "status.success()", want_), span=rc.loc, fn=rc.nname)
        # status is waitpid's
        okw = False
        R = ctx.res(rc)
        for bb, t in rc.calls():
            if callee_of(t).endswith("ExitStatus::success"):
                e = R.arg(bb, 0)
                okw = any(c[1].endswith("from_raw") for c in calls_in(e))
        wp = [t for _, t in rc.calls() if callee_of(t) == "libc::waitpid" or callee_of(t).endswith("::waitpid")]
        ck.ob(rule, "posix|status-from-waitpid", okw and len(wp) == 1, "the decoded status is ExitStatus::from_raw of the waitpid status", span=rc.loc, fn=rc.nname)
    # the adopt literal in Work::run
    rb = F.body(RUN)
    if rb is not None:
        cfg = ctx.cfg(rb)

        def pred_adopt(e):
            base, names = field_chain(strip(e))
            return names[-2:] == ["options", "adopt"]

        g_a = C.bool_gate_edges(ctx, rb, pred_adopt)
        for b, bb, s in seen.get((RUN, "Success"), []):
            if b.kind == "promoted":
                continue
            ok, _ = Q.gated(cfg, bb, g_a)
            ck.ob(rule, "adopt|literal-gated", ok, "the Success literal in Work::run is built only under options.adopt (gates %s)" % sorted(g_a), span=s.get("loc"), fn=RUN)
    # run_task passes the termination through
    tb = F.body("task::run_task")
    if tb is not None:
        R = ctx.res(tb)
        ck.functions.add(tb.nname)
        for b, bb, s in [x for x in Q.adt_constructors(F, "task::TaskResult") if x[0].nname == tb.nname]:
            fields = F.struct_fields("task::TaskResult")
            e = strip(R.agg_op(bb, s, fields.index("termination")))
            ok = any(c[1].endswith("run_command") for c in calls_in(e)) and not any(a[0] == "agg" for a in alts(e))
            ck.ob(rule, "run_task|termination-forwarded", ok, "run_task returns the termination of run_command unchanged (%s)" % show(e, 3), span=s.get("loc"), fn=tb.nname)
