"""C09 — discovered dependencies are remembered, replaced wholesale, and never block (structural clauses)."""
from n2sa import query as Q
from n2sa.expr import strip, show, field_chain, alts, calls_in, walk
from n2sa.facts import callee_of, norm
from . import common as C
from . import dirty as D
from . import dblog as DB
from . import accessors as ACC
from . import C01 as R01

EXPLANATION = (
    "Static conformance of the discovered-dependency discipline on rustc MIR of the current tree: (single-writer) Build.discovered_ins is assigned only in "
    "Build::new (empty) and set_discovered_ins (whole-value move of its parameter); its callers are record_finished and read_build; (replace-on-success) in "
    "record_finished set_discovered_ins(builds[id], deps) is on every normal path, before the missing-file early return, with deps built only from this "
    "run's report: each name is canonicalised, interned, de-duplicated and dropped if it is already a dirtying input (order-only duplicates are kept); "
    "(missing-not-error) in check_build_files_missing the `input .. missing` Err is reachable only from the declared dirtying inputs, a missing discovered "
    "dependency yields Ok(Some) (dirty), never Err; (no-order) discovered inputs are in neither ordering_ins nor File.dependents; (in-hash) build_manifest "
    "hashes discovered_ins; (serialised) the log writes discovered_ins() and read_build re-attaches exactly the ids it read, hash and deps together; "
    "(showincludes) under parse_showincludes run_task replaces the output by the filtered text and reports the extracted includes, extract_showincludes "
    "routes every line to exactly one of the two results; the depfile is read only on Success and replaces the report. Decides these clauses, not "
    "multi-invocation histories."
)
ASSUMPTIONS = ["multi-invocation histories and spelling equivalence beyond canonicalisation (C13) are not decided"]
THOROUGH_CONFIGS = ["nodefault"]
SDI = "graph::Build::set_discovered_ins"


def single_writer(ck, ctx):
    F = ctx.F
    C.single_writer(ck, ctx, "single-writer", "graph::Build", "discovered_ins", [SDI])
    C.callers_exact(ck, ctx, "single-writer", SDI, [D.RF, DB.RB], floor=2)
    b = ck.need("fn " + SDI, F.body(SDI))
    R = ctx.res(b)
    ok = False
    for bi, blk in enumerate(b.blocks):
        if blk["cleanup"]:
            continue
        for s in blk["stmts"]:
            if s["k"] == "assign" and s["place"]["p"] and s["place"]["p"][-1].get("name") == "discovered_ins":
                e = strip(R.stmt_rvalue(bi, s))
                ok = e[0] == "param"
    other = [callee_of(t) for _, t in b.calls()]
    ck.ob("single-writer", "set_discovered_ins|whole-replace", ok and not other, "set_discovered_ins moves its parameter into the field (no extend/push/merge; calls: %s)" % other, span=b.loc, fn=b.nname)
    nb = ck.need("fn graph::Build::new", F.body("graph::Build::new"))
    NR = ctx.res(nb)
    for _, bb, s in [x for x in Q.adt_constructors(F, "graph::Build") if x[0].nname == nb.nname]:
        fields = F.struct_fields("graph::Build")
        e = strip(NR.agg_op(bb, s, fields.index("discovered_ins")))
        ck.ob("single-writer", "Build::new|empty", e[0] == "call" and e[1].endswith("Vec::new"), "Build::new starts with discovered_ins = %s" % show(e, 2), span=nb.loc, fn=nb.nname)
    ACC.accessors(ck, ctx, only=["graph::Build::discovered_ins", "graph::Build::ordering_ins", "graph::Build::dirtying_ins", "graph::Build::validation_ins"])


def replace_on_success(ck, ctx):
    F = ctx.F
    b = ck.need("fn " + D.RF, F.body(D.RF))
    cfg = ctx.cfg(b)
    R = ctx.res(b)
    ck.functions.add(b.nname)
    sdi = Q.sites_in(b, SDI)
    ck.floor("set_discovered_ins in record_finished", len(sdi), 1)
    for i, (bb, t) in enumerate(sdi):
        # on every normal path
        r = cfg.reach_avoid([0], avoid_blocks=[bb])
        oks = [x for x, s, e in C.ok_return_blocks(ctx, b)]
        ck.ob("replace-on-success", "unconditional#%d" % i, not any(x in r for x in oks), "every normal return of record_finished has replaced the discovered list (also when a file is missing and nothing is recorded)", span=t["loc"], fn=b.nname)
        be = strip(R.arg(bb, 0))
        okb = be[0] == "call" and be[1].endswith("IndexMut<K>>::index_mut") and strip(be[2][1])[0] == "param" and field_chain(strip(be[2][0]))[1][-1:] == ["builds"]
        ck.ob("replace-on-success", "own-build#%d" % i, okb, "the list is replaced on graph.builds[id] of the finished id", span=t["loc"], fn=b.nname)
        de = strip(R.arg(bb, 1))
        fresh = de[0] == "call" and de[1].endswith("Vec::new") or (de[0] == "phi" and all(strip(a)[0] == "call" and strip(a)[1].endswith("Vec::new") for a in alts(de)))
        ck.ob("replace-on-success", "fresh-list#%d" % i, fresh, "the new list starts empty in this call (%s): nothing of the old list survives" % show(de, 2), span=t["loc"], fn=b.nname)
    # how the list is filled: pushes of id_from_canonical(canonicalised name) under !contains(deps) and !contains(dirtying_ins)
    pushes = [(bb, t) for bb, t in b.calls() if callee_of(t).endswith("Vec::push")]
    for i, (bb, t) in enumerate(pushes):
        v = strip(R.arg(bb, 1))
        okv = v[0] == "call" and v[1] == "graph::GraphFiles::id_from_canonical"
        name_e = v[2][1] if okv else None
        from_report = okv and any(field_chain(strip(y))[1][-2:] == ["discovered_deps", "as Some"] or "discovered_deps" in field_chain(strip(y))[1] for y in walk(name_e) if y[0] in ("field", "downcast"))
        ck.ob("replace-on-success", "push#%d|from-this-report" % i, okv and from_report, "pushed ids are id_from_canonical(name) for names of result.discovered_deps (%s)" % show(v, 3), span=t["loc"], fn=b.nname)
        # canonicalised first: a canonicalize_path call on the same name local dominates
        canon = [(x, tt) for x, tt in b.calls() if callee_of(tt) == "canon::canonicalize_path"]
        okc = bool(canon) and any(cfg.dominates(x, v[3]) and cfg.enclosing_loop_header(x) == cfg.enclosing_loop_header(v[3]) for x, tt in canon) if okv else False
        ck.ob("replace-on-success", "push#%d|canonicalised" % i, okc, "each reported name is canonicalised before it is interned", span=t["loc"], fn=b.nname)

        def pred_contains(which):
            def pred(e):
                e = strip(e)
                if e[0] == "call" and e[1].endswith("slice::contains"):
                    hay = e[2][0]
                    if which == "deps":
                        return any(c[1].endswith("Vec::new") for c in calls_in(hay)) or any(y[0] == "var" for y in walk(hay))
                    return any(c[1] == "graph::Build::dirtying_ins" for c in calls_in(hay))
                return False
            return pred

        for which in ("deps", "dirtying"):
            g = C.bool_gate_edges(ctx, b, pred_contains(which))
            g_not = {(x, [l for l in Q.bool_edges(b.blocks[x]["term"]) if l != lab][0]) for x, lab in g}
            ok, _ = Q.gated(cfg, bb, g_not, repeat=True)
            # de-duplication is tidy but not needed by the property (a name hashed twice is hashed twice at record and at check time alike):
            # reported, not an obligation
            ck.extra.setdefault("dedup_report_only", {})["push#%d|not-already-%s" % (i, which)] = bool(ok)
        # not filtered against ordering_ins (order-only duplicates stay dirtying)
        bad = [callee_of(tt) for x, tt in b.calls() if callee_of(tt) in ("graph::Build::ordering_ins", "graph::Build::validation_ins")]
        ck.ob("replace-on-success", "push#%d|order-only-kept" % i, not bad, "record_finished does not filter reported deps against order-only / validation inputs (%s)" % bad, span=t["loc"], fn=b.nname)
    ck.floor("dep pushes in record_finished", len(pushes), 1)


def missing_not_error(ck, ctx):
    from . import C06 as R06
    R06.worker_panics(ck, ctx, rule="missing-not-error")
    D.files_missing(ck, ctx, rule="missing-not-error")
    # after a run the manifest hash (which panics on a Missing file) is computed only when every hashed input category -- the
    # discovered dependencies included -- was re-stat'ed and found present
    D.record_discipline(ck, ctx, rule="missing-not-error")
    F = ctx.F
    b = F.body(D.CBFM)
    cfg = ctx.cfg(b)
    R = ctx.res(b)
    # the discovered-deps check can only produce Ok(Some) or propagate a stat error, never the `missing` Err
    for bb, t in Q.sites_in(b, D.EIF):
        if "graph::Build::discovered_ins" not in C.iter_source_calls(R.arg(bb, 3)):
            continue
        ne, se = C.option_edges(ctx, b, lambda s: C.from_try_of(s, D.EIF, bb))
        starts = [tt for (x, lab) in se for tt in cfg.edge_targets(x, lab)]
        r = cfg.reach_avoid(starts)
        errs = [x for x, s in C.err_return_blocks(ctx, b)]
        somes = [x for x, s, e in C.ok_return_blocks(ctx, b) if strip(e)[0] == "agg" and strip(e)[3] == "Some"]
        ck.ob("missing-not-error", "discovered-missing=>dirty", bool(starts) and not any(x in r for x in errs) and any(x in r for x in somes), "a missing discovered dependency leads to Ok(Some(id)) and cannot reach an Err construction", span=t["loc"], fn=b.nname)
    # ensure_input_files: the only Err it builds is the `used generated file` one, under file.input.is_some() with no cached state
    eb = F.body(D.EIF)
    strs = Q.body_strings(F, eb)
    ck.ob("missing-not-error", "ensure|only-generated-error", len(C.err_return_blocks(ctx, eb)) == 1 and any("used generated file" in s for s in strs), "ensure_input_files raises only the `used generated file .. no dependency path` error", span=eb.loc, fn=eb.nname)


def no_order(ck, ctx):
    F = ctx.F
    # want_build / recheck_ready never iterate discovered_ins; dependents registered from ins.ids only
    for fn in ("work::BuildStates::want_build", "work::Work::recheck_ready", "graph::Graph::add_build", "work::Work::ready_dependents"):
        b = ck.need("fn " + fn, F.body(fn))
        uses = [callee_of(t) for _, t in b.calls() if callee_of(t) == "graph::Build::discovered_ins"]
        reads = Q.field_census(F, "graph::Build", "discovered_ins").get(fn, {})
        ck.ob("no-order", fn, not uses and not (reads.get("read") or reads.get("write") or reads.get("mutref")), "%s does not look at discovered inputs (they impose no ordering)" % fn, span=b.loc, fn=fn)
    # readers of the field at all
    rd = sorted(fn for fn, v in Q.field_census(F, "graph::Build", "discovered_ins").items() if v["read"] and fn != "graph::Build::discovered_ins")
    ck.ob("no-order", "field-readers", rd == [] or rd == [SDI], "Build.discovered_ins is read only through the discovered_ins() accessor (%s)" % rd, span="graph::Build")
    users = sorted({b.nname for b, _, _ in F.call_sites("graph::Build::discovered_ins")})
    allowed = {D.CBFM, D.RF, D.BM, DB.WB}
    ck.ob("no-order", "accessor-users", set(users) <= allowed, "discovered_ins() is used by %s (allowed: dirty check, re-stat, hash, log writer)" % users, span="graph::Build::discovered_ins")


def showincludes(ck, ctx):
    F = ctx.F
    b = ck.need("fn task::run_task", F.body("task::run_task"))
    cfg = ctx.cfg(b)
    R = ctx.res(b)
    ck.functions.add(b.nname)
    ex = Q.sites_in(b, "task::extract_showincludes")
    ck.floor("extract_showincludes in run_task", len(ex), 1)

    def pred_ps(e):
        e = strip(e)
        return e[0] == "param" and e[2] == "parse_showincludes"

    g_ps = C.bool_gate_edges(ctx, b, pred_ps)
    for bb, t in ex:
        ck.ob("showincludes", "only-when-enabled", Q.gated(cfg, bb, g_ps)[0], "extract_showincludes runs only under parse_showincludes", span=t["loc"], fn=b.nname)
        a = strip(R.arg(bb, 0))
        ck.ob("showincludes", "input-is-captured-output", any(c[1].endswith("Vec::new") for c in calls_in(a)) or a[0] in ("var", "phi"), "its input is the captured output buffer", span=t["loc"], fn=b.nname)
    # the returned TaskResult
    for _, bb, s in [x for x in Q.adt_constructors(F, "task::TaskResult") if x[0].nname == b.nname]:
        fields = F.struct_fields("task::TaskResult")
        oe = R.agg_op(bb, s, fields.index("output"))
        de = R.agg_op(bb, s, fields.index("discovered_deps"))
        o_alts = [strip(a) for a in alts(oe)]
        # under parse_showincludes the output is component .1 of extract_showincludes; otherwise the raw buffer
        filt = [a for a in o_alts if a[0] == "field" and a[2] == "1" and strip(a[1])[0] == "call" and strip(a[1])[1] == "task::extract_showincludes"]
        raw = [a for a in o_alts if a not in filt]
        ck.ob("showincludes", "output-filtered", len(filt) == 1 and all(r[0] == "call" and r[1].endswith("Vec::new") for r in raw) and len(o_alts) == 2, "TaskResult.output is the filtered text (component 1 of extract_showincludes) when enabled, else the raw buffer: %s" % show(oe, 3), span=s.get("loc"), fn=b.nname)
        # once enabled, the filtered text always replaces the buffer before the result is built
        repl = []
        out_op = s["rv"]["ops"][fields.index("output")]
        out_local = R01._copy_source(b, bb, out_op["place"]["l"]) if out_op["k"] in ("copy", "move") and not out_op["place"]["p"] else None
        for bi in cfg.reach:
            for s_ in b.blocks[bi]["stmts"]:
                if s_["k"] == "assign" and not s_["place"]["p"]:
                    e_ = strip(R.stmt_rvalue(bi, s_))
                    if e_ in filt and s_["place"]["l"] == out_local:
                        repl.append(bi)
        starts_ps = [tt for (x, lab) in g_ps for tt in cfg.edge_targets(x, lab)]
        r_ps = cfg.reach_avoid(starts_ps, avoid_blocks=repl)
        ck.ob("showincludes", "output-always-replaced", bool(repl) and bb not in r_ps, "under parse_showincludes every path to the result passes `output = filtered` (regardless of success or failure)", span=s.get("loc"), fn=b.nname)
        d_alts = [strip(a) for a in alts(de)]
        kinds = []
        for a in d_alts:
            if a[0] == "agg" and a[3] == "None":
                kinds.append("None")
            elif a[0] == "agg" and a[3] == "Some":
                inner = strip(a[4][0])
                if inner[0] == "field" and inner[2] == "0" and any(c[1] == "task::extract_showincludes" for c in calls_in(inner)):
                    kinds.append("includes")
                elif C.from_try_of(inner, "task::read_depfile"):
                    kinds.append("depfile")
                else:
                    kinds.append("?" + show(inner, 2))
            else:
                kinds.append("?" + show(a, 2))
        ck.ob("showincludes", "deps-sources", sorted(kinds) == ["None", "depfile", "includes"], "TaskResult.discovered_deps is None | Some(extracted includes) | Some(read_depfile()?): %s" % sorted(kinds), span=s.get("loc"), fn=b.nname)
    # depfile only on success
    rd = Q.sites_in(b, "task::read_depfile")
    def pred_succ(e):
        e = strip(e)
        if e[0] == "call" and e[1].endswith("Termination as std::cmp::PartialEq>::eq"):
            return any(y[0] == "promoted" and y[2] == ("enum", "process::Termination", "Success") for y in map(strip, e[2]))
        return False
    g_s = C.bool_gate_edges(ctx, b, pred_succ)
    for bb, t in rd:
        ck.ob("showincludes", "depfile-only-on-success", Q.gated(cfg, bb, g_s)[0], "read_depfile is reached only when the command succeeded", span=t["loc"], fn=b.nname)
        a = strip(R.arg(bb, 0))
        ck.ob("showincludes", "depfile-param", any(y[0] == "param" and y[2] == "depfile" for y in walk(a)), "it reads the step's depfile parameter", span=t["loc"], fn=b.nname)
    # extract_showincludes: each line goes to exactly one of includes / filtered_output
    eb = ck.need("fn task::extract_showincludes", F.body("task::extract_showincludes"))
    ecfg = ctx.cfg(eb)
    ER = ctx.res(eb)
    ck.functions.add(eb.nname)
    strs = Q.body_strings(F, eb)
    ck.ob("showincludes", "prefix-literal", any("Note: including file: " in s for s in strs), "lines are recognised by the `Note: including file: ` prefix", span=eb.loc, fn=eb.nname)
    ne, se = C.option_edges(ctx, eb, lambda s: s[0] == "call" and s[1].endswith("strip_prefix"))
    inc_push = [bb for bb, t in eb.calls() if callee_of(t).endswith("Vec::push") and t["args"][1]["k"] in ("copy", "move") and "String" in eb.local_ty(t["args"][1]["place"]["l"])]
    out_ext = [bb for bb, t in eb.calls() if callee_of(t).endswith("extend_from_slice")]
    ok = bool(se) and bool(ne) and bool(inc_push) and bool(out_ext)
    if ok:
        ok = all(Q.gated(ecfg, x, se)[0] for x in inc_push) and all(Q.gated(ecfg, x, ne)[0] for x in out_ext)
        hdr = ecfg.enclosing_loop_header(inc_push[0])
        # the None arm always copies the line; the Some arm always records the include
        r1 = ecfg.reach_avoid([tt for (x, lab) in ne for tt in ecfg.edge_targets(x, lab)], avoid_blocks=out_ext)
        r2 = ecfg.reach_avoid([tt for (x, lab) in se for tt in ecfg.edge_targets(x, lab)], avoid_blocks=inc_push)
        ok = ok and hdr not in r1 and hdr not in r2
    ck.ob("showincludes", "line-partition", ok, "every output line is either recorded as an include (prefix matched) or copied to the filtered output, never both or neither", span=eb.loc, fn=eb.nname)
    # the recorded name is the rest of the line without leading blanks and without a trailing CR: include[start..end] with
    # start = position of the first byte != ' ' (0 when there is none), end = len or len-1 under ends_with("\r")
    from n2sa import bytetable as BT
    pos = [(bb, t) for bb, t in eb.calls() if callee_of(t).endswith("::position")]
    okspan = len(pos) == 1
    det = ""
    if okspan:
        pbb, pt = pos[0]
        clo = strip(ER.arg(pbb, 1))
        cb = F.body(clo[2]) if clo[0] == "agg" and clo[1] == "closure" else None
        tab = BT.predicate_table(cb, 2) if cb is not None else {}
        okspan = tab.get(0, tab.get(False)) == [32] and not tab.get(None)
        # scanned from the front: the receiver is a plain .iter() of the rest of the line
        chain = [c[1].split("::")[-1] for c in calls_in(ER.arg(pbb, 0)) if "Iterator" in c[1] or c[1].startswith(("core::slice::", "std::iter::", "std::slice::"))]
        okspan = okspan and [x for x in chain if x not in ("iter", "strip_prefix", "split", "next", "into_iter")] == []
        det = "predicate false exactly for %s" % tab.get(0, tab.get(False))
        uo = [(bb, t) for bb, t in eb.calls() if callee_of(t).endswith("Option::unwrap_or")]
        okspan = okspan and len(uo) == 1 and ER.arg(uo[0][0], 1) == ("const", 0) and any(c[3] == pbb for c in calls_in(ER.arg(uo[0][0], 0)))
        # the slice taken is include[start..end]
        idx = [(bb, t) for bb, t in eb.calls() if callee_of(t).endswith("Index<I>>::index") or callee_of(t).endswith("slice::index::Index>::index")]
        rng_ok = False
        for bb, t in eb.calls():
            for i in range(len(t["args"])):
                e = strip(ER.arg(bb, i))
                if e[0] == "agg" and e[2] == "std::ops::Range":
                    lo, hi = strip(e[4][0]), e[4][1]
                    lo_ok = lo[0] == "call" and lo[1].endswith("unwrap_or")
                    his = [strip(a) for a in alts(hi)]
                    forms = sorted("len" if (h[0] == "call" and h[1].endswith("::len")) else "len-1" if (h[0] == "bin" and h[1] == "Sub" and h[3] == ("const", 1) and strip(h[2])[0] == "call" and strip(h[2])[1].endswith("::len")) else "?" for h in his)
                    rng_ok = rng_ok or (lo_ok and forms == ["len", "len-1"])
        okspan = okspan and rng_ok
    ck.ob("showincludes", "include-span", okspan, "the include name is line-after-prefix[first non-blank .. len (minus a trailing CR)] (%s)" % det, span=eb.loc, fn=eb.nname)
    # returns (includes, filtered_output) in that order
    for bb, s in Q.ret_assignments(eb):
        if "rv" in s and s["rv"]["k"] == "agg" and s["rv"]["ak"] == "tuple":
            t0 = eb.local_ty(s["rv"]["ops"][0]["place"]["l"]) if s["rv"]["ops"][0]["k"] in ("copy", "move") else "?"
            t1 = eb.local_ty(s["rv"]["ops"][1]["place"]["l"]) if s["rv"]["ops"][1]["k"] in ("copy", "move") else "?"
            ck.ob("showincludes", "result-order", "String" in t0 and "u8" in t1, "extract_showincludes returns (includes: %s, filtered: %s)" % (t0, t1), span=s.get("loc"), fn=eb.nname)
    # Runner::start forwards build.parse_showincludes and build.depfile
    sb = ck.need("fn task::Runner::start", F.body("task::Runner::start"))
    clo = F.body("task::Runner::start::{closure#0}")
    if clo is not None:
        CR = ctx.res(clo)
        for bb, t in Q.sites_in(clo, "task::run_task"):
            names = []
            for i in range(4):
                e = strip(CR.arg(bb, i))
                base, nm = field_chain(e)
                names.append(nm[-1] if nm else show(e, 1))
            upv = clo.raw  # closure upvar names are positional; verify through the capture list in start
        SR = ctx.res(sb)
        for bi, blk in enumerate(sb.blocks):
            for s in blk["stmts"]:
                if s["k"] == "assign" and s["rv"]["k"] == "agg" and s["rv"]["ak"] == "closure":
                    caps = [strip(SR.agg_op(bi, s, k)) for k in range(len(s["rv"]["ops"]))]
                    flds = []
                    for c_ in caps:
                        fl_ = [y[2] for y in walk(c_) if y[0] == "field" and strip(y[1])[0] == "param"]
                        flds.append(fl_[0] if fl_ else None)
                    ck.ob("showincludes", "start-forwards-build-fields", {"cmdline", "depfile", "parse_showincludes", "rspfile"} <= set(f for f in flds if f), "Runner::start captures cmdline, depfile, parse_showincludes, rspfile of the build for the task thread: %s" % [f for f in flds if f], span=s.get("loc"), fn=sb.nname)


def run(ck, ctx):
    C.adapter_census(ck, ctx, "replace-on-success", ("work::", "task::", "db::", "depfile::"))
    C.loops_complete(ck, ctx, "replace-on-success", [("work::Work::record_finished", "graph::GraphFiles::id_from_canonical", "the reported dependency names")])
    single_writer(ck, ctx)
    replace_on_success(ck, ctx)
    # `deps = msvc` reaches the step: the parsed flag is stored in the Build that run_task is given
    from . import C10 as R10
    R10.attr_tables(ck, ctx)
    missing_not_error(ck, ctx)
    no_order(ck, ctx)
    R01.dependents(ck, ctx)
    D.hash_covers(ck, ctx, rule="in-hash", rule_excl="in-hash")
    DB.prefix_agrees(ck, ctx, rule="serialised")
    DB.attribution(ck, ctx, rule="serialised-load")
    showincludes(ck, ctx)
    # loader: depfile / deps attribute plumbing
    F = ctx.F
    lb = ck.need("fn load::Loader::add_build", F.body("load::Loader::add_build"))
    strs = Q.body_strings(F, lb)
    ck.ob("plumbing", "deps-attribute-values", all(any(v in s for s in strs) for v in ('"depfile"', '"deps"', '"gcc"', '"msvc"')) or all(any(v in s for s in strs) for v in ("depfile", "deps", "gcc", "msvc")), "Loader::add_build recognises depfile, deps=gcc|msvc", span=lb.loc, fn=lb.nname)


def run_config(ck, ctx):
    run(ck, ctx)
