"""C10 — manifest syntax is read into exactly the declared graph (structural clauses)."""
from n2sa import query as Q
from n2sa import bytetable as BT
from n2sa.expr import strip, show, field_chain, alts, calls_in, walk
from n2sa.facts import callee_of, norm
from . import common as C
from . import accessors as ACC
from . import C13 as R13
from . import C11 as R11

EXPLANATION = (
    "Static conformance of the lexer's byte classes and of the role plumbing from parser to graph on rustc MIR of the current tree: (byte-classes) for every "
    "read()/peek() dispatch site of parse.rs the code after the call is interpreted for each of the 256 possible byte values (finite-domain, exhaustive) and "
    "the resulting table `byte -> first action` must equal the Ninja lexical classes: identifiers [A-Za-z0-9_.-], $-variable names the same without '.', "
    "path terminators space ':' '|' newline, value terminator newline, '$' escapes (newline, space, '$', ':', '{'..'}', name), comments to end of line, "
    "statement dispatch on NUL / newline / '#' / leading blank, and the build-line separators '|', '||', '|@'; any non-ASCII or library predicate in a "
    "class shows up as a different table; (counts) in Parser::read_build the four input role counts are the successive differences of ins.len() sampled "
    "between the section reads (explicit = L1, implicit = L2-L1, order_only = L3-L2, validation = L4-L3), each optional section is entered through its "
    "separator, and explicit_outs is outs.len() after the first output section; (mapping) Loader::add_build builds BuildIns/BuildOuts from the same-named "
    "parse::Build fields with ids = evaluate_paths(b.ins / b.outs) in order; (accessors) role accessors are the matching slices; (attr-tables) every "
    "attribute key looked up in add_build is accepted by read_rule's validator and lands in its own Build field; (statements) each Statement variant is "
    "produced by its keyword. Decides these clauses, not the full grammar (token sequences, continuations, spacing independence) for all spellings."
)
ASSUMPTIONS = ["the grammar as a whole (all token sequences and spellings) is functional correctness over all strings and is not decided"]
THOROUGH_CONFIGS = ["crlf"]

IDENT = "'-'-'.' '0'-'9' 'A'-'Z' '_' 'a'-'z'"
IDENT_REST = "0x00-',' '/' ':'-'@' '['-'^' '`' '{'-0xff"
VARNAME = "'-' '0'-'9' 'A'-'Z' '_' 'a'-'z'"
VARNAME_REST = "0x00-',' '.'-'/' ':'-'@' '['-'^' '`' '{'-0xff"

# (function, primitive, ordinal) -> {frozenset(first actions): byte set}
EXPECTED = {
    ("parse::Parser::read_ident", "read", 0): {("again",): IDENT, ("back",): IDENT_REST},
    ("parse::Parser::read_simple_varname", "read", 0): {("again",): VARNAME, ("back",): VARNAME_REST},
    ("parse::Parser::read_eval", "read", 0): {("parse_error",): "0x00", ("back",): "0x0a ' ' ':' '|'", ("read_escape", "slice"): "'$'", ("again",): "0x01-0x09 0x0b-0x1f '!'-'#' '%'-'9' ';'-'{' '}'-0xff"},
    ("parse::Parser::read_eval", "read", 1): {("parse_error",): "0x00", ("back",): "0x0a", ("read_escape", "slice"): "'$'", ("again",): "0x01-0x09 0x0b-'#' '%'-0xff"},
    ("parse::Parser::read_escape", "read", 0): {("skip_spaces",): "0x0a", ("slice",): "' ' '$' ':'", ("read",): "'{'", ("back",): "0x00-0x09 0x0b-0x1f '!'-'#' '%'-'9' ';'-'z' '|'-0xff"},
    ("parse::Parser::read_escape", "read", 1): {("parse_error",): "0x00", ("slice",): "'}'", ("again",): "0x01-'|' '~'-0xff"},
    ("parse::Parser::skip_comment", "read", 0): {("back",): "0x00", ("return",): "0x0a", ("again",): "0x01-0x09 0x0b-0xff"},
    ("parse::Parser::skip_spaces", "read", 0): {("again",): "' '", ("peek",): "'$'", ("back",): "0x00-0x1f '!'-'#' '%'-0xff"},
    ("parse::Parser::skip_spaces", "peek", 1): {("skip",): "0x0a", ("back",): "0x00-0x09 0x0b-0xff"},
    ("parse::Parser::read", "peek", 0): {("return",): "0x00", ("next",): "0x0a", ("skip_comment",): "'#'", ("parse_error",): "0x09 ' '", ("read_ident",): "0x01-0x08 0x0b-0x1f '!'-'\"' '$'-0xff"},
    ("parse::Parser::read_unevaluated_paths_to", "peek", 0): {("return",): "0x0a ':' '|'", ("read_eval",): "0x00-0x09 0x0b-'9' ';'-'{' '}'-0xff"},
    ("parse::Parser::read_scoped_vars", "peek", 0): {("skip_spaces",): "' '", ("return",): "0x00-0x1f '!'-0xff"},
    ("parse::Parser::read_vardef", "peek", 0): {("expect",): "0x0a", ("read_eval",): "0x00-0x09 0x0b-0xff"},
}


def byte_classes(ck, ctx, expected=EXPECTED, rule="byte-classes"):
    F = ctx.F
    fns = sorted({k[0] for k in expected})
    total_sites = 0
    for fn in fns:
        b = F.body(fn)
        if b is None:
            ck.ob("anchor", "fn " + fn, False, "anchor-missing: %s" % fn, nontrivial=False)
            continue
        ck.functions.add(fn)
        k = 0
        seen = set()
        for bb, t in b.calls():
            c = callee_of(t)
            if c not in ("scanner::Scanner::read", "scanner::Scanner::peek"):
                continue
            prim = c.split("::")[-1]
            key = (fn, prim, k)
            k += 1
            total_sites += 1
            seen.add(key)
            tab = BT.table(b, bb)
            got = {tuple(sorted(x.split("::")[-1] for x in o)): BT.ranges(vs) for o, vs in tab.items()}
            want = expected.get(key)
            if want is None:
                ck.ob(rule, "%s|%s#%d" % key, False, "unexpected byte-dispatch site (no class table on record): %s" % got, span=t["loc"], fn=fn)
                continue
            ok = got == {tuple(sorted(a)): v for a, v in want.items()}
            diff = ""
            if not ok:
                diff = "; got %s expected %s" % ({" ".join(a): v for a, v in got.items()}, {" ".join(a): v for a, v in want.items()})
            ck.ob(rule, "%s|%s#%d" % key, ok, "byte classes after %s #%d in %s agree with the lexical specification over all 256 byte values%s" % (prim, key[2], fn, diff), span=t["loc"], fn=fn)
        for key in expected:
            if key[0] == fn and key not in seen:
                ck.ob(rule, "%s|%s#%d" % key, False, "expected byte-dispatch site is gone", span=b.loc, fn=fn)
    ck.extra["byte_tables"] = dict(sites=total_sites, values_per_site=256, exhaustive=True)
    return total_sites


def counts(ck, ctx):
    F = ctx.F
    b = ck.need("fn parse::Parser::read_build", F.body("parse::Parser::read_build"))
    cfg = ctx.cfg(b)
    R = ctx.res(b)
    ck.functions.add(b.nname)
    RU = "parse::Parser::read_unevaluated_paths_to"
    secs = {"ins": [], "outs": []}
    from .dblog import _rpo
    order = {x: i for i, x in enumerate(_rpo(cfg))}
    vec_of = {}
    for bb, t in Q.sites_in(b, RU):
        e = strip(R.arg(bb, 1))
        # which local vector
        names = [b.local_name(y[1]) for y in walk(e) if y[0] == "var"]
        cl = [c for c in calls_in(e) if c[1].endswith("Vec::new")]
        # the two Vec::new() calls distinguish ins from outs by block
        vec_of[bb] = cl[0][3] if cl else None
    vecs = sorted({v for v in vec_of.values() if v is not None}, key=lambda x: order.get(x, 0))
    ck.ob("counts", "two-vectors", len(vecs) == 2, "read_build fills two path vectors (outs then ins)", span=b.loc, fn=b.nname)
    if len(vecs) != 2:
        return
    outs_v, ins_v = vecs
    S_out = sorted([bb for bb, v in vec_of.items() if v == outs_v], key=lambda x: order[x])
    S_in = sorted([bb for bb, v in vec_of.items() if v == ins_v], key=lambda x: order[x])
    ck.ob("counts", "section-reads", len(S_out) == 2 and len(S_in) == 4, "read_build has 2 output section reads and 4 input section reads (%d, %d)" % (len(S_out), len(S_in)), span=b.loc, fn=b.nname)
    if len(S_out) != 2 or len(S_in) != 4:
        return

    def pset(len_bb, secs_):
        return frozenset(i for i, s in enumerate(secs_) if cfg.can_reach(s, len_bb) and s != len_bb)

    def linear(e, secs_, vec):
        """{frozenset(preceding sections): coeff}"""
        e = strip(e)
        if e[0] == "call" and e[1].endswith("Vec::len") and any(c[3] == vec for c in calls_in(e[2][0]) if c[1].endswith("Vec::new")):
            return {pset(e[3], secs_): 1}
        if e[0] == "bin" and e[1] in ("Sub", "Add"):
            a, c = linear(e[2], secs_, vec), linear(e[3], secs_, vec)
            if a is None or c is None:
                return None
            r = dict(a)
            for k, v in c.items():
                r[k] = r.get(k, 0) + (v if e[1] == "Add" else -v)
            return {k: v for k, v in r.items() if v != 0}
        return None

    cons = [x for x in Q.adt_constructors(F, "parse::Build") if x[0].nname == b.nname]
    ck.floor("parse::Build construction in read_build", len(cons), 1)
    for _, bb, s in cons:
        fields = F.struct_fields("parse::Build")
        want = {
            "explicit_ins": {frozenset([0]): 1},
            "implicit_ins": {frozenset([0, 1]): 1, frozenset([0]): -1},
            "order_only_ins": {frozenset([0, 1, 2]): 1, frozenset([0, 1]): -1},
            "validation_ins": {frozenset([0, 1, 2, 3]): 1, frozenset([0, 1, 2]): -1},
        }
        for f, w in want.items():
            e = R.agg_op(bb, s, fields.index(f))
            got = linear(e, S_in, ins_v)
            ck.ob("counts", f, got == w, "%s = %s ; as differences of ins.len() samples: %s (need %s)" % (f, show(e, 3), _fmt(got), _fmt(w)), span=s.get("loc"), fn=b.nname)
        e = R.agg_op(bb, s, fields.index("explicit_outs"))
        got = linear(e, S_out, outs_v)
        ck.ob("counts", "explicit_outs", got == {frozenset([0]): 1}, "explicit_outs = outs.len() after the first output section: %s" % _fmt(got), span=s.get("loc"), fn=b.nname)
        # ins / outs fields are those vectors
        for f, v in (("ins", ins_v), ("outs", outs_v)):
            e = strip(R.agg_op(bb, s, fields.index(f)))
            ck.ob("counts", f + "-vector", e[0] == "call" and e[1].endswith("Vec::new") and e[3] == v, "Build.%s is the vector filled by the %s section reads" % (f, f), span=s.get("loc"), fn=b.nname)
        e = strip(R.agg_op(bb, s, fields.index("line")))
        ck.ob("counts", "line", field_chain(e)[1][-2:] == ["scanner", "line"], "Build.line is the scanner line at the statement start", span=s.get("loc"), fn=b.nname)
    # separators: the optional sections are entered through expect('|') / expect('@') resp. a '|' peek
    exps = [(bb, t, R.arg(bb, 1)) for bb, t in Q.sites_in(b, "scanner::Scanner::expect")]
    from . import runloop as RL

    def gate_of(ch):
        g = set()
        for bb, t, e in exps:
            if e == ("const", ch):
                tr = RL.try_of_call(ctx, b, bb)
                if tr:
                    g.add((tr[0], tr[1]))
        return g

    ok3 = Q.gated(cfg, S_in[2], gate_of(ord("|")))[0]
    ok4 = Q.gated(cfg, S_in[3], gate_of(ord("@")))[0]
    okc = Q.gated(cfg, S_in[0], gate_of(ord(":")))[0]
    ck.ob("counts", "separators", ok3 and ok4 and okc, "inputs start after expect(':'); the order-only section follows expect('|') (second bar), the validation section follows expect('@')", span=b.loc, fn=b.nname)
    # how each optional section is entered, as facts about the scanner position (which byte was consumed last, which byte is next)
    # on *every* path to the section's read -- independent of how the `|` tests are spelled or factored into helpers
    from n2sa.byteclass import ByteClass
    bc = ByteClass(F, b, cfg)
    BAR, AT = ord("|"), ord("@")

    def only(x, chars):
        return x is not None and x <= frozenset(chars) and bool(x)

    ent = {
        "implicit-outs": (S_out[1], only(bc.last_at(S_out[1]), [BAR]), True),
        "implicit-ins": (S_in[1], only(bc.last_at(S_in[1]), [BAR]), bc.possible_at(S_in[1]) is not None and not (bc.possible_at(S_in[1]) & {BAR, AT})),
        "order-only-ins": (S_in[2], only(bc.last_at(S_in[2]), [BAR]), True),
        "validation-ins": (S_in[3], only(bc.last_at(S_in[3]), [AT]), True),
    }
    for name, (bb_, ok_last, ok_cur) in ent.items():
        ck.ob("counts", "section-entry|" + name, ok_last and ok_cur and not bc.capped, "the %s section is read only right after consuming its separator%s (last consumed byte %s)" % (name, " and never when a second `|` or `@` follows (that bar belongs to `||` / `|@`)" if name == "implicit-ins" else "", sorted(chr(x) for x in (bc.last_at(bb_) or [])) if bc.last_at(bb_) is not None and len(bc.last_at(bb_)) < 5 else "unconstrained"), span=b.blocks[bb_]["term"]["loc"], fn=b.nname)
    nl = gate_of(10)
    ck.ob("counts", "ends-with-newline", bool(nl) and all(Q.gated(cfg, bb, nl)[0] for _, bb, s in cons), "the build line must end with a newline before its bindings are read", span=b.loc, fn=b.nname)


def _fmt(d):
    if d is None:
        return "unrecognised"
    return " ".join("%+d*L%s" % (v, "".join(str(i + 1) for i in sorted(k))) for k, v in sorted(d.items(), key=lambda x: sorted(x[0])))


def mapping(ck, ctx):
    F = ctx.F
    b = ck.need("fn load::Loader::add_build", F.body("load::Loader::add_build"))
    R = ctx.res(b)
    ck.functions.add(b.nname)
    spec = {"graph::BuildIns": {"ids": ("evaluate_paths", "ins"), "explicit": "explicit_ins", "implicit": "implicit_ins", "order_only": "order_only_ins"}, "graph::BuildOuts": {"ids": ("evaluate_paths", "outs"), "explicit": "explicit_outs"}}
    for adt, fmap in spec.items():
        cons = [x for x in Q.adt_constructors(F, adt) if x[0].nname == b.nname]
        ck.floor("%s construction in add_build" % adt, len(cons), 1)
        for _, bb, s in cons:
            fields = F.struct_fields(adt)
            for f, src in fmap.items():
                e = strip(R.agg_op(bb, s, fields.index(f)))
                if isinstance(src, tuple):
                    ok = e[0] == "call" and e[1] == "load::Loader::evaluate_paths" and field_chain(strip(e[2][1]))[1][-1:] == [src[1]] and strip(field_chain(strip(e[2][1]))[0])[0] == "param"
                else:
                    base, names = field_chain(e)
                    ok = names == [src] and strip(base)[0] == "param"
                ck.ob("mapping", "%s.%s" % (adt.split("::")[-1], f), ok, "%s.%s <- %s (need parse::Build.%s)" % (adt, f, show(e, 2), src[1] if isinstance(src, tuple) else src), span=s.get("loc"), fn=b.nname)
    # both path lists are evaluated with the same env chain [build vars, file vars]
    eps = Q.sites_in(b, "load::Loader::evaluate_paths")
    envs = [strip(R.arg(bb, 2)) for bb, t in eps]
    same = len(envs) == 2 and show(envs[0], 6) == show(envs[1], 6)
    ck.ob("mapping", "same-env-for-ins-and-outs", same, "ins and outs are evaluated against the same environments", span=b.loc, fn=b.nname)
    # evaluate_paths keeps order and multiplicity
    ep = ck.need("fn load::Loader::evaluate_paths", F.body("load::Loader::evaluate_paths"))
    ER = ctx.res(ep)
    e = strip(ER.local(0, ER.term_at(ctx.cfg(ep).returns()[0])))
    cs = [c[1].split("::")[-1] for c in calls_in(e)]
    ok = "collect" in cs and "map" in cs and "into_iter" in cs and C.iter_is_whole(e)[0] and not any(x in cs for x in ("rev", "dedup", "sort", "filter"))
    ck.ob("mapping", "evaluate_paths-order", ok, "evaluate_paths = paths.into_iter().map(evaluate_path).collect(): same order, same multiplicity (%s)" % cs, span=ep.loc, fn=ep.nname)
    # Build::new keeps ins / outs
    nb = ck.need("fn graph::Build::new", F.body("graph::Build::new"))
    NR = ctx.res(nb)
    for _, bb, s in [x for x in Q.adt_constructors(F, "graph::Build") if x[0].nname == nb.nname]:
        fields = F.struct_fields("graph::Build")
        for f in ("ins", "outs", "location"):
            e = strip(NR.agg_op(bb, s, fields.index(f)))
            ck.ob("mapping", "Build::new.%s" % f, e[0] == "param" and e[2] in (f, "loc"), "Build::new stores its %s parameter" % f, span=nb.loc, fn=nb.nname)
    # graph.add_build receives that build
    for bb, t in Q.sites_in(b, "graph::Graph::add_build"):
        e = strip(R.arg(bb, 1))
        ck.ob("mapping", "add_build-argument", e[0] == "call" and e[1] == "graph::Build::new" or any(c[1] == "graph::Build::new" for c in calls_in(e)), "the build added to the graph is the one built from these roles", span=t["loc"], fn=b.nname)


def attr_tables(ck, ctx):
    F = ctx.F
    b = F.body("load::Loader::add_build")
    R = ctx.res(b)
    cfg = ctx.cfg(b)
    # keys passed to the lookup closure
    keys = {}
    for bb, t in b.calls():
        c = callee_of(t)
        cb_ = F.body(c)
        if c.endswith("Fn::call") or c.endswith("FnMut::call_mut") or c.endswith("FnOnce::call_once") or (cb_ is not None and cb_.kind == "closure" and c.startswith(b.nname + "::")):
            a = strip(R.arg(bb, 1))
            ks = [y[1] for y in walk(a) if y[0] == "str"]
            rcv = strip(R.arg(bb, 0))
            if ks and any(y[0] == "agg" and y[1] == "closure" for y in walk(rcv)):
                keys[bb] = ks[0].strip('"')
    vb = ck.need("closure read_rule validator", F.body("parse::Parser::read_rule::{closure#0}"))
    accepted = sorted({s.strip('"') for s in Q.body_strings(F, vb) if s.startswith('"')})
    ck.ob("attr-tables", "validator-set", len(accepted) >= 9, "read_rule accepts the rule variables %s" % accepted, span=vb.loc, fn=vb.nname)
    used = sorted(set(keys.values()))
    ck.ob("attr-tables", "keys-accepted", set(used) <= set(accepted) and len(used) >= 9, "attribute keys looked up by add_build %s are all accepted in rule blocks" % used, span=b.loc, fn=b.nname)
    # field <- key
    want = {"cmdline": "command", "desc": "description", "depfile": "depfile", "pool": "pool", "hide_success": "hide_success", "hide_progress": "hide_progress", "parse_showincludes": "deps"}
    got = {}
    for bi in cfg.reach:
        for s in b.blocks[bi]["stmts"]:
            if s["k"] == "assign" and s["place"]["p"] and s["place"]["p"][-1]["k"] == "field" and norm(s["place"]["p"][-1].get("of", "")) == "graph::Build":
                f = s["place"]["p"][-1]["name"]
                e = R.stmt_rvalue(bi, s)
                ks = sorted({keys[c[3]] for c in calls_in(e) if c[3] in keys})
                got[f] = ks
                e_ = strip(e)
                direct = e_[0] == "call" and e_[3] in keys
                wrapped_ok = e_[0] == "call" and e_[1] == "std::option::Option::is_some" and strip(e_[2][0])[0] == "call" and strip(e_[2][0])[3] in keys
                if f in ("cmdline", "desc", "depfile", "pool") and not direct:
                    got[f] = ks + ["<modified: %s>" % show(e_, 1)]
                if f in ("hide_success", "hide_progress") and not wrapped_ok:
                    got[f] = ks + ["<modified: %s>" % show(e_, 1)]
    # parse_showincludes is control-dependent on the deps attribute: true exactly under == "msvc"
    deps_bb = [bb_ for bb_, k_ in keys.items() if k_ == "deps"]
    def pred_msvc(e):
        e = strip(e)
        return e[0] == "call" and e[1].endswith("str::traits::eq") or (e[0] == "call" and "eq" in e[1] and any(y == ("str", '"msvc"') for y in walk(e)))
    g_msvc = set()
    for sbb, st, e in Q.switches(ctx, b):
        e_ = strip(e)
        if e_[0] == "call" and any(y == ("str", '"msvc"') for y in walk(e_)) and any(c[3] in deps_bb for c in calls_in(e_)):
            g_msvc.add((sbb, Q.bool_edges(st)[0]))
    trues = [bi for bi in cfg.reach for s in b.blocks[bi]["stmts"] if s["k"] == "assign" and not s["place"]["p"] and b.local_name(s["place"]["l"]) == "parse_showincludes" and s["rv"]["k"] == "use" and s["rv"]["op"].get("int") == 1]
    ok_ps = bool(g_msvc) and bool(trues) and all(Q.gated(cfg, x, g_msvc)[0] for x in trues)
    # ... and that flag is what is stored in the Build
    stored = False
    for bi in cfg.reach:
        for s_ in b.blocks[bi]["stmts"]:
            if s_["k"] == "assign" and s_["place"]["p"] and s_["place"]["p"][-1]["k"] == "field" and s_["place"]["p"][-1]["name"] == "parse_showincludes" and norm(s_["place"]["p"][-1].get("of", "")) == "graph::Build":
                o = s_["rv"].get("op") if s_["rv"]["k"] == "use" else None
                if o is not None and o["k"] in ("copy", "move") and not o["place"]["p"]:
                    from .C01 import _copy_source
                    src_l = _copy_source(b, bi, o["place"]["l"])
                    stored = stored or b.local_name(src_l if src_l is not None else o["place"]["l"]) == "parse_showincludes"
    if ok_ps and stored:
        got["parse_showincludes"] = ["deps"]
    else:
        got.pop("parse_showincludes", None)
    for f, k in want.items():
        ck.ob("attr-tables", "field|%s" % f, got.get(f) == [k], "Build.%s is set from the `%s` attribute (%s)" % (f, k, got.get(f)), span=b.loc, fn=b.nname)
    ck.ob("attr-tables", "field|rspfile", got.get("rspfile") == ["rspfile", "rspfile_content"], "Build.rspfile is set from rspfile + rspfile_content (%s)" % got.get("rspfile"), span=b.loc, fn=b.nname)
    # RspFile{path: rspfile, content: rspfile_content}
    for _, bb, s in [x for x in Q.adt_constructors(F, "graph::RspFile") if x[0].nname == b.nname]:
        fields = F.struct_fields("graph::RspFile")
        pk = sorted({keys[c[3]] for c in calls_in(R.agg_op(bb, s, fields.index("path"))) if c[3] in keys})
        ckk = sorted({keys[c[3]] for c in calls_in(R.agg_op(bb, s, fields.index("content"))) if c[3] in keys})
        ck.ob("attr-tables", "rspfile-fields", pk == ["rspfile"] and ckk == ["rspfile_content"], "RspFile{path <- rspfile, content <- rspfile_content} (%s, %s)" % (pk, ckk), span=s.get("loc"), fn=b.nname)
    strs = Q.body_strings(F, b)
    ck.ob("attr-tables", "deps-values", all(any(v in s for s in strs) for v in ("gcc", "msvc")), "deps accepts gcc / msvc", span=b.loc, fn=b.nname)
    # unknown rule -> error
    ck.ob("attr-tables", "unknown-rule", any("unknown rule" in s for s in strs), "a build naming an undeclared rule is an error", span=b.loc, fn=b.nname)


def statements(ck, ctx):
    F = ctx.F
    b = ck.need("fn parse::Parser::read", F.body("parse::Parser::read"))
    R = ctx.res(b)
    cfg = ctx.cfg(b)
    cons = [x for x in Q.adt_constructors(F, "parse::Statement") if x[0].nname == b.nname]
    want = {"Rule": "parse::Parser::read_rule", "Build": "parse::Parser::read_build", "Default": "parse::Parser::read_default", "Pool": "parse::Parser::read_pool", "Include": "parse::Parser::read_eval", "Subninja": "parse::Parser::read_eval"}
    got = {}
    for _, bb, s in cons:
        e = R.agg_op(bb, s, 0)
        got[s["rv"]["variant"]] = sorted({c[1] for c in calls_in(e) if c[1].startswith("parse::Parser::read_")})
    for v, fn in want.items():
        ck.ob("statements", "variant|%s" % v, got.get(v) == [fn], "Statement::%s carries the result of %s (%s)" % (v, fn.split("::")[-1], got.get(v)), span=b.loc, fn=b.nname)
    # statement headers end with a newline that is consumed: the indented block of a rule/pool is read only after expect('\n')
    # succeeded, and `default` returns Ok only after it (otherwise the block is never attached / the next line is misread)
    from . import runloop as RL
    for fn, then in (("parse::Parser::read_rule", "parse::Parser::read_scoped_vars"), ("parse::Parser::read_pool", "parse::Parser::read_scoped_vars"), ("parse::Parser::read_default", None)):
        fb = ck.need("fn " + fn, F.body(fn))
        fcfg = ctx.cfg(fb)
        FR = ctx.res(fb)
        gates = set()
        for bb_, t_ in Q.sites_in(fb, "scanner::Scanner::expect"):
            if FR.arg(bb_, 1) == ("const", 10):
                tr = RL.try_of_call(ctx, fb, bb_)
                if tr:
                    gates.add((tr[0], tr[1]))
        if then:
            targets = [bb_ for bb_, _ in Q.sites_in(fb, then)]
        else:
            targets = [bb_ for bb_, s_, e_ in C.ok_return_blocks(ctx, fb)]
        ok = bool(gates) and bool(targets) and all(Q.gated(fcfg, x, gates)[0] for x in targets)
        if then:
            ids_ = [bb_ for bb_, _ in Q.sites_in(fb, "parse::Parser::read_ident")]
            nls_ = [bb_ for bb_, t_ in Q.sites_in(fb, "scanner::Scanner::expect") if FR.arg(bb_, 1) == ("const", 10)]
            ok = ok and len(ids_) == 1 and bool(nls_) and all(fcfg.dominates(ids_[0], x) for x in nls_)
        ck.ob("statements", "header-newline|%s" % fn.split("::")[-1], ok, "%s %s only after expect('\\n') succeeded" % (fn.split("::")[-1], "reads its indented block" if then else "returns Ok"), span=fb.loc, fn=fn)
        ck.functions.add(fn)
    # `$ ` `$$` `$:` stand for exactly the escaped character; `$`-newline stands for nothing
    eb = ck.need("fn parse::Parser::read_escape", F.body("parse::Parser::read_escape"))
    ER = ctx.res(eb)
    ecfg = ctx.cfg(eb)
    ck.functions.add(eb.nname)
    first_sw = None
    for sbb, st_, e_ in Q.switches(ctx, eb):
        if {32, 36, 58} <= {v for v, _ in st_["arms"]}:
            first_sw = (sbb, st_)
            break

    def first_slice_from(lab_value):
        tg = [x for v, x in first_sw[1]["arms"] if v == lab_value]
        seen_, work_ = set(), list(tg)
        while work_:
            y = work_.pop()
            if y in seen_:
                continue
            seen_.add(y)
            t_ = eb.blocks[y]["term"]
            if t_ and t_["k"] == "call":
                return (y, t_) if callee_of(t_) == "scanner::Scanner::slice" else (y, t_)
            work_ += [z for z, _ in ecfg.succ[y]]
        return None

    ok_esc = first_sw is not None
    det = {}
    if ok_esc:
        for ch in (32, 36, 58):
            r_ = first_slice_from(ch)
            good = False
            if r_ and callee_of(r_[1]) == "scanner::Scanner::slice":
                a1, a2 = strip(ER.arg(r_[0], 1)), strip(ER.arg(r_[0], 2))
                good = a1[0] == "bin" and a1[1] == "Sub" and a1[3] == ("const", 1) and field_chain(strip(a1[2]))[1][-1:] == ["ofs"] and field_chain(a2)[1][-1:] == ["ofs"] and a2[0] == "field"
            det[chr(ch)] = good
            ok_esc = ok_esc and good
        r_ = first_slice_from(10)
        nl_ok = False
        if r_:
            # `$\n`: leading spaces of the continuation are skipped, then an empty literal
            y_, t_ = r_
            if callee_of(t_) == "scanner::Scanner::skip_spaces":
                nxt_ = [z for z, _ in ecfg.succ[y_]]
                while nxt_ and not (eb.blocks[nxt_[0]]["term"] and eb.blocks[nxt_[0]]["term"]["k"] == "call"):
                    nxt_ = [z for z, _ in ecfg.succ[nxt_[0]]]
                if nxt_ and callee_of(eb.blocks[nxt_[0]]["term"]) == "scanner::Scanner::slice":
                    nl_ok = ER.arg(nxt_[0], 1) == ER.arg(nxt_[0], 2) and ER.arg(nxt_[0], 1)[0] == "const"
        det["\\n"] = nl_ok
        ok_esc = ok_esc and nl_ok
    ck.ob("statements", "escape-literals", ok_esc, "`$ ` `$$` `$:` yield Literal(slice(ofs-1, ofs)) = exactly the escaped character, `$`-newline skips the continuation's indentation and yields an empty literal (%s)" % det, span=eb.loc, fn=eb.nname)
    # `default` needs at least one path and accepts any positive number
    db_ = ck.need("fn parse::Parser::read_default", F.body("parse::Parser::read_default"))
    dcfg = ctx.cfg(db_)

    def pred_empty(e):
        e = strip(e)
        return e[0] == "call" and e[1].endswith("Vec::is_empty")

    g_e = set(C.bool_gate_edges(ctx, db_, pred_empty))
    z_, nz_ = C.zero_test_edges(ctx, db_, lambda e: e[0] == "call" and e[1].endswith("Vec::len"))
    g_e |= set(z_)
    g_ne = {(x, [l for l in Q.bool_edges(db_.blocks[x]["term"]) if l != lab][0]) for x, lab in g_e}
    perr = [bb_ for bb_, t_ in db_.calls() if callee_of(t_) == "scanner::Scanner::parse_error"]
    oks_ = [bb_ for bb_, s_, e_ in C.ok_return_blocks(ctx, db_)]
    ok_d = bool(g_e) and bool(perr) and all(Q.gated(dcfg, x, g_e)[0] for x in perr) and bool(oks_) and all(Q.gated(dcfg, x, g_ne)[0] for x in oks_)
    ck.ob("statements", "default-nonempty", ok_d, "read_default reports `expected path` exactly when no path was read and returns the list otherwise", span=db_.loc, fn=db_.nname)
    # keyword strings
    kws = sorted({s.strip('"') for s in Q.body_strings(F, b) if s.startswith('"') and s.strip('"').isalpha()})
    ck.ob("statements", "keywords", {"rule", "build", "default", "include", "subninja", "pool"} <= set(kws), "Parser::read dispatches on the keywords %s" % kws, span=b.loc, fn=b.nname)
    # each keyword's str comparison gates its own reader
    kwmap = {}
    for sbb, st, e in Q.switches(ctx, b):
        e_ = strip(e)
        if e_[0] == "call" and e_[1].endswith("str::traits::eq"):
            ks = [y[1].strip('"') for y in walk(e_) if y[0] == "str"]
            if ks:
                kwmap[ks[0]] = (sbb, Q.bool_edges(st)[0])
    pairs = {"rule": "parse::Parser::read_rule", "build": "parse::Parser::read_build", "default": "parse::Parser::read_default", "pool": "parse::Parser::read_pool"}
    for kw, fn in pairs.items():
        sites = Q.sites_in(b, fn)
        ok = kw in kwmap and len(sites) == 1 and Q.gated(cfg, sites[0][0], {kwmap[kw]})[0]
        ck.ob("statements", "keyword|%s" % kw, ok, "`%s` (and only it) leads to %s" % (kw, fn.split("::")[-1]), span=b.loc, fn=b.nname)
    for kw, var in (("include", "Include"), ("subninja", "Subninja")):
        blocks = [bb for _, bb, s in cons if s["rv"]["variant"] == var]
        ok = kw in kwmap and len(blocks) == 1 and Q.gated(cfg, blocks[0], {kwmap[kw]})[0]
        ck.ob("statements", "keyword|%s" % kw, ok, "`%s` (and only it) produces Statement::%s" % (kw, var), span=b.loc, fn=b.nname)
    # loader handles every statement variant
    pw = ck.need("fn load::Loader::parse_with_parser", F.body("load::Loader::parse_with_parser"))
    sw = [z for z in Q.enum_switches(ctx, pw) if z[3] == "parse::Statement"]
    ok = bool(sw) and all(v in sw[0][4] and sw[0][4][v] != "otherwise" for v in F.variants("parse::Statement"))
    ck.ob("statements", "loader-exhaustive", ok, "the loader has an explicit arm for every Statement variant", span=pw.loc, fn=pw.nname)
    pcfg = ctx.cfg(pw)
    PR = ctx.res(pw)
    if sw:
        x, t, scrut, adt, vmap = sw[0]
        for v, callee in (("Build", "load::Loader::add_build"), ("Default", "load::Loader::evaluate_paths")):
            sites = Q.sites_in(pw, callee)
            ok = any(Q.gated(pcfg, bb, {(x, vmap.get(v))})[0] for bb, _ in sites)
            ck.ob("statements", "loader-arm|%s" % v, ok, "Statement::%s is handled by %s" % (v, callee.split("::")[-1]), span=pw.loc, fn=pw.nname)
        # Rule: stored under its name with all vars
        ins = [(bb, tt) for bb, tt in pw.calls() if callee_of(tt).endswith("HashMap::insert")]
        ok = any(Q.gated(pcfg, bb, {(x, vmap.get("Rule"))})[0] and field_chain(strip(PR.arg(bb, 0)))[1][-1:] == ["rules"] for bb, tt in ins)
        ck.ob("statements", "loader-arm|Rule", ok, "Statement::Rule is stored in Loader.rules under its name", span=pw.loc, fn=pw.nname)


def spacing(ck, ctx):
    """"does not depend on spacing or placement of line continuations": between the tokens of a statement the parser skips blanks with
    Parser::skip_spaces, which also swallows `$`-newline; the scanner's spaces-only skipper is confined to the two places where a
    continuation cannot occur (the indent of a block line, which must start with a blank, and the leading blanks of the line after a
    continuation)."""
    F = ctx.F
    raw = "scanner::Scanner::skip_spaces"
    allowed = {"parse::Parser::read_scoped_vars": "indent of a block line (the loop tests peek() == ' ' first)",
               "parse::Parser::read_escape": "leading blanks of the line after `$`-newline"}
    sites = [(b, bb, t) for b, bb, t in F.view_call_sites(raw) if F.owner(b.nname).startswith("parse::")]
    fns = sorted({F.owner(b.nname) for b, _, _ in sites})
    ck.ob("spacing", "raw-skip-confined", set(fns) == set(allowed), "parse.rs calls the spaces-only skipper only from %s: %s" % (sorted(allowed), fns), span=raw)
    for b, bb, t in sites:
        o = F.owner(b.nname)
        if o not in allowed:
            ck.ob("spacing", "raw-skip<-%s" % o, False, "%s skips blanks with Scanner::skip_spaces: a `$`-newline continuation at this gap is not skipped" % o, span=t["loc"], fn=o)
    ck.floor("spaces-only skip sites in parse.rs", len(sites), 2)
    # the continuation-aware skipper really accepts `$` `\n`
    pb = ck.need("fn parse::Parser::skip_spaces", F.raw("parse::Parser::skip_spaces"))
    names = [callee_of(t) for _, t in pb.calls()]
    ck.ob("spacing", "skip_spaces|continuation", any(n.endswith("Scanner::skip") for n in names) and any(n.endswith("Scanner::peek") for n in names) and any(n.endswith("Scanner::back") for n in names),
          "Parser::skip_spaces peeks after `$`, consumes the newline with skip, and steps back otherwise", span=pb.loc, fn=pb.nname)
    ck.functions.add(pb.nname)


def run(ck, ctx):
    spacing(ck, ctx)
    C.adapter_census(ck, ctx, "mapping", ("parse::", "load::", "graph::", "eval::"))
    n = byte_classes(ck, ctx)
    ck.floor("byte-dispatch sites in parse.rs", n, 13)
    counts(ck, ctx)
    mapping(ck, ctx)
    ACC.accessors(ck, ctx)
    attr_tables(ck, ctx)
    statements(ck, ctx)
    R13.wrapper(ck, ctx)
    # "the declared command, description, depfile, rspfile": rule attributes are expanded against $in/$out first, then the build block, then the file
    R11.chains(ck, ctx)


def run_config(ck, ctx):
    byte_classes(ck, ctx)
    counts(ck, ctx)
