"""Rules over check_build_dirty / hash / record_finished shared by C02, C03, C09."""
from n2sa import query as Q
from n2sa.expr import strip, show, field_chain, alts, calls_in, walk
from n2sa.facts import callee_of, norm
from . import common as C

CBD = "work::Work::check_build_dirty"
CBFM = "work::Work::check_build_files_missing"
EIF = "work::Work::ensure_input_files"
SAO = "work::Work::stat_all_outputs"
RF = "work::Work::record_finished"
HB = "hash::hash_build"
BM = "hash::build_manifest"


def _is_builds_index(e, idname=None):
    e = strip(e)
    if e[0] == "call" and e[1].endswith("Index<K>>::index"):
        base, names = field_chain(strip(e[2][0]))
        if names[-1:] == ["builds"]:
            i = strip(e[2][1])
            return idname is None or (i[0] == "param" and i[2] == idname)
    return False


def decision(ck, ctx, rule_skip="skip-needs-hash", rule_dirty="dirty-only-if"):
    """check_build_dirty: Ok(false) only for phony or (nothing missing & record present & hash equal);
    Ok(true) only for missing / no record / hash mismatch."""
    F = ctx.F
    b = ck.need("fn " + CBD, F.body(CBD))
    cfg = ctx.cfg(b)
    R = ctx.res(b)
    ck.functions.add(b.nname)

    def pred_phony(e):
        e = strip(e)
        if e[0] == "call" and e[1] == "std::option::Option::is_none":
            base, names = field_chain(strip(e[2][0]))
            return names[-1:] == ["cmdline"] and _is_builds_index(base, "id")
        return False

    g_phony = C.bool_gate_edges(ctx, b, pred_phony)
    none_missing, some_missing = C.option_edges(ctx, b, lambda s: C.from_try_of(s, CBFM))
    none_hash, some_hash = C.option_edges(ctx, b, lambda s: s[0] == "call" and s[1] == "graph::Hashes::get" and field_chain(strip(s[2][0]))[1][-1:] == ["last_hashes"] and strip(s[2][1])[0] == "param")

    def pred_ne(e):
        e = strip(e)
        if e[0] != "call" or not (e[1].endswith("::ne") or e[1].endswith("::eq")):
            return False
        a, c = strip(e[2][0]), strip(e[2][1])
        for x, y in ((a, c), (c, a)):
            hx = x[0] == "call" and x[1] == HB
            py = y[0] == "field" and y[2] == "0" and any(cc[1] == "graph::Hashes::get" for cc in calls_in(y))
            if hx and py:
                # hash_build over the same build, current file_state
                be = strip(x[2][2])
                fs = field_chain(strip(x[2][1]))[1][-1:]
                fl = field_chain(strip(x[2][0]))[1][-2:]
                if _is_builds_index(be, "id") and fs == ["file_state"] and fl == ["graph", "files"]:
                    return True if e[1].endswith("::ne") else "neg"
        return False

    g_ne = C.bool_gate_edges(ctx, b, pred_ne)  # edges where hash != prev
    g_eq = {(x, [l for l in Q.bool_edges(b.blocks[x]["term"]) if l != lab][0]) for x, lab in g_ne}
    oks = C.ok_return_blocks(ctx, b)
    falses = [(bb, s) for bb, s, e in oks if e == ("const", 0)]
    trues = [(bb, s) for bb, s, e in oks if e == ("const", 1)]
    other = [(bb, s, e) for bb, s, e in oks if e not in (("const", 0), ("const", 1))]
    ck.floor("Ok(false) returns in check_build_dirty", len(falses), 2)
    ck.floor("Ok(true) returns in check_build_dirty", len(trues), 3)
    ck.ob(rule_skip, "constant-verdicts", not other, "check_build_dirty returns only constant verdicts (others: %s)" % [show(e, 2) for _, _, e in other], span=b.loc, fn=b.nname)
    ck.ob(rule_skip, "anchors", bool(g_phony) and bool(none_missing) and bool(some_hash) and bool(g_eq), "gates found: phony %s, nothing-missing %s, record-present %s, hash-equal %s" % (sorted(g_phony), sorted(none_missing), sorted(some_hash), sorted(g_eq)), span=b.loc, fn=b.nname)
    for i, (bb, s) in enumerate(falses):
        if Q.gated(cfg, bb, g_phony)[0]:
            # phony: must have stat'ed outputs (invariant) - the phony helper dominates
            ph = Q.sites_in(b, "work::Work::check_build_files_missing_phony")
            ck.ob(rule_skip, "not-dirty#%d|phony" % i, bool(ph) and all(cfg.dominates(p, bb) for p, _ in ph), "Ok(false) for a phony step (cmdline is None), after its outputs were stat'ed", span=s.get("loc"), fn=b.nname)
            continue
        a = Q.gated(cfg, bb, none_missing)[0]
        h = Q.gated(cfg, bb, some_hash)[0]
        q = Q.gated(cfg, bb, g_eq)[0]
        ck.ob(rule_skip, "not-dirty#%d|hash-equal" % i, a and h and q, "Ok(false) for a non-phony step requires: nothing missing (%s), a recorded hash (%s), and hash_build(current state) == recorded (%s)" % (a, h, q), span=s.get("loc"), fn=b.nname)
    for i, (bb, s) in enumerate(trues):
        why = []
        if Q.gated(cfg, bb, some_missing)[0]:
            why.append("file missing")
        if Q.gated(cfg, bb, none_hash)[0]:
            why.append("no record")
        if Q.gated(cfg, bb, g_ne)[0]:
            why.append("hash differs")
        ck.ob(rule_dirty, "dirty#%d" % i, len(why) >= 1, "Ok(true) is returned only because: %s" % (why or "NO RECOGNISED REASON"), span=s.get("loc"), fn=b.nname)
    # the non-phony branch always consults check_build_files_missing on builds[id]
    for bb, t in Q.sites_in(b, CBFM):
        be = R.arg(bb, 2)
        ck.ob(rule_skip, "files-missing-on-own-build", _is_builds_index(be, "id"), "check_build_files_missing examines graph.builds[id] (%s)" % show(strip(be), 2), span=t["loc"], fn=b.nname)
    return b


def files_missing(ck, ctx, rule="missing-is-dirty"):
    F = ctx.F
    b = ck.need("fn " + CBFM, F.body(CBFM))
    cfg = ctx.cfg(b)
    R = ctx.res(b)
    ck.functions.add(b.nname)
    eif = Q.sites_in(b, EIF)
    sao = Q.sites_in(b, SAO)
    ck.floor("ensure_input_files sites in check_build_files_missing", len(eif), 2)
    ck.floor("stat_all_outputs sites in check_build_files_missing", len(sao), 1)
    srcs = []
    for bb, t in eif:
        e = strip(R.arg(bb, 3))
        src = sorted(c[1] for c in calls_in(e) if c[1].startswith("graph::Build::"))
        srcs.append(src)
        be = strip(R.arg(bb, 2))
        ck.ob(rule, "ensure@%s|own-build" % "+".join(src), be[0] == "param" and all(strip(c[2][0]) == be for c in calls_in(e) if c[1].startswith("graph::Build::")), "ensure_input_files(%s) over the build parameter" % src, span=t["loc"], fn=b.nname)
    ck.ob(rule, "categories", sorted(map(tuple, srcs)) == [("graph::Build::dirtying_ins",), ("graph::Build::discovered_ins",)], "input categories examined for missing files: %s (need dirtying_ins and discovered_ins)" % srcs, span=b.loc, fn=b.nname)
    # Ok(None) only when all three checks said None
    none_edges_all = []
    for bb, t in eif + sao:
        ne, se = C.option_edges(ctx, b, lambda s, bb=bb, t=t: C.from_try_of(s, callee_of(t), bb))
        none_edges_all.append((callee_of(t), bb, ne, se))
    for i, (bb, s, e) in enumerate(C.ok_return_blocks(ctx, b)):
        e_ = strip(e)
        if e_[0] == "agg" and e_[3] == "None":
            ok = all(Q.gated(cfg, bb, ne)[0] for _, _, ne, _ in none_edges_all)
            ck.ob(rule, "all-present#%d" % i, ok, "Ok(None) (`all files accounted for`) requires the None answer of every missing-file check (%d checks)" % len(none_edges_all), span=s.get("loc"), fn=b.nname)
    # a Some answer never falls through to Ok(None)
    nones = [bb for bb, s, e in C.ok_return_blocks(ctx, b) if strip(e)[0] == "agg" and strip(e)[3] == "None"]
    for cal, cbb, ne, se in none_edges_all:
        starts = [t for (x, lab) in se for t in cfg.edge_targets(x, lab)]
        r = cfg.reach_avoid(starts)
        ck.ob(rule, "some-is-reported|%s@bb%d" % (cal.split("::")[-1], 0 if not eif else [z[1] for z in none_edges_all].index(cbb)), bool(se) and not any(n in r for n in nones), "a missing file found by %s cannot end in Ok(None)" % cal, span=b.loc, fn=b.nname)
    # error only for a missing *source* among declared dirtying inputs
    errs = C.err_return_blocks(ctx, b)
    for i, (bb, s) in enumerate(errs):
        d_se = [se for cal, cbb, ne, se in none_edges_all if cal == EIF and "graph::Build::dirtying_ins" in C.iter_source_calls(R.arg(cbb, 3))]
        ok = bool(d_se) and Q.gated(cfg, bb, d_se[0])[0]
        def pred_src(e):
            e = strip(e)
            return e[0] == "call" and e[1] == "std::option::Option::is_none" and field_chain(strip(e[2][0]))[1][-1:] == ["input"]
        g_src = C.bool_gate_edges(ctx, b, pred_src)
        ok2 = Q.gated(cfg, bb, g_src)[0]
        ck.ob(rule, "error-only-for-missing-source#%d" % i, ok and ok2, "the `input ... missing` error is raised only for a declared dirtying input that is missing and has no producer", span=s.get("loc"), fn=b.nname)
    ck.extra["missing_file_errors"] = len(errs)
    return none_edges_all


def ensure_and_stat(ck, ctx, rule="missing-is-dirty"):
    """ensure_input_files: Missing => Ok(Some(id)); Ok(None) only at exhaustion.  stat_all_outputs: stats every output."""
    F = ctx.F
    b = ck.need("fn " + EIF, F.body(EIF))
    cfg = ctx.cfg(b)
    R = ctx.res(b)
    ck.functions.add(b.nname)

    def pred_missing(e):
        e = strip(e)
        if e[0] == "call" and (e[1].endswith("MTime as std::cmp::PartialEq>::eq") or e[1].endswith("::ne")):
            for y in (strip(e[2][0]), strip(e[2][1])):
                if y[0] == "promoted" and y[2] == ("enum", "graph::MTime", "Missing"):
                    return "neg" if e[1].endswith("::ne") else True
        return False

    g_missing = C.bool_gate_edges(ctx, b, pred_missing)
    g_present = {(x, [l for l in Q.bool_edges(b.blocks[x]["term"]) if l != lab][0]) for x, lab in g_missing}
    oks = C.ok_return_blocks(ctx, b)
    somes = [(bb, s, e) for bb, s, e in oks if strip(e)[0] == "agg" and strip(e)[3] == "Some"]
    nones = [(bb, s, e) for bb, s, e in oks if strip(e)[0] == "agg" and strip(e)[3] == "None"]
    it_none, it_some = C.option_edges(ctx, b, lambda s: s[0] == "call" and s[1].endswith("Iterator>::next"))
    ck.ob(rule, "ensure|none-at-exhaustion", bool(nones) and all(Q.gated(cfg, bb, it_none)[0] for bb, _, _ in nones), "ensure_input_files returns Ok(None) only when every id was examined", span=b.loc, fn=b.nname)
    # from the Some(id) arm the next iteration is reached only through `mtime != Missing`
    hdrs = {cfg.enclosing_loop_header(x) for x, _ in it_some}
    starts = [t for (x, lab) in it_some for t in cfg.edge_targets(x, lab)]
    r = cfg.reach_avoid(starts, avoid_edges=g_present)
    tries = C.try_err_edges(ctx, b)
    ck.ob(rule, "ensure|missing-stops", bool(g_missing) and not (hdrs & r) and not any(bb in r for bb, _, _ in nones), "for each id the loop continues only when its mtime is not Missing (present edges %s)" % sorted(g_present), span=b.loc, fn=b.nname)
    ck.ob(rule, "ensure|missing-reported", bool(somes) and all(Q.gated(cfg, bb, g_missing)[0] for bb, _, _ in somes), "Ok(Some(id)) is returned on the Missing edge", span=b.loc, fn=b.nname)
    # mtime is the cached state or a fresh stat of that id
    for x, lab in g_missing:
        e = R.discr(x)
        ok = any(c[1] == "graph::FileState::get" for c in calls_in(e)) and any(c[1] == "graph::FileState::stat" for c in calls_in(e))
        ck.ob(rule, "ensure|mtime-source", ok, "the examined mtime is file_state.get(id) or, if absent, file_state.stat(id)", span=b.loc, fn=b.nname)
    # iterates its ids parameter
    for x, lab in it_some:
        e = strip(R.discr(x))
        ck.ob(rule, "ensure|iterates-param", any(y[0] == "param" and y[2] == "ids" for y in walk(e)), "ensure_input_files iterates its `ids` parameter", span=b.loc, fn=b.nname)
    # stat_all_outputs
    sb = ck.need("fn " + SAO, F.body(SAO))
    scfg = ctx.cfg(sb)
    SR = ctx.res(sb)
    ck.functions.add(sb.nname)
    stats = Q.sites_in(sb, "graph::FileState::stat")
    ck.floor("FileState::stat in stat_all_outputs", len(stats), 1)
    for i, (bb, t) in enumerate(stats):
        ide = SR.arg(bb, 1)
        src = C.iter_source_calls(ide)
        ck.ob(rule, "stat_all_outputs|all-outs#%d" % i, "graph::Build::outs" in src and "graph::Build::explicit_outs" not in src, "stat_all_outputs stats every id of build.outs()", span=t["loc"], fn=sb.nname)
        pe = SR.arg(bb, 2)
        okp = any(c[1] == "graph::File::path" for c in calls_in(pe)) and any(c[1] == "graph::Graph::file" and strip(c[2][1]) == strip(ide) for c in calls_in(pe))
        ck.ob(rule, "stat_all_outputs|path-of-id#%d" % i, okp, "the path stat'ed is graph.file(id).path() of the same id", span=t["loc"], fn=sb.nname)
        bad = C.loop_no_early_exit(ctx, sb, bb)
        ck.ob(rule, "stat_all_outputs|no-early-exit#%d" % i, bad == [], "the loop over outputs has no early exit (%s)" % bad, span=t["loc"], fn=sb.nname)
        it_none2, it_some2 = C.option_edges(ctx, sb, lambda s: s[0] == "call" and s[1].endswith("Iterator>::next"))
        starts = [tt for (x, lab) in it_some2 for tt in scfg.edge_targets(x, lab)]
        r = scfg.reach_avoid(starts, avoid_blocks=[bb])
        ck.ob(rule, "stat_all_outputs|unconditional#%d" % i, scfg.enclosing_loop_header(bb) not in r, "every iteration performs the stat", span=t["loc"], fn=sb.nname)
    # returns Some(missing) when some output is Missing: the `missing = Some(id)` assignment is on the Missing edge
    g_m2 = C.bool_gate_edges(ctx, sb, pred_missing)
    some_assign = [bi for bi in scfg.reach for s in sb.blocks[bi]["stmts"] if s["k"] == "assign" and s["rv"]["k"] == "agg" and s["rv"]["variant"] == "Some" and norm(s["rv"]["name"]) == "std::option::Option"]
    ck.ob(rule, "stat_all_outputs|reports-missing", bool(g_m2) and bool(some_assign) and all(Q.gated(scfg, x, g_m2)[0] for x in some_assign), "Some(id) is produced exactly on the `mtime == Missing` edge", span=sb.loc, fn=sb.nname)
    # FileState::stat always stats and stores
    fb = ck.need("fn graph::FileState::stat", F.body("graph::FileState::stat"))
    fcfg = ctx.cfg(fb)
    st_calls = Q.sites_in(fb, "graph::stat")
    sg = [(bb, t) for bb, t in fb.calls() if callee_of(t).endswith("DenseMap::set_grow")]
    ok = len(st_calls) == 1 and len(sg) == 1 and fcfg.dominates(st_calls[0][0], sg[0][0])
    FR = ctx.res(fb)
    if ok:
        v = strip(FR.arg(sg[0][0], 2))
        ok = v[0] == "agg" and v[3] == "Some" and any(c[1] == "graph::stat" for c in calls_in(v))
    ok = ok and all(fcfg.dominates(st_calls[0][0], bb_) for bb_, _, _ in C.ok_return_blocks(ctx, fb))
    ck.ob(rule, "FileState::stat|stores-fresh", ok, "FileState::stat performs a real stat and stores Some(mtime) for the id", span=fb.loc, fn=fb.nname)
    C.single_writer(ck, ctx, rule, "graph::FileState", "0", ["graph::FileState::stat"])
    # graph::stat: NotFound -> Missing, Ok -> Stamp(modified)
    gb = ck.need("fn graph::stat", F.body("graph::stat"))
    cons = [(s["rv"]["variant"], bb) for b2, bb, s in Q.adt_constructors(F, "graph::MTime") if b2.nname == gb.nname]
    gcfg = ctx.cfg(gb)
    def pred_nf(e):
        e = strip(e)
        if e[0] == "call" and e[1].endswith("ErrorKind as std::cmp::PartialEq>::eq"):
            return any(y[0] == "promoted" and y[2] == ("enum", "std::io::ErrorKind", "NotFound") for y in e[2])
        return False
    g_nf = C.bool_gate_edges(ctx, gb, pred_nf)
    okm = any(v == "Missing" and Q.gated(gcfg, bb, g_nf)[0] for v, bb in cons) and any(v == "Stamp" for v, bb in cons)
    # what is stat'ed is the file the path *denotes* (symlinks followed), its modification time, for the path given
    GR = ctx.res(gb)
    meta = [(bb, t) for bb, t in gb.calls() if callee_of(t).startswith("std::fs::") and "metadata" in callee_of(t)]
    okf = len(meta) == 1 and callee_of(meta[0][1]) == "std::fs::metadata" and strip(GR.arg(meta[0][0], 0))[0] == "param"
    times = [callee_of(t).split("::")[-1] for _, t in gb.calls() if callee_of(t).startswith("std::fs::Metadata::")]
    ck.ob(rule, "graph::stat|follows-links-mtime", okf and times == ["modified"], "graph::stat reads std::fs::metadata(path).modified() of its path argument: symlinks are followed, the time is the content's modification time (calls: %s, %s)" % ([callee_of(t) for _, t in meta], times), span=gb.loc, fn=gb.nname)
    ck.ob(rule, "graph::stat|missing-iff-notfound", okm and sum(1 for v, _ in cons if v == "Missing") == 1, "graph::stat yields Missing only for ErrorKind::NotFound and Stamp(modified) otherwise (%s)" % cons, span=gb.loc, fn=gb.nname)


def hash_covers(ck, ctx, rule="hash-covers", rule_excl="hash-excludes"):
    F = ctx.F
    b = ck.need("fn " + BM, F.body(BM))
    cfg = ctx.cfg(b)
    R = ctx.res(b)
    ck.functions.add(b.nname)
    seq = []
    for bb, t in b.calls():
        c = callee_of(t)
        if c.startswith("hash::Manifest::"):
            m = c.split("::")[-1]
            if m == "write_files":
                e = strip(R.arg(bb, 4))
                src = sorted(cc[1] for cc in calls_in(e) if cc[1].startswith("graph::Build::"))
                raw = field_chain(e)[1]
                own = all(strip(cc[2][0])[0] == "param" and strip(cc[2][0])[2] == "build" for cc in calls_in(e) if cc[1].startswith("graph::Build::"))
                seq.append((m, src[0] if len(src) == 1 and own else "?%s%s" % (src, raw), bb, t))
            elif m == "write_cmdline":
                e = strip(R.arg(bb, 1))
                ok = any(field_chain(strip(y))[1][-1:] == ["cmdline"] for y in walk(e) if y[0] == "field")
                seq.append((m, "cmdline" if ok else "?" + show(e, 2), bb, t))
            elif m == "write_rsp":
                e = strip(R.arg(bb, 1))
                ok = "rspfile" in field_chain(e)[1]
                seq.append((m, "rspfile" if ok else "?" + show(e, 2), bb, t))
            else:
                seq.append((m, "?", bb, t))
    got = [(m, a) for m, a, _, _ in seq]
    need = {("write_files", "graph::Build::dirtying_ins"), ("write_files", "graph::Build::discovered_ins"), ("write_cmdline", "cmdline"), ("write_rsp", "rspfile"), ("write_files", "graph::Build::outs")}
    for n in sorted(need):
        hits = [(m, a, bb, t) for m, a, bb, t in seq if (m, a) == n]
        ok = len(hits) == 1
        if ok and n[0] != "write_rsp":
            ok = all(cfg.dominates(hits[0][2], r) for r in cfg.returns())
        if ok and n[0] == "write_rsp":
            ne, se = C.option_edges(ctx, b, lambda s: "rspfile" in field_chain(s)[1])
            # taken exactly when rspfile is Some: gated by Some edge, and the Some edge cannot bypass it
            starts = [tt for (x, lab) in se for tt in cfg.edge_targets(x, lab)]
            r = cfg.reach_avoid(starts, avoid_blocks=[hits[0][2]])
            ok = Q.gated(cfg, hits[0][2], se)[0] and not (set(cfg.returns()) & r)
        ck.ob(rule, "%s(%s)" % n, ok, "build_manifest feeds %s of %s into the manifest %s" % (n[0], n[1], "(iff rspfile is Some)" if n[0] == "write_rsp" else "on every path"), span=hits[0][3]["loc"] if hits else b.loc, fn=b.nname)
    extra = [g for g in got if g not in need]
    ck.ob(rule_excl, "nothing-else", not extra, "build_manifest feeds nothing but the five declared categories (extra: %s)" % extra, span=b.loc, fn=b.nname)
    # sections are delimited: after the ids of a list, and after the command line, a separator byte goes into the hash on every path
    # (otherwise moving a name between adjacent categories, or bytes between the command and what follows, would not change it)
    ws = F.body("hash::TerseHash::write_separator")
    okw = False
    if ws is not None:
        WS = ctx.res(ws)
        wcs = [(bb, t) for bb, t in ws.calls() if callee_of(t).endswith("Hasher>::write_u8") or callee_of(t).endswith("Hasher::write_u8") or callee_of(t).endswith("::write_u8")]
        okw = len(wcs) == 1 and all(ctx.cfg(ws).dominates(wcs[0][0], r) for r in ctx.cfg(ws).returns()) and WS.arg(wcs[0][0], 1)[0] == "const"
        ck.functions.add(ws.nname)
    ck.ob(rule, "separator|writes-a-byte", okw, "TerseHash::write_separator feeds one constant byte into the hasher on every path", span=ws.loc if ws else None, fn="hash::TerseHash::write_separator")
    for meth in ("write_files", "write_cmdline"):
        mb = F.body("<hash::TerseHash as hash::Manifest>::%s" % meth)
        oks = False
        if mb is not None:
            mcfg = ctx.cfg(mb)
            seps = [bb for bb, t in mb.calls() if callee_of(t) == "hash::TerseHash::write_separator"]
            oks = len(seps) == 1 and mcfg.enclosing_loop_header(seps[0]) is None and all(mcfg.dominates(seps[0], r) for r in mcfg.returns())
            # ... and it comes last
            if oks:
                after = mcfg.reach_avoid([y for y, _ in mcfg.succ[seps[0]]])
                oks = not any(mb.blocks[y]["term"] and mb.blocks[y]["term"]["k"] == "call" and callee_of(mb.blocks[y]["term"]).startswith(("hash::", "std::hash", "<")) and "drop" not in callee_of(mb.blocks[y]["term"]) for y in after)
        ck.ob(rule, "separator|after-%s" % meth, oks, "TerseHash::%s ends its section with write_separator() on every path" % meth, span=mb.loc if mb else None, fn="<hash::TerseHash as hash::Manifest>::%s" % meth)
    # per-file content: name and mtime of every id
    for impl in ("hash::TerseHash", "hash::ExplainHash"):
        wf = F.body("<%s as hash::Manifest>::write_files" % impl)
        if wf is None:
            ck.ob("anchor", impl + "::write_files", False, "anchor-missing", nontrivial=False)
            continue
        wcfg = ctx.cfg(wf)
        WR = ctx.res(wf)
        ck.functions.add(wf.nname)
        gs = Q.sites_in(wf, "hash::get_fileid_status")
        ok = len(gs) == 1
        if ok:
            bb, t = gs[0]
            ide = WR.arg(bb, 2)
            ok = any(y[0] == "param" and y[2] == "ids" for y in walk(ide)) and C.loop_no_early_exit(ctx, wf, bb) == []
            it_none, it_some = C.option_edges(ctx, wf, lambda s: s[0] == "call" and s[1].endswith("Iterator>::next"))
            starts = [tt for (x, lab) in it_some for tt in wcfg.edge_targets(x, lab)]
            ok = ok and wcfg.enclosing_loop_header(bb) not in wcfg.reach_avoid(starts, avoid_blocks=[bb])
        ck.ob(rule, "%s::write_files|every-id" % impl, ok, "%s::write_files obtains (name, mtime) for every id of its slice, no early exit" % impl, span=wf.loc, fn=wf.nname)
        if impl == "hash::TerseHash" and gs:
            bb, t = gs[0]
            hdr = wcfg.enclosing_loop_header(bb)
            loop = wcfg.natural_loop(hdr) if hdr is not None else set()
            name_h = [x for x, tt in wf.calls() if x in loop and callee_of(tt) == "hash::TerseHash::write_string" and strip(WR.arg(x, 1)) == ("field", strip(("call",) + tuple(strip(WR.call_expr(t, bb, WR.term_at(bb)))[1:])), "0")]
            name_h = [x for x, tt in wf.calls() if x in loop and callee_of(tt) == "hash::TerseHash::write_string" and any(c[1] == "hash::get_fileid_status" for c in calls_in(WR.arg(x, 1))) and field_chain(strip(WR.arg(x, 1)))[1][-1:] == ["0"]]
            mt_h = [x for x, tt in wf.calls() if x in loop and callee_of(tt).endswith("SystemTime as std::hash::Hash>::hash") and field_chain(strip(WR.arg(x, 0)))[1][-1:] == ["1"] and any(c[1] == "hash::get_fileid_status" for c in calls_in(WR.arg(x, 0)))]
            okh = len(name_h) == 1 and len(mt_h) == 1 and all(wcfg.dominates(bb, x) for x in name_h + mt_h)
            starts = [y for y, _ in wcfg.succ[bb]]
            okh = okh and hdr not in wcfg.reach_avoid(starts, avoid_blocks=name_h) and hdr not in wcfg.reach_avoid(starts, avoid_blocks=mt_h)
            ck.ob(rule, "TerseHash::write_files|name-and-mtime", okh, "each id contributes write_string(name) and SystemTime::hash(mtime) to the hasher", span=wf.loc, fn=wf.nname)
    # get_fileid_status reads name and mtime of the id
    gb = ck.need("fn hash::get_fileid_status", F.body("hash::get_fileid_status"))
    GR = ctx.res(gb)
    okg = False
    for bb, s in Q.ret_assignments(gb):
        if "rv" in s and s["rv"]["k"] == "agg" and s["rv"]["ak"] == "tuple":
            n = strip(GR.agg_op(bb, s, 0))
            m = strip(GR.agg_op(bb, s, 1))
            okn = any(field_chain(strip(y))[1][-1:] == ["name"] for y in walk(n) if y[0] == "field") and any(c[1].endswith("Index<K>>::index") and strip(c[2][1])[0] == "param" for c in calls_in(n))
            okm = any(c[1] == "graph::FileState::get" and strip(c[2][1])[0] == "param" for c in calls_in(m)) and any(y[0] == "downcast" and y[2] == "Stamp" for y in walk(m))
            okg = okn and okm
    ck.ob(rule, "get_fileid_status", okg, "get_fileid_status returns (files.by_id[id].name, Stamp payload of file_state.get(id))", span=gb.loc, fn=gb.nname)
    # cmdline / rsp writers
    wc = F.body("<hash::TerseHash as hash::Manifest>::write_cmdline")
    if wc is not None:
        WR = ctx.res(wc)
        ok = any(callee_of(t) == "hash::TerseHash::write_string" and strip(WR.arg(bb, 1))[0] == "param" for bb, t in wc.calls())
        ck.ob(rule, "TerseHash::write_cmdline", ok, "write_cmdline hashes its cmdline parameter", span=wc.loc, fn=wc.nname)
    wr = F.body("<hash::TerseHash as hash::Manifest>::write_rsp")
    if wr is not None:
        WR = ctx.res(wr)
        ok = any(callee_of(t) == "<graph::RspFile as std::hash::Hash>::hash" and strip(WR.arg(bb, 0))[0] == "param" for bb, t in wr.calls())
        ck.ob(rule, "TerseHash::write_rsp", ok, "write_rsp hashes the RspFile", span=wr.loc, fn=wr.nname)
    rh = F.body("<graph::RspFile as std::hash::Hash>::hash")
    fields = F.struct_fields("graph::RspFile")
    if rh is not None and fields is not None:
        RR = ctx.res(rh)
        hashed = set()
        for bb, t in rh.calls():
            if callee_of(t).endswith("std::hash::Hash>::hash"):
                hashed.update(field_chain(strip(RR.arg(bb, 0)))[1][-1:])
        ck.ob(rule, "RspFile-hash-fields", hashed == set(fields) and {"path", "content"} <= set(fields), "RspFile's Hash covers fields %s of %s" % (sorted(hashed), fields), span=rh.loc, fn=rh.nname)
    else:
        ck.ob("anchor", "RspFile Hash impl", False, "anchor-missing: <graph::RspFile as Hash>::hash", nontrivial=False)
    ws = F.body("hash::TerseHash::write_string")
    if ws is not None:
        WR = ctx.res(ws)
        ok = any(strip(WR.arg(bb, 0))[0] == "param" and field_chain(strip(WR.arg(bb, 1)))[1][-1:] == ["0"] for bb, t in ws.calls() if "hash" in callee_of(t))
        ck.ob(rule, "TerseHash::write_string", ok, "write_string hashes its string parameter into the hasher", span=ws.loc, fn=ws.nname)
    # hash_build wires the pieces
    hb = ck.need("fn " + HB, F.body(HB))
    HR = ctx.res(hb)
    okw = False
    for bb, t in Q.sites_in(hb, BM):
        a = [strip(HR.arg(bb, i)) for i in range(4)]
        okw = a[0][0] == "call" and "TerseHash" in a[0][1] and [x[2] if x[0] == "param" else None for x in a[1:]] == ["files", "file_state", "build"]
    rets = ctx.cfg(hb).returns()
    e = strip(HR.local(0, HR.term_at(rets[0]))) if rets else ("unk",)
    okw = okw and e[0] == "call" and e[1] == "hash::TerseHash::finish"
    ck.ob(rule, "hash_build-wiring", okw, "hash_build = TerseHash::default -> build_manifest(files, file_state, build) -> finish", span=hb.loc, fn=hb.nname)
    fb = F.body("hash::TerseHash::finish")
    if fb is not None:
        FR = ctx.res(fb)
        e = strip(FR.local(0, FR.term_at(ctx.cfg(fb).returns()[0])))
        ck.ob(rule, "TerseHash::finish", e[0] == "agg" and e[2] == "hash::BuildHash" and any(c[1].endswith("Hasher>::finish") for c in calls_in(e)), "finish wraps Hasher::finish() of the same hasher", span=fb.loc, fn=fb.nname)


def hash_types(ck, ctx, rule="hash-types"):
    """types hashed under impl Manifest for TerseHash: names, mtimes, text only"""
    F = ctx.F
    fns = [n for n in F.bodies if n.startswith("<hash::TerseHash as hash::Manifest>::") or n.startswith("hash::TerseHash::")]
    fns.append("<graph::RspFile as std::hash::Hash>::hash")
    seen = {}
    for n in fns:
        b = F.body(n)
        if b is None or b.kind == "promoted":
            continue
        for bb, t in b.calls():
            c = callee_of(t)
            raw = t["callee"]
            if ("hash" in c.lower() and ("Hash>::hash" in c or "impls::hash" in c or "Hasher" in c)) and not c.startswith("hash::"):
                ty = b.locals[t["args"][0]["place"]["l"]]["s"] if t["args"] and t["args"][0]["k"] in ("copy", "move") else "?"
                seen.setdefault(c, set()).add(ty)
    allowed_callees = {
        "core::hash::impls::hash", "<std::time::SystemTime as std::hash::Hash>::hash", "<graph::RspFile as std::hash::Hash>::hash",
        "<std::path::PathBuf as std::hash::Hash>::hash", "<std::string::String as std::hash::Hash>::hash", "std::hash::Hasher::write_u8",
        "<std::hash::DefaultHasher as std::hash::Hasher>::write_u8", "<std::hash::DefaultHasher as std::hash::Hasher>::finish", "std::hash::Hasher::finish",
    }
    bad = sorted(set(seen) - allowed_callees)
    ck.ob(rule, "instantiations", not bad and len(seen) >= 4, "hash instantiations under TerseHash: %s; unexpected: %s" % (sorted(seen), bad), span="hash::TerseHash")
    # core::hash::impls::hash must be the str impl
    strs = seen.get("core::hash::impls::hash", set())
    ck.ob(rule, "str-only", all(s in ("&str", "&&str") for s in strs), "core::hash::impls::hash is applied to %s" % sorted(strs), span="hash::TerseHash")
    ck.extra["hash_instantiations"] = {k: sorted(v) for k, v in seen.items()}


def record_discipline(ck, ctx, rule="record-discipline"):
    F = ctx.F
    sites = C.callers_exact(ck, ctx, rule, "db::Writer::write_build", [RF], floor=1)
    b = ck.need("fn " + RF, F.body(RF))
    cfg = ctx.cfg(b)
    R = ctx.res(b)
    ck.functions.add(b.nname)
    sao = Q.sites_in(b, SAO)
    stats = Q.sites_in(b, "graph::FileState::stat")
    hbs = Q.sites_in(b, HB)
    ck.floor("stat_all_outputs in record_finished", len(sao), 1)
    ck.floor("FileState::stat in record_finished", len(stats), 1)
    ck.floor("hash_build in record_finished", len(hbs), 1)
    # input stat loop: chain(dirtying_ins, discovered_ins) of builds[id], every element, no early exit
    for i, (bb, t) in enumerate(stats):
        ide = R.arg(bb, 1)
        src = C.iter_source_calls(ide)
        ok_src = {"graph::Build::dirtying_ins", "graph::Build::discovered_ins"} <= src
        builds_ok = all(_is_builds_index(c[2][0], "id") for c in calls_in(ide) if c[1] in ("graph::Build::dirtying_ins", "graph::Build::discovered_ins"))
        ck.ob(rule, "restat-inputs#%d|categories" % i, ok_src and builds_ok, "record_finished re-stats dirtying_ins ++ discovered_ins of graph.builds[id] (%s)" % sorted(s for s in src if s.startswith("graph::Build")), span=t["loc"], fn=b.nname)
        # after the discovered list was replaced
        sdi = Q.sites_in(b, "graph::Build::set_discovered_ins")
        ck.ob(rule, "restat-inputs#%d|after-deps-replaced" % i, bool(sdi) and all(cfg.dominates(x, bb) for x, _ in sdi), "the re-stat happens after set_discovered_ins (so the new list is covered)", span=t["loc"], fn=b.nname)
        bad = C.loop_no_early_exit(ctx, b, bb)
        it_none, it_some = C.option_edges(ctx, b, lambda s, bb=bb: s[0] == "call" and s[1].endswith("Iterator>::next") and any(c[1] == "graph::Build::discovered_ins" for c in calls_in(s)))
        starts = [tt for (x, lab) in it_some for tt in cfg.edge_targets(x, lab)]
        skip = cfg.enclosing_loop_header(bb) in cfg.reach_avoid(starts, avoid_blocks=[bb])
        whole, bad_ad = C.iter_is_whole(ide)
        ck.ob(rule, "restat-inputs#%d|every-input" % i, bad == [] and not skip and whole, "every input is re-stat'ed: no early exit (%s), no skipping, no limiting iterator adapter (%s)" % (bad, bad_ad or "none"), span=t["loc"], fn=b.nname)
    # write_build is reached only with nothing missing, after both stats, with a hash computed after them
    for i, (wb_, bb, t) in enumerate(sites):
        if wb_.nname != RF:
            continue
        dom_ok = all(cfg.dominates(x, bb) for x, _ in sao) and all(cfg.dominates(cfg.enclosing_loop_header(x) or x, bb) for x, _ in stats)
        ck.ob(rule, "write#%d|after-restat" % i, dom_ok, "write_build is dominated by the input re-stat loop and by stat_all_outputs", span=t["loc"], fn=b.nname)
        he = strip(R.arg(bb, 3))
        okh = he[0] == "call" and he[1] == HB and _is_builds_index(he[2][2], "id") and field_chain(strip(he[2][1]))[1][-1:] == ["file_state"]
        okh = okh and all(cfg.dominates(x, he[3]) for x, _ in sao) and all(cfg.dominates(cfg.enclosing_loop_header(x) or x, he[3]) for x, _ in stats)
        ck.ob(rule, "write#%d|fresh-hash" % i, okh, "the recorded hash is hash_build(builds[id]) over file_state, computed after the re-stats (%s)" % show(he, 2), span=t["loc"], fn=b.nname)
        ide = strip(R.arg(bb, 2))
        ck.ob(rule, "write#%d|own-id" % i, ide[0] == "param" and ide[2] == "id", "the record is written for the finished build id", span=t["loc"], fn=b.nname)
        # nothing-missing gate: flag locals cleared/set
        # input flag: bool local assigned const true on the `== Missing` edge inside the stat loop
        def pred_missing(e):
            e = strip(e)
            if e[0] == "call" and (e[1].endswith("MTime as std::cmp::PartialEq>::eq") or e[1].endswith("::ne")):
                for y in (strip(e[2][0]), strip(e[2][1])):
                    if y[0] == "promoted" and y[2] == ("enum", "graph::MTime", "Missing"):
                        return "neg" if e[1].endswith("::ne") else True
            return False
        g_m = C.bool_gate_edges(ctx, b, pred_missing)
        starts = [tt for (x, lab) in g_m for tt in cfg.edge_targets(x, lab)]
        # any path from a Missing edge to write_build must not exist
        r = cfg.reach_avoid(starts)
        # refine: allow reaching only if a flag switch is crossed on its false edge: compute flags set on the missing edge
        flagged = set()
        for y in r:
            for s in b.blocks[y]["stmts"]:
                if s["k"] == "assign" and not s["place"]["p"] and b.local_ty(s["place"]["l"]) == "bool" and s["place"]["l"] in b.names and s["rv"]["k"] == "use" and s["rv"]["op"]["k"] == "const" and s["rv"]["op"]["int"] == 1:
                    flagged.add((y, s["place"]["l"]))
        flag_locals = {l for _, l in flagged}
        # edges that prove the flag false
        clear_edges = set()
        for sbb, st, e in Q.switches(ctx, b):
            d = st["discr"]
            if d["k"] in ("copy", "move") and not d["place"]["p"]:
                from .C01 import _copy_source
                if _copy_source(b, sbb, d["place"]["l"]) in flag_locals:
                    tl, fl = Q.bool_edges(st)
                    clear_edges.add((sbb, tl))  # true edge = flag set -> must not lead to write
        set_blocks = [y for y, _ in flagged]
        # from a Missing edge: either returns without write, or sets a flag whose true edge avoids the write
        r2 = cfg.reach_avoid(starts, avoid_blocks=set_blocks)
        ok_in = bool(g_m) and bb not in r2
        for l in flag_locals:
            from .C01 import _copy_source
            false_edges = set()
            for sbb, st, e in Q.switches(ctx, b):
                d = st["discr"]
                if d["k"] in ("copy", "move") and not d["place"]["p"] and _copy_source(b, sbb, d["place"]["l"]) == l:
                    false_edges.add((sbb, Q.bool_edges(st)[1]))
            ok_in = ok_in and bool(false_edges) and Q.gated(cfg, bb, false_edges)[0]
        # the flag, once set, is never cleared again inside the loop
        for l in flag_locals:
            defs = [(bi, s) for bi in cfg.reach for s in b.blocks[bi]["stmts"] if s["k"] == "assign" and not s["place"]["p"] and s["place"]["l"] == l]
            hdr = cfg.enclosing_loop_header(stats[0][0]) if stats else None
            loop = cfg.natural_loop(hdr) if hdr is not None else set()
            if any(bi in loop and s["rv"]["op"].get("int") == 0 for bi, s in defs if s["rv"]["k"] == "use"):
                ok_in = False
        ck.ob(rule, "write#%d|no-missing-input" % i, ok_in, "a Missing input (after the command ran) can never lead to write_build", span=t["loc"], fn=b.nname)
        # outputs: is_some(stat_all_outputs()?) true edge (or Some edge) must not reach the write
        def pred_out(e):
            e = strip(e)
            return e[0] == "call" and e[1] in ("std::option::Option::is_some", "std::option::Option::is_none") and any(c[1] == SAO for c in calls_in(e)) and ("neg" if e[1].endswith("is_none") else True)
        # the value may be stored in a bool local first: resolve switches whose discr expr is is_some(...)
        g_o = C.bool_gate_edges(ctx, b, pred_out)
        ne_o, se_o = C.option_edges(ctx, b, lambda s: any(c[1] == SAO for c in calls_in(s)) and C.from_try_of(s, SAO))
        bad_starts = [tt for (x, lab) in (g_o | se_o) for tt in cfg.edge_targets(x, lab)]
        r4 = cfg.reach_avoid(bad_starts)
        ck.ob(rule, "write#%d|no-missing-output" % i, bool(g_o | se_o) and bb not in r4, "a Missing output can never lead to write_build (edges %s)" % sorted(g_o | se_o), span=t["loc"], fn=b.nname)
    # fresh-outputs postcondition: every Ok return passes stat_all_outputs(builds[id])
    oks = C.ok_return_blocks(ctx, b)
    for i, (bb, s, e) in enumerate(oks):
        r = cfg.reach_avoid([0], avoid_blocks=[x for x, _ in sao])
        ck.ob(rule, "postcondition|outputs-statted#%d" % i, bb not in r, "every normal return of record_finished has stat'ed all outputs (so dependents see fresh mtimes)", span=s.get("loc"), fn=b.nname)
    for x, t in sao:
        be = R.arg(x, 2)
        ck.ob(rule, "postcondition|own-build", _is_builds_index(be, "id"), "stat_all_outputs is applied to graph.builds[id]", span=t["loc"], fn=b.nname)
    # callers
    C.callers_exact(ck, ctx, rule, RF, ["work::Work::run"], floor=2)


def hashes_frozen(ck, ctx, rule="hashes-frozen"):
    C.single_writer(ck, ctx, rule, "graph::Hashes", "0", ["graph::Hashes::set"])
    C.callers_exact(ck, ctx, rule, "graph::Hashes::set", ["db::Reader::read_build"], floor=1)
    C.single_writer(ck, ctx, rule, "work::Work", "last_hashes", [], need_writer=False)
    # Hashes::get looks up by id
    F = ctx.F
    b = ck.need("fn graph::Hashes::get", F.body("graph::Hashes::get"))
    R = ctx.res(b)
    e = strip(R.local(0, R.term_at(ctx.cfg(b).returns()[0])))
    ok = any(c[1].endswith("HashMap::get") and any(y[0] == "param" and y[2] == "id" for y in walk(c)) for c in calls_in(e))
    ck.ob(rule, "Hashes::get", ok, "Hashes::get(id) returns the entry stored for id (%s)" % show(e, 2), span=b.loc, fn=b.nname)
    sb = ck.need("fn graph::Hashes::set", F.body("graph::Hashes::set"))
    SR = ctx.res(sb)
    ok = any(callee_of(t).endswith("HashMap::insert") and [strip(SR.arg(bb, i))[0] for i in (1, 2)] == ["param", "param"] and [strip(SR.arg(bb, i))[2] for i in (1, 2)] == ["id", "hash"] for bb, t in sb.calls())
    ck.ob(rule, "Hashes::set", ok, "Hashes::set(id, hash) inserts (id, hash)", span=sb.loc, fn=sb.nname)
