"""C07 — the build log survives a crash at any point (structural clauses)."""
from . import common as C
from . import dblog as DB
from . import dirty as D

EXPLANATION = (
    "Static conformance, on rustc MIR of the current tree, of the conditions that make every byte-prefix of a log loadable and extendable: (single-write) "
    "inside db.rs the only file writes are the one write_all of the whole assembled buffer in RecordWriter::finish, the signature, and the set_len repair; "
    "write_build / write_path assemble one RecordWriter and hand it to a single finish after the last field, never return Ok without it, and path records "
    "are complete records written before the build record; (sole-writer) the set of functions that open/create files in the crate is exactly the expected "
    "one, Writer.w has the expected writers, the log is opened read+append and created only on NotFound; (torn-read) in read_file every Err of a "
    "record-level read (and of the signature) is tested against ErrorKind::UnexpectedEof before it can be returned, the EOF edge ends the load with Ok, inner "
    "readers return io::Result without converting errors and read only with read_exact, and a record's effects are applied only after its last field was "
    "read; (repair-before-append) db::open cuts the file back with File::set_len to the reader's valid-prefix length (a record boundary: the stream position "
    "sampled before the record that hit EOF) before the writer reuses it, checks the result, and re-signs an empty log; (after-success) the record is "
    "written only after success and full re-stat (C02.record-discipline). Decides these clauses; no crash is executed."
)
ASSUMPTIONS = [
    "write_all on an O_APPEND file appends at EOF; read_exact returns UnexpectedEof on short input; a crash leaves a byte-prefix of the appended data",
    "fsync/durability ordering across machine crashes is outside what the code attempts and is not decided",
]
THOROUGH_CONFIGS = ["nodefault"]


def run(ck, ctx):
    C.adapter_census(ck, ctx, "single-write", ("db::",))
    DB.single_write(ck, ctx)
    DB.sole_writer(ck, ctx)
    DB.torn_read(ck, ctx)
    DB.repair_before_append(ck, ctx)
    D.record_discipline(ck, ctx, rule="after-success")


def run_config(ck, ctx):
    run(ck, ctx)
