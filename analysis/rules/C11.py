"""C11 — variables are expanded with Ninja's scoping rules (structural clauses)."""
from n2sa import query as Q
from n2sa.expr import strip, show, field_chain, alts, calls_in, walk
from n2sa.facts import callee_of, norm
from . import common as C

EXPLANATION = (
    "Static conformance of the lookup environments on rustc MIR of the current tree: (chains) for every EvalString::evaluate site the ordered list of "
    "concrete types behind the `&dyn Env` array, read off the unsizing casts, equals the documented order: a top-level binding is evaluated against [file "
    "Vars]; a build-block attribute (EvalString<&str>) against [file Vars] only; a rule attribute (EvalString<String>) against [BuildImplicitVars, the "
    "build block's VarList, file Vars]; build-line paths against [VarList, Vars]; include/subninja/default paths against [Vars]; pool depth against []; the "
    "lookup closure consults the build block before the rule; (eager) in Parser::read the value inserted into vars is the result of evaluate at that point "
    "(so later redefinitions cannot affect it) and the inserted name is the parsed identifier; (continue-after) evaluate_inner recurses with envs[i+1..] "
    "for the index i of the first environment that binds the name and consults no further environment; an unbound name appends nothing; (implicit-vars) "
    "BuildImplicitVars answers exactly in / in_newline / out / out_newline from explicit_ins / explicit_outs with ' ' / newline separators; "
    "(include-vs-subninja) included files must extend the including scope while subninja files must not. Decides these clauses, not expansion results for "
    "arbitrary manifests."
)
ASSUMPTIONS = ["expansion results for arbitrary manifests are not decided"]
THOROUGH_CONFIGS = ["nodefault"]

VARS = "eval::Vars"
VARLIST = "smallmap::SmallMap<&str, eval::EvalString<&str>>"
IMPL = "load::BuildImplicitVars"


def _cls(ty):
    t = ty.replace("&", "").replace("'_ ", "").replace("'_", "").strip()
    if t.startswith("eval::Vars"):
        return "Vars"
    if t.startswith("load::BuildImplicitVars"):
        return "BuildImplicitVars"
    if t.startswith("smallmap::SmallMap<str, eval::EvalString<str>>") or ("SmallMap" in t and "EvalString<" in t and "String>" not in t.split("EvalString<")[1]):
        return "VarList"
    if "SmallMap" in t and "EvalString<std::string::String>" in t:
        return "RuleVars"
    return "?" + ty


def env_chain(ctx, body, bb):
    """ordered concrete env types of the &[&dyn Env] argument of the evaluate call in bb, or ('forward', param)"""
    R = ctx.res(body)
    e = strip(R.arg(bb, 1))
    if e[0] == "param":
        return ("forward", e[2])
    arr = None
    for y in walk(e):
        if y[0] == "agg" and y[1] == "array":
            arr = y
            break
    if arr is None:
        if e[0] == "promoted" or "promoted" in repr(e)[:40]:
            return []
        return None
    out = []
    for o in arr[4]:
        c = o
        src = None
        while True:
            if c[0] == "cast" and "dyn eval::Env" in c[2]:
                src = c[3]
                break
            if c[0] in ("ref", "deref"):
                c = c[1]
                continue
            break
        out.append(_cls(src) if src else "?" + show(o, 2))
    return out


def chains(ck, ctx):
    F = ctx.F
    sites = []
    for b in F.view_bodies():
        for bb, t in b.calls():
            if callee_of(t).endswith("EvalString::evaluate"):
                sites.append((b, bb, t))
    ck.floor("EvalString::evaluate call sites", len(sites), 5)
    expected = {
        ("parse::Parser::read", "&str"): ["Vars"],
        ("parse::Parser::read_pool", "&str"): [],
        ("load::Loader::add_build::{closure#0}", "&str"): ["Vars"],
        ("load::Loader::add_build::{closure#0}", "std::string::String"): ["BuildImplicitVars", "VarList", "Vars"],
        ("load::Loader::evaluate_path", "&str"): ("forward", "envs"),
    }
    seen = set()
    for b, bb, t in sites:
        g = t["callee"]["generics"][0] if t["callee"]["generics"] else "?"
        key = (b.nname, g)
        seen.add(key)
        ch = env_chain(ctx, b, bb)
        want = expected.get(key)
        ck.functions.add(b.nname)
        ck.ob("chains", "%s<%s>" % key, want is not None and ch == want, "evaluate on EvalString<%s> in %s uses environments %s (documented order: %s)" % (g, b.nname, ch, want), span=t["loc"], fn=b.nname)
    for key in expected:
        if key not in seen:
            ck.ob("chains", "%s<%s>" % key, False, "expected evaluate site is gone", span=key[0])
    # forwarded chains: callers of evaluate_path / evaluate_paths
    fw = {
        "load::Loader::add_build": ["VarList", "Vars"],
        "load::Loader::parse_with_parser": ["Vars"],
        "load::Loader::evaluate_paths::{closure#0}": ("forward", None),
        "load::Loader::evaluate_paths": ("forward", None),
    }
    for callee in ("load::Loader::evaluate_path", "load::Loader::evaluate_paths"):
        per = {}
        for b, bb, t in F.call_sites(callee):
            i = per.get(b.nname, 0)
            per[b.nname] = i + 1
            R = ctx.res(b)
            e = strip(R.arg(bb, 2))
            want = fw.get(b.nname)
            if want is not None and isinstance(want, tuple):
                okf = any(y[0] == "param" or (y[0] == "field" and strip(y[1])[0] == "param") for y in walk(e))
                ck.ob("chains", "%s->%s#%d" % (b.nname, callee.split("::")[-1], i), okf, "%s forwards its envs parameter" % b.nname, span=t["loc"], fn=b.nname)
                continue
            arr = [y for y in walk(e) if y[0] == "agg" and y[1] == "array"]
            ch = None
            if arr:
                ch = []
                for o in arr[0][4]:
                    c = o
                    src = None
                    while True:
                        if c[0] == "cast" and "dyn eval::Env" in c[2]:
                            src = c[3]
                            break
                        if c[0] in ("ref", "deref"):
                            c = c[1]
                            continue
                        break
                    ch.append(_cls(src) if src else "?" + show(o, 2))
            ck.ob("chains", "%s->%s#%d" % (b.nname, callee.split("::")[-1], i), want is not None and ch == want, "%s evaluates paths against %s (documented: %s)" % (b.nname, ch, want), span=t["loc"], fn=b.nname)
    # which Vars: parser.vars of the current parser / the `env` parameter = &parser.vars at the add_build call
    pw = ck.need("fn load::Loader::parse_with_parser", F.body("load::Loader::parse_with_parser"))
    PR = ctx.res(pw)
    for bb, t in Q.sites_in(pw, "load::Loader::add_build"):
        e = strip(PR.arg(bb, 2))
        base, names = field_chain(e)
        ck.ob("chains", "add_build-env-is-parser-vars", names == ["vars"] and strip(base)[0] == "param" and strip(base)[2] == "parser", "add_build's file environment is the current parser's vars as of that statement (%s)" % show(e, 2), span=t["loc"], fn=pw.nname)
    # lookup closure: build block first, then rule
    clo = ck.need("closure add_build lookup", F.body("load::Loader::add_build::{closure#0}"))
    cfg = ctx.cfg(clo)
    CR = ctx.res(clo)
    gets = [(bb, t) for bb, t in clo.calls() if callee_of(t) == "smallmap::SmallMap::get"]
    evs = [(bb, t) for bb, t in clo.calls() if callee_of(t).endswith("EvalString::evaluate")]
    ok = len(gets) == 2 and len(evs) == 2
    if ok:
        first, second = sorted(gets, key=lambda x: 0 if cfg.dominates(x[0], gets[1][0] if x is gets[0] else gets[0][0]) else 1)
        ne, se = C.option_edges(ctx, clo, lambda s: s[0] == "call" and s[1] == "smallmap::SmallMap::get" and s[3] == first[0])
        # the first get's table is the build block's VarList (EvalString<&str>), and on Some its value is evaluated with [Vars]
        ev_str = [x for x in evs if x[1]["callee"]["generics"][0] == "&str"][0]
        ev_string = [x for x in evs if x[1]["callee"]["generics"][0] != "&str"][0]
        ok = Q.gated(cfg, ev_str[0], se)[0] and Q.gated(cfg, ev_string[0], ne)[0] and Q.gated(cfg, second[0], ne)[0]
        ok = ok and any(c[3] == first[0] for c in calls_in(CR.arg(ev_str[0], 0))) and any(c[3] == second[0] for c in calls_in(CR.arg(ev_string[0], 0)))
        # same key for both
        ok = ok and strip(CR.arg(first[0], 1)) == strip(CR.arg(second[0], 1))
    ck.ob("chains", "lookup-build-before-rule", ok, "the attribute lookup consults the build block first (value expanded in file scope) and only on a miss the rule (value expanded with implicit vars, build vars, file vars)", span=clo.loc, fn=clo.nname)


def eager(ck, ctx):
    F = ctx.F
    b = ck.need("fn parse::Parser::read", F.body("parse::Parser::read"))
    R = ctx.res(b)
    cfg = ctx.cfg(b)
    ins = Q.sites_in(b, "eval::Vars::insert")
    ck.floor("Vars::insert in Parser::read", len(ins), 1)
    for bb, t in ins:
        v = strip(R.arg(bb, 2))
        k = strip(R.arg(bb, 1))
        okv = v[0] == "call" and v[1].endswith("EvalString::evaluate") and any(c[1] == "parse::Parser::read_vardef" for c in calls_in(v))
        okk = any(c[1] == "parse::Parser::read_ident" for c in calls_in(k))
        recv = strip(R.arg(bb, 0))
        okr = field_chain(recv)[1] == ["vars"]
        ck.ob("eager", "insert-evaluated-value", okv and okk and okr, "Parser::read inserts (ident, evaluate(read_vardef(), [&self.vars])) into self.vars: the value is expanded when defined", span=t["loc"], fn=b.nname)
    # every binding is recorded, whatever its value (re-binding to the empty string must replace the old text)
    for bb, t in Q.sites_in(b, "parse::Parser::read_vardef"):
        ok = C.must_pass(ctx, b, bb, [x for x, _ in ins])
        ck.ob("eager", "every-binding-recorded", ok is True, "after a successfully parsed `name = value` the next statement is reached only through vars.insert(name, value): no value is special-cased", span=t["loc"], fn=b.nname)
    sv = ck.need("fn parse::Parser::read_scoped_vars", F.body("parse::Parser::read_scoped_vars"))
    sins = [(bb, t) for bb, t in sv.calls() if callee_of(t).endswith("SmallMap::insert")]
    for bb, t in Q.sites_in(sv, "parse::Parser::read_vardef"):
        ok = C.must_pass(ctx, sv, bb, [x for x, _ in sins])
        ck.ob("eager", "every-scoped-binding-recorded", ok is True and bool(sins), "after a successfully parsed indented `name = value` the next line is reached only through the block's insert", span=t["loc"], fn=sv.nname)
    # a block's later binding of the same name replaces the earlier one (SmallMap::insert overwrites in place, else appends)
    sm = ck.need("fn smallmap::SmallMap::insert", F.body("smallmap::SmallMap::insert"))
    scfg = ctx.cfg(sm)
    SR = ctx.res(sm)
    ck.functions.add(sm.nname)
    g_eq = C.bool_gate_edges(ctx, sm, lambda e: strip(e)[0] == "call" and strip(e)[1].endswith("PartialEq>::eq") or (strip(e)[0] == "call" and strip(e)[1].endswith("::eq")))
    writes = []
    for bi in scfg.reach:
        for s_ in sm.blocks[bi]["stmts"]:
            if s_["k"] == "assign" and s_["place"]["p"] and any(p_["k"] == "deref" for p_ in s_["place"]["p"]) and s_["rv"]["k"] == "use" and s_["rv"]["op"]["k"] in ("copy", "move"):
                src_ = strip(SR.stmt_rvalue(bi, s_))
                if src_[0] == "param" and src_[1] == 3:
                    writes.append(bi)
    pushes_ = [bb_ for bb_, t_ in sm.calls() if callee_of(t_).endswith("Vec::push")]
    it_none, it_some = C.option_edges(ctx, sm, lambda s_: s_[0] == "call" and s_[1].endswith("Iterator>::next"))
    ok_sm = len(g_eq) == 1 and len(writes) == 1 and Q.gated(scfg, writes[0], g_eq)[0] and len(pushes_) == 1 and Q.gated(scfg, pushes_[0], it_none)[0]
    if ok_sm:
        # on the equal-key edge the overwrite is unavoidable and the push unreachable
        st_ = [tt for (x, lab) in g_eq for tt in scfg.edge_targets(x, lab)]
        ok_sm = pushes_[0] not in scfg.reach_avoid(st_) and not (set(scfg.returns()) & scfg.reach_avoid(st_, avoid_blocks=writes))
    ck.ob("eager", "smallmap-insert-replaces", ok_sm, "SmallMap::insert overwrites the value of an equal key in place (and only then), otherwise appends after the whole scan", span=sm.loc, fn=sm.nname)
    C.single_writer(ck, ctx, "eager", "parse::Parser", "vars", ["parse::Parser::read", "parse::Parser::inherit"])
    C.single_writer(ck, ctx, "eager", VARS, "0", ["eval::Vars::insert"])
    # Vars::get_var yields a literal (no re-expansion of stored text)
    gv = ck.need("fn <eval::Vars as eval::Env>::get_var", F.body("<eval::Vars<'a> as eval::Env>::get_var") or F.body("<eval::Vars as eval::Env>::get_var"))
    cons = [s["rv"]["variant"] for b2, bb, s in Q.adt_constructors(F, "eval::EvalPart") if b2.nname == gv.nname]
    ck.ob("eager", "vars-are-literals", cons == ["Literal"], "a file-level variable answers with a Literal part (already expanded text): %s" % cons, span=gv.loc, fn=gv.nname)


def env_impls_total(ck, ctx):
    """every scope answers with its binding whenever it has one, whatever the value (an empty value still shadows the outer scopes):
    each `Env::get_var` for a map type returns Some exactly when the lookup found the key -- decided by propagation: the lookup's answer is
    the only thing the result may depend on"""
    from n2sa.flagint import FlagInt, OPTION
    F = ctx.F
    impls = sorted(n for n in F.bodies if "as eval::Env>::get_var" in n and F.bodies[n].kind in ("fn", "assoc") and ("SmallMap" in n.split(" as ")[0] or "eval::Vars" in n.split(" as ")[0]))
    ck.floor("Env::get_var implementations of map-like scopes", len(impls), 3)
    for n in impls:
        b = F.body(n)
        ck.functions.add(n)

        def hook(fi, bi, t, callee, args, vals, ghost, b=b):
            if callee.endswith(("SmallMap::get", "Vars::get", "HashMap::get")) or (callee.endswith("::get") and "smallmap" in callee):
                return [(("en", OPTION, "None", ()), dict(ghost, found=False)), (("en", OPTION, "Some", None), dict(ghost, found=True))]
            return None

        fi = FlagInt(F, b, hook).run()
        bad = []
        for g, rv in fi.rets:
            g = dict(g)
            if "found" not in g:
                bad.append("a return that does not depend on the lookup")
                continue
            is_some = rv is not None and rv[0] == "en" and rv[2] == "Some"
            is_none = rv is not None and rv[0] == "en" and rv[2] == "None"
            if g["found"] and not is_some:
                bad.append("key found -> %s" % ("None" if is_none else "undetermined"))
            if not g["found"] and not is_none:
                bad.append("key absent -> %s" % ("Some" if is_some else "undetermined"))
        ck.ob("continue-after", "scope-answers-iff-bound|%s" % n.split(" as ")[0].lstrip("<"), len(fi.rets) >= 2 and not bad and not fi.capped, "%s returns Some exactly when the key is bound in this scope, whatever the bound value (%d abstract returns; %s)" % (n, len(fi.rets), bad or "all consistent"), span=b.loc, fn=n)


def continue_after(ck, ctx):
    F = ctx.F
    env_impls_total(ck, ctx)
    b = ck.need("fn eval::EvalString::evaluate_inner", F.body("eval::EvalString::evaluate_inner"))
    R = ctx.res(b)
    cfg = ctx.cfg(b)
    ck.functions.add(b.nname)
    rec = Q.sites_in(b, "eval::EvalString::evaluate_inner")
    gv = [(bb, t) for bb, t in b.calls() if callee_of(t) == "eval::Env::get_var"]
    ck.floor("recursive evaluate_inner", len(rec), 1)
    ck.floor("Env::get_var in evaluate_inner", len(gv), 1)
    for bb, t in rec:
        e = strip(R.arg(bb, 2))
        ok = False
        if e[0] == "call" and e[1].endswith("index::index") or (e[0] == "call" and e[1].endswith("::index")):
            base = strip(e[2][0])
            rng = strip(e[2][1])
            if base[0] == "param" and base[2] == "envs" and rng[0] == "agg" and rng[2] == "std::ops::RangeFrom":
                lo = strip(rng[4][0])
                if lo[0] == "bin" and lo[1] == "Add" and lo[3] == ("const", 1):
                    i = strip(lo[2])
                    # i is component .0 of the enumerate item whose .1 is the env that answered
                    ok = i[0] == "field" and i[2] == "0" and any(c[1].endswith("Enumerate<I> as std::iter::Iterator>::next") for c in calls_in(i))
        ck.ob("continue-after", "recursion-envs", ok, "nested references are expanded against envs[i+1..] where i is the index of the environment that answered (%s)" % show(e, 4), span=t["loc"], fn=b.nname)
        # the value expanded is the one get_var returned; same result buffer
        v = strip(R.arg(bb, 0))
        ck.ob("continue-after", "recursion-value", any(c[1] == "eval::Env::get_var" for c in calls_in(v)) and strip(R.arg(bb, 1))[0] == "param", "the recursion expands the value returned by get_var into the same result", span=t["loc"], fn=b.nname)
    # the environments are tried front to back, all of them: the iterator is exactly envs.iter().enumerate() (no rev/skip/take/..)
    for bb, t in gv:
        envx0 = R.arg(bb, 0)
        chain = [c[1].split("::")[-1] for c in calls_in(envx0) if "Iterator" in c[1] or c[1].startswith(("core::slice::", "std::iter::", "std::slice::"))]
        ck.ob("continue-after", "envs-front-to-back", sorted(chain) == sorted(["next", "enumerate", "iter"]) or sorted(chain) == sorted(["next", "enumerate", "iter", "into_iter"]), "environments are consulted in order, every one of them: iterator chain %s" % chain, span=t["loc"], fn=b.nname)
    for bb, t in gv:
        # env asked is the enumerate item's .1, name is the VarRef payload
        envx = strip(R.arg(bb, 0))
        nm = R.arg(bb, 1)
        ok = any(y[0] == "field" and y[2] == "1" for y in walk(envx)) and any(y[0] == "downcast" and y[2] == "VarRef" for y in walk(nm))
        ck.ob("continue-after", "asks-each-env-in-order", ok, "each environment of the slice is asked, in order (enumerate over envs), for the VarRef's name", span=t["loc"], fn=b.nname)
        e0 = [c for c in calls_in(envx) if c[1].endswith("Iterator::enumerate")]
        ok2 = bool(e0) and any(y[0] == "param" and y[2] == "envs" for y in walk(e0[0]))
        ck.ob("continue-after", "iterates-envs-param", ok2 and C.iter_is_whole(envx)[0], "the environments iterated are the envs parameter, unfiltered", span=t["loc"], fn=b.nname)
        # first hit wins: from the Some edge the env loop's header is unreachable
        ne, se = C.option_edges(ctx, b, lambda s: s[0] == "call" and s[1] == "eval::Env::get_var")
        hdr = cfg.enclosing_loop_header(bb)
        starts = [tt for (x, lab) in se for tt in cfg.edge_targets(x, lab)]
        r = cfg.reach_avoid(starts, avoid_blocks=[h for h in cfg.loop_headers() if h != hdr])
        ck.ob("continue-after", "first-binding-wins", bool(se) and hdr not in r and all(x in r for x, _ in rec), "after the first environment that binds the name no further environment is consulted", span=t["loc"], fn=b.nname)
        # miss in every env: nothing is appended (the only push_str is on the Literal arm)
        pushes = [(x, tt) for x, tt in b.calls() if callee_of(tt).endswith("String::push_str") or callee_of(tt).endswith("String::push")]
        lit_edges = set()
        for x, t_, scrut, adt, vmap in Q.enum_switches(ctx, b):
            if adt == "eval::EvalPart":
                lit_edges.add((x, vmap.get("Literal")))
        okp = len(pushes) == 1 and Q.gated(cfg, pushes[0][0], lit_edges, repeat=True)[0]
        ck.ob("continue-after", "undefined-expands-to-nothing", okp, "text is appended only for Literal parts; an unbound VarRef appends nothing", span=b.loc, fn=b.nname)
    ev = ck.need("fn eval::EvalString::evaluate", F.body("eval::EvalString::evaluate"))
    ER = ctx.res(ev)
    okw = False
    for bb, t in Q.sites_in(ev, "eval::EvalString::evaluate_inner"):
        okw = strip(ER.arg(bb, 0))[0] == "param" and strip(ER.arg(bb, 2))[0] == "param"
    e = strip(ER.local(0, ER.term_at(ctx.cfg(ev).returns()[0])))
    ck.ob("continue-after", "evaluate-wraps-inner", okw and (e[0] == "call" and e[1].endswith("String::new") or e[0] in ("var", "call")), "evaluate = evaluate_inner(self, fresh String, envs)", span=ev.loc, fn=ev.nname)


def implicit_vars(ck, ctx):
    F = ctx.F
    name = [n for n in F.bodies if n.startswith("<load::BuildImplicitVars") and n.endswith("eval::Env>::get_var")]
    b = ck.need("fn BuildImplicitVars::get_var", F.body(name[0]) if name else None)
    R = ctx.res(b)
    cfg = ctx.cfg(b)
    ck.functions.add(b.nname)
    kws = {}
    for sbb, st, e in Q.switches(ctx, b):
        e_ = strip(e)
        if e_[0] == "call" and e_[1].endswith("str::traits::eq"):
            ks = [y[1].strip('"') for y in walk(e_) if y[0] == "str"]
            if ks:
                kws[ks[0]] = (sbb, Q.bool_edges(st)[0])
    ck.ob("implicit-vars", "names", set(kws) == {"in", "in_newline", "out", "out_newline"}, "BuildImplicitVars answers exactly %s" % sorted(kws), span=b.loc, fn=b.nname)
    want = {"in": ("graph::Build::explicit_ins", 32), "in_newline": ("graph::Build::explicit_ins", 10), "out": ("graph::Build::explicit_outs", 32), "out_newline": ("graph::Build::explicit_outs", 10)}
    fl = [(bb, t) for bb, t in b.calls() if callee_of(t) == "load::BuildImplicitVars::file_list"]
    for kw, (acc, sep) in want.items():
        ok = False
        if kw in kws:
            for bb, t in fl:
                if Q.gated(cfg, bb, {kws[kw]})[0] and not any(Q.gated(cfg, bb, {kws[o]})[0] for o in kws if o != kw and cfg.dominates(kws[kw][0], kws[o][0])):
                    a = R.arg(bb, 1)
                    s_ = R.arg(bb, 2)
                    ok = any(c[1] == acc for c in calls_in(a)) and s_ == ("const", sep)
        ck.ob("implicit-vars", "$%s" % kw, ok, "$%s = file_list(%s, %r)" % (kw, acc.split("::")[-1], chr(sep)), span=b.loc, fn=b.nname)
    # None otherwise
    nones = [bb for bb, s in Q.ret_assignments(b) if "rv" in s and s["rv"]["k"] == "agg" and s["rv"]["variant"] == "None"]
    ck.ob("implicit-vars", "else-none", len(nones) == 1, "any other name is not answered (None)", span=b.loc, fn=b.nname)
    flb = ck.need("fn load::BuildImplicitVars::file_list", F.body("load::BuildImplicitVars::file_list"))
    FR = ctx.res(flb)
    ok = False
    for bb, t in flb.calls():
        if callee_of(t).endswith("String::push_str"):
            e = FR.arg(bb, 1)
            ok = any(y[0] == "field" and y[2] == "name" for y in walk(e)) and any(c[1] == "graph::Graph::file" for c in calls_in(e)) and any(y[0] == "param" and y[2] == "ids" for y in walk(e)) and C.iter_is_whole(e)[0]
    ck.ob("implicit-vars", "file_list", ok, "file_list joins graph.file(id).name for every id of its slice, in order", span=flb.loc, fn=flb.nname)
    # implicit vars refer to the build being added
    ab = F.body("load::Loader::add_build")
    AR = ctx.res(ab)
    for _, bb, s in [x for x in Q.adt_constructors(F, IMPL) if x[0].nname == ab.nname]:
        fields = F.struct_fields(IMPL)
        be = strip(AR.agg_op(bb, s, fields.index("build")))
        ck.ob("implicit-vars", "own-build", be[0] == "call" and be[1] == "graph::Build::new" or any(c[1] == "graph::Build::new" for c in calls_in(be)), "the implicit variables are those of the build being added (%s)" % show(be, 2), span=s.get("loc"), fn=ab.nname)


def include_vs_subninja(ck, ctx):
    F = ctx.F
    b = ck.need("fn load::Loader::parse_with_parser", F.body("load::Loader::parse_with_parser"))
    cfg = ctx.cfg(b)
    R = ctx.res(b)
    sw = [z for z in Q.enum_switches(ctx, b) if z[3] == "parse::Statement"]
    ck.floor("Statement switch in parse_with_parser", len(sw), 1)
    x, t, scrut, adt, vmap = sw[0]
    inc_t = cfg.edge_targets(x, vmap.get("Include"))
    sub_t = cfg.edge_targets(x, vmap.get("Subninja"))
    rec = Q.sites_in(b, "load::Loader::parse_with_parser")
    inh = Q.sites_in(b, "parse::Parser::inherit")
    # subninja: child sees a copy (inherit) and nothing flows back
    r_sub = cfg.reach_avoid(sub_t, avoid_blocks=[x])
    ok_sub = any(bb in r_sub for bb, _ in inh) and any(bb in r_sub for bb, _ in rec)
    ck.ob("include-vs-subninja", "subninja-sees-copy", ok_sub, "a subninja file is parsed by a child parser that inherits a copy of the parent's bindings", span=t.get("loc"), fn=b.nname)
    # include: child bindings must reach the parent's vars after the nested parse (or the parent parser itself is reused)
    r_inc = cfg.reach_avoid(inc_t, avoid_blocks=[x])
    merges = []
    for bb, tt in b.calls():
        if bb not in r_inc:
            continue
        c = callee_of(tt)
        if c in ("eval::Vars::insert", "parse::Parser::inherit") or c.endswith("HashMap::extend") or c.endswith("::extend"):
            recv = strip(R.arg(bb, 0))
            base, names = field_chain(recv)
            if strip(base)[0] == "param" and strip(base)[2] == "parser" and any(cfg.can_reach(rb, bb) for rb, _ in rec):
                merges.append(bb)
    same_parser = any(strip(R.arg(rb, 1))[0] == "param" and strip(R.arg(rb, 1))[2] == "parser" and rb in r_inc for rb, _ in rec)
    shared = sorted(inc_t) == sorted(sub_t)
    ck.ob("include-vs-subninja", "%s|shared-handler" % b.nname, (bool(merges) or same_parser) and not shared, "Include and Subninja %s; after an include %s" % ("share one handler" if shared else "have distinct handlers", "the child's bindings flow back into the parent's vars" if (merges or same_parser) else "nothing flows back into the parent's vars, so bindings made by the included file are lost to the includer"), span=t.get("loc"), fn=b.nname)
    # inherit copies every binding
    ib = ck.need("fn parse::Parser::inherit", F.body("parse::Parser::inherit"))
    IR = ctx.res(ib)
    ok = False
    for bb, tt in ib.calls():
        if callee_of(tt) == "eval::Vars::insert":
            k = IR.arg(bb, 1)
            ok = any(c[1] == "eval::Vars::get_all" for c in calls_in(k)) and C.iter_is_whole(k)[0]
    ck.ob("include-vs-subninja", "inherit-copies-all", ok, "Parser::inherit copies every binding of the parent", span=ib.loc, fn=ib.nname)
    # the nested file is parsed with the same loader and envs
    for bb, tt in rec:
        sp = strip(R.arg(bb, 1))
        ck.ob("include-vs-subninja", "nested-parser", any(c[1] == "parse::Parser::new" for c in calls_in(sp)), "the nested file gets its own Parser over its own bytes", span=tt["loc"], fn=b.nname)


def run(ck, ctx):
    C.adapter_census(ck, ctx, "eager", ("parse::", "load::", "eval::", "smallmap::"))
    chains(ck, ctx)
    eager(ck, ctx)
    continue_after(ck, ctx)
    implicit_vars(ck, ctx)
    include_vs_subninja(ck, ctx)


def run_config(ck, ctx):
    run(ck, ctx)
