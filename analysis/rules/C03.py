"""C03 — unchanged steps are not re-run; a repeated build does nothing (structural clauses)."""
from n2sa import query as Q
from n2sa.expr import strip, show, field_chain, alts, calls_in, walk
from n2sa.facts import callee_of, norm
from . import common as C
from . import dirty as D
from . import runloop as RL
from . import accessors as ACC
from . import C19 as R19
from . import dblog as DB

EXPLANATION = (
    "Static conformance of `nothing outside the declared categories can dirty a step` on rustc MIR of the current tree: (dirty-only-if) every Ok(true) of "
    "check_build_dirty is dominated by a missing-file edge, a no-record edge or a hash-differs edge; (hash-excludes) build_manifest feeds only dirtying "
    "inputs, discovered inputs, command line, rspfile and outputs — never ordering_ins, validation_ins or the raw input vector; (hash-types) the only hash "
    "instantiations under TerseHash are str, SystemTime, RspFile (PathBuf, String) and the u8 separator — no FileId, BuildId, FileLoc or usize, so graph ids "
    "and source locations cannot perturb the hash; (accessors) dirtying_ins is exactly ids[0..explicit+implicit]; (not-dirty => Done) on the `false` edge of "
    "check_build_dirty Work::run calls ready_dependents for the same id and neither enqueue nor record_finished; (adopt) on the options.adopt edge it records "
    "a Success literal with no deps and completes the step without enqueueing, and options.adopt is written only by `-t restat` under ninja-compat; "
    "(summary) `n2: no work to do` is printed exactly in the Some(0) arm of run_impl; tasks_run counts only Success completions. Decides these clauses, not "
    "`exactly the predicted set ran` over histories."
)
ASSUMPTIONS = ["every declared input and output exists after the build (property's own assumption)", "history-level prediction of the run set is not decided"]
THOROUGH_CONFIGS = ["nodefault"]


def ready_arms(ck, ctx):
    """the pop_ready loop of Work::run: not dirty => ready_dependents; dirty & adopt => record+complete; else enqueue"""
    F = ctx.F
    b = ck.need("fn " + RL.RUN, F.body(RL.RUN))
    cfg = ctx.cfg(b)
    R = ctx.res(b)
    ck.functions.add(b.nname)
    cbd = Q.sites_in(b, D.CBD)
    ck.floor("check_build_dirty call in Work::run", len(cbd), 1)
    for i, (bb, t) in enumerate(cbd):
        ide = strip(R.arg(bb, 1))
        from .C01 import classify_id
        ck.ob("ready-arms", "dirty-check-id#%d" % i, classify_id(ide) == {"pop_ready"}, "check_build_dirty examines the id popped from the ready queue", span=t["loc"], fn=b.nname)
        sw = RL.bool_switch_on_payload(ctx, b, bb)
        if not sw:
            ck.ob("ready-arms", "dirty-verdict-branched#%d" % i, False, "the verdict of check_build_dirty is not branched on", span=t["loc"], fn=b.nname)
            continue
        sbb, tl, fl = sw
        hdr = cfg.enclosing_loop_header(bb)

        def calls_from(starts, avoid_edges=()):
            r = cfg.reach_avoid(starts, avoid_blocks=[hdr] if hdr is not None else [], avoid_edges=avoid_edges)
            return r, [(y, callee_of(b.blocks[y]["term"])) for y in sorted(r) if b.blocks[y]["term"] and b.blocks[y]["term"]["k"] == "call"]

        # not dirty
        r, cs = calls_from(cfg.edge_targets(sbb, fl))
        names = [c for _, c in cs]
        same = all(strip(R.arg(y, 1)) == ide for y, c in cs if c == "work::Work::ready_dependents")
        ck.ob("ready-arms", "not-dirty=>done#%d" % i, names.count("work::Work::ready_dependents") == 1 and same and not ({"work::BuildStates::enqueue", D.RF, "task::Runner::start"} & set(names)), "an up-to-date step goes straight to Done: ready_dependents(id), no enqueue, no record (calls %s)" % [n.split("::")[-1] for n in names], span=t["loc"], fn=b.nname)

        # dirty: adopt vs enqueue
        def pred_adopt(e):
            base, nm = field_chain(strip(e))
            return nm[-2:] == ["options", "adopt"]

        g_a = C.bool_gate_edges(ctx, b, pred_adopt)
        g_na = {(x, [l for l in Q.bool_edges(b.blocks[x]["term"]) if l != lab][0]) for x, lab in g_a}
        ck.ob("adopt", "adopt-tested#%d" % i, len(g_a) == 1 and all(Q.gated(cfg, x, {(sbb, tl)})[0] for x, _ in g_a), "on the dirty edge options.adopt is tested", span=t["loc"], fn=b.nname)
        for x, lab in g_a:
            r, cs = calls_from(cfg.edge_targets(x, lab))
            names = [c for _, c in cs]
            rec = [y for y, c in cs if c == D.RF]
            okr = len(rec) == 1 and names.count("work::Work::ready_dependents") == 1 and "work::BuildStates::enqueue" not in names and "task::Runner::start" not in names
            lit = False
            if rec:
                te = strip(R.arg(rec[0], 2))
                if te[0] == "agg" and te[2] == "task::TaskResult":
                    fields = F.struct_fields("task::TaskResult")
                    tm = strip(te[4][fields.index("termination")])
                    dd = strip(te[4][fields.index("discovered_deps")])
                    lit = tm[0] == "agg" and tm[3] == "Success" and dd[0] == "agg" and dd[3] == "None"
                okr = okr and strip(R.arg(rec[0], 1)) == ide
                # ready_dependents after record (and only if it succeeded)
                rd = [y for y, c in cs if c == "work::Work::ready_dependents"]
                okr = okr and bool(rd) and cfg.dominates(rec[0], rd[0])
            ck.ob("adopt", "adopt-arm#%d" % i, okr and lit, "adopt: record_finished(id, {Success, no output, no deps}) then ready_dependents(id); nothing is enqueued or started", span=t["loc"], fn=b.nname)
        for x, lab in g_na:
            r, cs = calls_from(cfg.edge_targets(x, lab))
            names = [c for _, c in cs]
            enq = [y for y, c in cs if c == "work::BuildStates::enqueue"]
            oke = len(enq) == 1 and D.RF not in names and "work::Work::ready_dependents" not in names
            oke = oke and strip(R.arg(enq[0], 1)) == ide if enq else False
            ck.ob("ready-arms", "dirty=>enqueue#%d" % i, oke, "a dirty step (not adopting) is enqueued for its id and nothing is recorded", span=t["loc"], fn=b.nname)
    # options.adopt provenance
    C.single_writer(ck, ctx, "adopt", "work::Options", "adopt", ["run::subtool"])
    sb = F.body("run::subtool")
    if sb is not None:
        scfg = ctx.cfg(sb)
        SR = ctx.res(sb)
        ck.functions.add(sb.nname)
        ws = [bi for bi in scfg.reach for s in sb.blocks[bi]["stmts"] if s["k"] == "assign" and s["place"]["p"] and s["place"]["p"][-1].get("name") == "adopt"]
        def pred_compat(e):
            base, nm = field_chain(strip(e))
            return nm[-1:] == ["fake_ninja_compat"]
        g_c = C.bool_gate_edges(ctx, sb, pred_compat)
        strs = Q.body_strings(F, sb)
        ok = bool(ws) and all(Q.gated(scfg, w, g_c)[0] for w in ws) and any("restat" in s for s in strs)
        ck.ob("adopt", "adopt-only-restat-compat", ok, "options.adopt is set only under fake_ninja_compat for the `restat` tool", span=sb.loc, fn=sb.nname)


def run(ck, ctx):
    C.adapter_census(ck, ctx, "hash-covers", ("work::", "hash::", "db::"))
    D.decision(ck, ctx)
    D.hash_covers(ck, ctx)
    D.hash_types(ck, ctx)
    ACC.accessors(ck, ctx, only=["graph::Build::dirtying_ins", "graph::Build::discovered_ins", "graph::Build::outs", "graph::Build::ordering_ins", "graph::Build::validation_ins"])
    ready_arms(ck, ctx)
    R19.summary(ck, ctx)
    R19.tasks_run(ck, ctx)
    D.hashes_frozen(ck, ctx)
    # what a fresh process compares against is what was recorded: the last accepted record's deps list and hash both reach the graph
    DB.attribution(ck, ctx, rule="loaded-as-recorded")
    from . import C18 as R18
    R18.flags(ck, ctx)
    # the recorded hash is taken over mtimes stat()ed after the command ran (a step rewriting its own input converges)
    D.record_discipline(ck, ctx)


def run_config(ck, ctx):
    run(ck, ctx)
