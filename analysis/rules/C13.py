"""C13 — different spellings of one path are one graph node (structural clause: every path -> id conversion is canonicalised)."""
from n2sa import query as Q
from n2sa.expr import strip, show, field_chain, alts, calls_in, walk
from n2sa.facts import callee_of, norm
from . import common as C

EXPLANATION = (
    "Static conformance of `all path -> node conversions go through canonicalisation` on rustc MIR of the current tree: (sinks) every String reaching "
    "GraphFiles::id_from_canonical or GraphFiles::lookup is either the result of to_owned_canon_path or a local on which canonicalize_path(&mut local) was "
    "called on every path to the sink with no later redefinition; the single exception, listed explicitly, is db::Reader::read_path whose names were written "
    "from graph.file(id).name (C07.sole-writer); sink call sites are exactly the expected set; (single-map) GraphFiles.by_name and by_id are written only by "
    "id_from_canonical, which returns the existing id for an occupied entry and otherwise pushes File{name: <the key>} and inserts that id, so one name has "
    "one id; File.name is never reassigned; (wrapper) to_owned_canon_path canonicalises the string it returns; (callers) manifest paths (Loader::path, the "
    "only id producer used by evaluate_path[s]), the manifest file name, command-line targets (Work::lookup) and reported dependencies (record_finished) are "
    "all covered. Decides this clause only: idempotence, equivalence, no-lengthening and the assert_unchecked numeric invariants of the in-place rewrite "
    "need a relational numeric domain and are NOT decided."
)
ASSUMPTIONS = ["the behaviour of canonicalize_path itself (idempotent, equivalent, never longer, memory-safe unchecked asserts) is not decided by any rule here"]
THOROUGH_CONFIGS = ["nodefault"]
CANON = "canon::canonicalize_path"
TOCP = "canon::to_owned_canon_path"
SINKS = ("graph::GraphFiles::id_from_canonical", "graph::GraphFiles::lookup")
EXCEPTIONS = {"db::Reader::read_path": "names in the log were written from graph.file(id).name, which is canonical (C07.sole-writer: only db.rs writes the log)"}
EXPECTED_SINK_FNS = {"load::Loader::path", "load::read::{closure#0}", "work::Work::lookup", "work::Work::record_finished", "db::Reader::read_path"}


def canonical_at(ctx, body, bb, argi):
    """is the String passed as argument argi of the call in bb canonical on every path?"""
    R = ctx.res(body)
    cfg = ctx.cfg(body)
    t = body.blocks[bb]["term"]
    e = R.arg(bb, argi)
    ok_alts = []
    for a in alts(e):
        a = strip(a)
        if a[0] == "call" and a[1] == TOCP:
            ok_alts.append("to_owned_canon_path")
            continue
        ok_alts.append(None)
    if all(ok_alts):
        return True, "result of to_owned_canon_path"
    # a local canonicalised in place: find the named local feeding the operand
    op = t["args"][argi]
    l = None
    if op["k"] in ("copy", "move") and not op["place"]["p"]:
        l = op["place"]["l"]
        for _ in range(4):
            if l in body.names:
                break
            src = None
            for s in body.blocks[bb]["stmts"]:
                if s["k"] == "assign" and not s["place"]["p"] and s["place"]["l"] == l and s["rv"]["k"] in ("use", "ref"):
                    o = s["rv"].get("op") or {"k": "copy", "place": s["rv"]["place"]}
                    if o["k"] in ("copy", "move") and not [p for p in o["place"]["p"] if p["k"] != "deref"]:
                        src = o["place"]["l"]
            if src is None:
                break
            l = src
    if l is None:
        return False, "argument %s is neither to_owned_canon_path(..) nor a canonicalised local" % show(strip(e), 2)
    canon_blocks = []
    for x, tt in body.calls():
        if callee_of(tt) == CANON:
            ce = strip(R.arg(x, 0))
            # &mut <local l>
            if ce[0] in ("var", "param", "call", "field", "phi", "downcast") or True:
                ao = tt["args"][0]
                al = ao["place"]["l"] if ao["k"] in ("copy", "move") else None
                # trace &mut *&mut l
                tgt = _borrow_target(body, x, al)
                if tgt == l:
                    canon_blocks.append(x)
    if not canon_blocks:
        return False, "local `%s` is never passed to canonicalize_path" % body.local_name(l)
    defs = [d for d in Q.def_blocks_of_local(body, l) if d not in canon_blocks]
    # every path to the sink passes a canonicalisation after the last definition of l
    r = cfg.reach_avoid([0] + [y for d in defs for y, _ in cfg.succ[d]], avoid_blocks=canon_blocks)
    # definitions located *before* the canonicalisation are fine; check from each def's successors
    if bb in cfg.reach_avoid([0], avoid_blocks=canon_blocks):
        return False, "a path reaches the sink without canonicalize_path(&mut %s)" % body.local_name(l)
    for d in defs:
        if bb in cfg.reach_avoid([y for y, _ in cfg.succ[d]], avoid_blocks=canon_blocks) and d != bb:
            return False, "`%s` is redefined in bb%d after which the sink is reachable without canonicalisation" % (body.local_name(l), d)
    return True, "canonicalize_path(&mut %s) on every path" % body.local_name(l)


def _borrow_target(body, bb, l):
    """follow `_a = &mut (*_b)`, `_b = &mut x` within the block to the borrowed local x"""
    for _ in range(5):
        nxt = None
        for s in body.blocks[bb]["stmts"]:
            if s["k"] == "assign" and not s["place"]["p"] and s["place"]["l"] == l and s["rv"]["k"] == "ref":
                pl = s["rv"]["place"]
                if all(p["k"] == "deref" for p in pl["p"]):
                    nxt = pl["l"]
        if nxt is None:
            return l
        l = nxt
    return l


def sinks(ck, ctx):
    F = ctx.F
    seen_fns = set()
    n = 0
    for sink in SINKS:
        ck.need("fn " + sink, F.body(sink))
        per = {}
        for b, bb, t in F.call_sites(sink):
            i = per.get(b.nname, 0)
            per[b.nname] = i + 1
            n += 1
            seen_fns.add(b.nname)
            ck.functions.add(b.nname)
            key = "%s->%s#%d" % (b.nname, sink.split("::")[-1], i)
            if b.nname in EXCEPTIONS:
                ck.ob("sinks", key, True, "exception (listed): %s" % EXCEPTIONS[b.nname], span=t["loc"], fn=b.nname, nontrivial=False)
                continue
            ok, why = canonical_at(ctx, b, bb, 1)
            ck.ob("sinks", key, ok, "%s receives a canonical path: %s" % (sink.split("::")[-1], why), span=t["loc"], fn=b.nname)
    ck.floor("path->id sink call sites", n, 5)
    ck.ob("sinks", "sink-callers", seen_fns <= EXPECTED_SINK_FNS, "functions converting names to ids: %s (expected within %s)" % (sorted(seen_fns), sorted(EXPECTED_SINK_FNS)), span="graph::GraphFiles")
    # other ways to make a FileId from outside: FileId::from / all_ids only
    users = sorted({b.nname for b, _, _ in F.call_sites("<graph::FileId as std::convert::From<usize>>::from")})
    ck.ob("sinks", "no-raw-ids", set(users) <= {"densemap::DenseMap::next_id", "densemap::DenseMap::push"} or not users, "FileId::from(usize) is used only by DenseMap (%s)" % users, span="graph::FileId")


def single_map(ck, ctx):
    F = ctx.F
    C.single_writer(ck, ctx, "single-map", "graph::GraphFiles", "by_name", ["graph::GraphFiles::id_from_canonical"])
    C.single_writer(ck, ctx, "single-map", "graph::GraphFiles", "by_id", ["graph::GraphFiles::id_from_canonical", "graph::Graph::add_build"])
    C.single_writer(ck, ctx, "single-map", "graph::File", "name", [], need_writer=False)
    b = ck.need("fn graph::GraphFiles::id_from_canonical", F.body("graph::GraphFiles::id_from_canonical"))
    cfg = ctx.cfg(b)
    R = ctx.res(b)
    ck.functions.add(b.nname)
    es = [z for z in Q.enum_switches(ctx, b) if z[3] == "std::collections::hash_map::Entry"]
    ck.floor("Entry switch in id_from_canonical", len(es), 1)
    for x, t, scrut, adt, vmap in es:
        s = strip(scrut)
        ok_e = s[0] == "call" and s[1].endswith("HashMap::entry") and strip(s[2][1])[0] == "param" and field_chain(strip(s[2][0]))[1][-1:] == ["by_name"]
        ck.ob("single-map", "entry-of-name", ok_e, "the map is probed with the given name (%s)" % show(s, 2), span=t.get("loc"), fn=b.nname)
        # Occupied -> returns the stored id
        occ = cfg.edge_targets(x, vmap.get("Occupied"))
        vac = cfg.edge_targets(x, vmap.get("Vacant"))
        ro = cfg.reach_avoid(occ)
        rv = cfg.reach_avoid(vac)
        pushes_o = [y for y in ro if b.blocks[y]["term"] and b.blocks[y]["term"]["k"] == "call" and callee_of(b.blocks[y]["term"]).endswith("DenseMap::push")]
        ck.ob("single-map", "occupied-returns-existing", not pushes_o and any(b.blocks[y]["term"] and b.blocks[y]["term"]["k"] == "call" and callee_of(b.blocks[y]["term"]).endswith("OccupiedEntry::get") for y in ro), "an existing name yields its stored id and creates nothing", span=t.get("loc"), fn=b.nname)
        pv = [y for y in rv if b.blocks[y]["term"] and b.blocks[y]["term"]["k"] == "call" and callee_of(b.blocks[y]["term"]).endswith("DenseMap::push")]
        iv = [y for y in rv if b.blocks[y]["term"] and b.blocks[y]["term"]["k"] == "call" and callee_of(b.blocks[y]["term"]).endswith("VacantEntry::insert")]
        okv = len(pv) == 1 and len(iv) == 1
        if okv:
            fe = strip(R.arg(pv[0], 1))
            fields = F.struct_fields("graph::File")
            nm = strip(fe[4][fields.index("name")]) if fe[0] == "agg" else ("unk",)
            okv = fe[0] == "agg" and any(c[1].endswith("VacantEntry::key") for c in calls_in(nm))
            idv = strip(R.arg(iv[0], 1))
            okv = okv and idv[0] == "call" and idv[1].endswith("DenseMap::push") and idv[3] == pv[0]
        ck.ob("single-map", "vacant-creates-one-node", okv, "a new name creates exactly one File{name: <that key>} and maps the name to its id", span=t.get("loc"), fn=b.nname)
    lb = ck.need("fn graph::GraphFiles::lookup", F.body("graph::GraphFiles::lookup"))
    LR = ctx.res(lb)
    e = strip(LR.local(0, LR.term_at(ctx.cfg(lb).returns()[0])))
    ck.ob("single-map", "lookup", any(c[1].endswith("HashMap::get") and field_chain(strip(c[2][0]))[1][-1:] == ["by_name"] and strip(c[2][1])[0] == "param" for c in calls_in(e)), "lookup(name) reads by_name[name] (%s)" % show(e, 2), span=lb.loc, fn=lb.nname)


def wrapper(ck, ctx):
    F = ctx.F
    b = ck.need("fn " + TOCP, F.body(TOCP))
    cfg = ctx.cfg(b)
    R = ctx.res(b)
    cs = Q.sites_in(b, CANON)
    ok = len(cs) == 1 and all(cfg.dominates(cs[0][0], r) for r in cfg.returns())
    if ok:
        ret_op = None
        for bb, s in Q.ret_assignments(b):
            if "rv" in s and s["rv"]["k"] == "use" and s["rv"]["op"]["k"] in ("copy", "move"):
                ret_op = s["rv"]["op"]["place"]["l"]
        tgt = _borrow_target(b, cs[0][0], b.blocks[cs[0][0]]["term"]["args"][0]["place"]["l"])
        ok = ret_op is not None and tgt == ret_op
    ck.ob("wrapper", TOCP, ok, "to_owned_canon_path canonicalises in place the very String it returns", span=b.loc, fn=b.nname)
    # evaluate_path / evaluate_paths go through Loader::path
    for fn, callee in (("load::Loader::evaluate_path", "load::Loader::path"),):
        fb = ck.need("fn " + fn, F.body(fn))
        FR = ctx.res(fb)
        e = strip(FR.local(0, FR.term_at(ctx.cfg(fb).returns()[0])))
        ck.ob("wrapper", fn, e[0] == "call" and e[1] == callee and any(c[1].endswith("EvalString::evaluate") for c in calls_in(e)), "%s returns Loader::path(evaluate(..))" % fn, span=fb.loc, fn=fn)
    clo = F.body("load::Loader::evaluate_paths::{closure#0}")
    ok = clo is not None and any(callee_of(t) == "load::Loader::evaluate_path" for _, t in clo.calls())
    ck.ob("wrapper", "load::Loader::evaluate_paths", ok, "evaluate_paths maps every path through evaluate_path", span=clo.loc if clo else None)
    # ids used for build ins/outs/defaults come only from evaluate_path[s]
    ab = ck.need("fn load::Loader::add_build", F.body("load::Loader::add_build"))
    AR = ctx.res(ab)
    for adt, fld in (("graph::BuildIns", "ids"), ("graph::BuildOuts", "ids")):
        for _, bb, s in [x for x in Q.adt_constructors(F, adt) if x[0].nname == ab.nname]:
            fields = F.struct_fields(adt)
            e = strip(AR.agg_op(bb, s, fields.index(fld)))
            ck.ob("wrapper", "add_build|%s.ids" % adt.split("::")[-1], e[0] == "call" and e[1] == "load::Loader::evaluate_paths", "%s.ids = %s" % (adt, show(e, 1)), span=s.get("loc"), fn=ab.nname)


def component_step(ck, ctx):
    """one stack entry per copied component: the copy after each components.push ends at the FIRST separator"""
    from n2sa import bytetable as BT
    F = ctx.F
    b = ck.need("fn " + CANON, F.body(CANON))
    cfg = ctx.cfg(b)
    R = ctx.res(b)
    ck.functions.add(CANON)
    pushes = Q.sites_in(b, "canon::StackStack::push")
    copies = [(bb, t) for bb, t in b.calls() if callee_of(t).endswith("copy_within")]
    poss = [(bb, t) for bb, t in b.calls() if callee_of(t).endswith("Iterator>::position") or callee_of(t).endswith("Iterator::position")]
    ok_shape = len(pushes) == 1 and len(copies) == 1 and len(poss) == 1
    if ok_shape:
        hdr = cfg.enclosing_loop_header(pushes[0][0])
        ok_shape = hdr is not None and all(cfg.enclosing_loop_header(x) == hdr for x in (copies[0][0], poss[0][0])) and cfg.dominates(pushes[0][0], copies[0][0]) and cfg.dominates(poss[0][0], copies[0][0])
        # every path from the push to the next iteration performs the copy
        r = cfg.reach_avoid([y for y, _ in cfg.succ[pushes[0][0]]], avoid_blocks=[copies[0][0]])
        ok_shape = ok_shape and hdr not in r
    ck.ob("component-step", "push-then-one-copy", ok_shape, "each loop iteration that pushes a stack entry performs exactly one copy_within, after locating its end with one position() scan", span=b.loc, fn=CANON)
    if not ok_shape:
        return
    pbb, pt = poss[0]
    it = strip(R.arg(pbb, 0))
    # element-wise iteration over data[src..]
    ok_it = it[0] == "call" and it[1].endswith("Index<I>>::index") and strip(it[2][1])[0] == "agg" and strip(it[2][1])[2] == "std::ops::RangeFrom"
    raw = R.arg(pbb, 0)
    iters = [c[1] for c in calls_in(raw) if c[1].startswith("core::slice::")]
    ok_it = ok_it and iters == ["core::slice::iter"]
    ck.ob("component-step", "scan-is-bytewise-from-src", ok_it, "the scan iterates the bytes of data[src..] one by one (%s)" % iters, span=pt["loc"], fn=CANON)
    clo = strip(R.arg(pbb, 1))
    cb = F.body(clo[2]) if clo[0] == "agg" and clo[1] == "closure" else None
    tab = BT.predicate_table(cb, 2) if cb is not None else {}
    seps = tab.get(1, [])
    ck.ob("component-step", "boundary-is-separator", seps == [47, 92] and not tab.get(None), "the scan stops at the first byte in %s (need exactly '/' and '\\'); evaluated for all 256 byte values" % [chr(x) for x in seps], span=cb.loc if cb else b.loc, fn=CANON)
    # stop = src + pos + 1  |  len
    cbb, ct = copies[0]
    rng = strip(R.arg(cbb, 1))
    ok_stop = False
    if rng[0] == "agg" and rng[2] == "std::ops::Range" and ok_it:
        lo, hi = strip(rng[4][0]), rng[4][1]
        src_from = strip(strip(it[2][1])[4][0])
        forms = []
        for a in alts(hi):
            a = strip(a)
            if a[0] == "call" and a[1].endswith("Vec::len"):
                forms.append("len")
            elif a[0] == "bin" and a[1] == "Add" and a[3] == ("const", 1) and strip(a[2])[0] == "bin" and strip(a[2])[1] == "Add" and any(c[3] == pbb for c in calls_in(strip(a[2])[3])):
                # the base of `.. + pos + 1` is the same expression the scan started from (src)
                forms.append("src+pos+1")
            else:
                forms.append("?" + show(a, 2))
        ok_stop = sorted(forms) == ["len", "src+pos+1"] and show(lo, 3) == show(src_from, 3)
        # the end of the span is counted from the read cursor: `stop = src + pos + 1` (base followed through the MIR temporaries)
        stop_bases = set()
        for bi in cfg.reach:
            for s_ in b.blocks[bi]["stmts"]:
                if s_["k"] == "assign" and not s_["place"]["p"] and b.local_name(s_["place"]["l"]) == "stop" and s_["rv"]["k"] == "use" and s_["rv"]["op"]["k"] in ("copy", "move") and s_["rv"]["op"]["place"]["p"]:
                    stop_bases.add(_named_base(b, cfg, bi, {"k": "copy", "place": {"l": s_["rv"]["op"]["place"]["l"], "p": []}}))
        ok_stop = ok_stop and stop_bases == {"src"}
    ck.ob("component-step", "copy-ends-after-first-separator", ok_stop, "copy_within copies data[src .. src+pos+1] (or to the end when no separator follows)", span=ct["loc"], fn=CANON)
    # separator class is the same everywhere in canonicalize_path: every byte switch with arm '/' also has arm '\\'
    bad = []
    for sbb, st, e in Q.switches(ctx, b):
        vals = {v for v, _ in st["arms"]}
        if (47 in vals) != (92 in vals):
            bad.append(sbb)
    ck.ob("component-step", "separator-class-consistent", not bad, "every byte dispatch in canonicalize_path treats '/' and '\\' alike (inconsistent switches: %s)" % bad, span=b.loc, fn=CANON)


# the canonicaliser's per-component decision table: (byte class at src, at src+1, at src+2, stack pop) -> what one loop iteration does.
# `=span` stands for "dst advanced by the copied span, src set to its end".
CANON_TABLE = {
    ("none", "-", "-", "-"): ("exit", (), (), 0, 0),
    ("sep", "-", "-", "-"): ("iter", ("+1",), (), 0, 0),
    ("dot", "none", "-", "-"): ("exit", (), (), 0, 0),
    ("dot", "sep", "-", "-"): ("iter", ("+2",), (), 0, 0),
    ("dot", "dot", "none", "some"): ("iter", ("+3",), ("=ofs",), 0, 0),
    ("dot", "dot", "sep", "some"): ("iter", ("+3",), ("=ofs",), 0, 0),
    ("dot", "dot", "none", "none"): ("iter", ("+3",), ("+1", "+1"), 0, 0),
    ("dot", "dot", "sep", "none"): ("iter", ("+3",), ("+1", "+1", "+1"), 0, 0),
    ("dot", "dot", "dot", "-"): ("iter", ("=span",), ("=span",), 1, 1),
    ("dot", "dot", "other", "-"): ("iter", ("=span",), ("=span",), 1, 1),
    ("dot", "other", "-", "-"): ("iter", ("=span",), ("=span",), 1, 1),
    ("other", "-", "-", "-"): ("iter", ("=span",), ("=span",), 1, 1),
}


def _named_base(b, cfg, bb, op, depth=0):
    """name of the user variable an index operand is computed from (`x`, `x + k`, through MIR temporaries, also across the assert block
    of a checked addition), or None"""
    if depth > 8 or op is None or op.get("k") not in ("copy", "move"):
        return None
    pl = op["place"]
    l = pl["l"]
    if not pl["p"] and l in b.names:
        return b.names[l]
    blocks = [bb] + [p_ for p_, _ in cfg.pred[bb]] + [q for p_, _ in cfg.pred[bb] for q, _ in cfg.pred[p_]]
    for x in blocks:
        for s_ in reversed(b.blocks[x]["stmts"]):
            if s_["k"] == "assign" and not s_["place"]["p"] and s_["place"]["l"] == l:
                rv = s_["rv"]
                if rv["k"] in ("use", "cast"):
                    return _named_base(b, cfg, x, rv["op"], depth + 1)
                if rv["k"] == "bin" and rv["op"] in ("Add", "AddWithOverflow", "Sub", "SubWithOverflow"):
                    return _named_base(b, cfg, x, rv["a"], depth + 1)
                return None
    return None


def dispatch_table(ck, ctx):
    """What one iteration of canonicalize_path's loop does, for every combination of the byte classes it looks at (the byte at src,
    src+1, src+2: absent / separator / '.' / anything else, several representatives each) and of the component stack being empty or
    not: computed by path-sensitive propagation from the loop header with the `data.get(..)` results enumerated, compared with the
    specification table (separators and `./` are skipped; `..` pops a component or, with nothing to pop, is kept; a trailing `.` is
    trimmed; anything else is one pushed-and-copied component)."""
    from n2sa.flagint import FlagInt, OPTION
    import collections
    F = ctx.F
    b = ck.need("fn " + CANON, F.body(CANON))
    cfg = ctx.cfg(b)
    R = ctx.res(b)
    hdrs = cfg.loop_headers()
    if len(hdrs) != 1:
        ck.ob("dispatch-table", "loop", False, "canonicalize_path has %d loops (need the one component loop)" % len(hdrs), span=b.loc, fn=CANON)
        return
    hdr = hdrs[0]
    loop = cfg.natural_loop(hdr)
    gets = {}
    bases = {}
    for bb, t in b.calls():
        if callee_of(t) == "core::slice::get" and bb in loop:
            e = strip(R.arg(bb, 1))
            gets[bb] = e[3][1] if e[0] == "bin" and e[1] == "Add" and e[3][0] == "const" else 0
            bases["get@+%d#bb%d" % (gets[bb], bb)] = _named_base(b, cfg, bb, t["args"][1])
        if callee_of(t) == "canon::StackStack::push" and bb in loop:
            bases["push"] = _named_base(b, cfg, bb, t["args"][1])
    ck.ob("dispatch-table", "cursors", all(v == "src" for k, v in bases.items() if k.startswith("get")) and bases.get("push") == "dst" and len(bases) >= 4, "the bytes examined are data[src], data[src+1], data[src+2] (read cursor) and the offset pushed on the component stack is dst (write cursor): %s" % {k.split("#")[0]: v for k, v in bases.items()}, span=b.loc, fn=CANON)
    names = {nm: l for l, nm in b.names.items()}
    src, dst = names.get("src"), names.get("dst")
    ck.ob("anchor", "canonicalize_path src/dst cursors", src is not None and dst is not None, "the read and write cursors exist", nontrivial=False)
    if src is None or dst is None:
        return
    eff = {}
    for bi in loop:
        for si, s_ in enumerate(b.blocks[bi]["stmts"]):
            if s_["k"] == "assign" and not s_["place"]["p"] and s_["place"]["l"] in (src, dst):
                e = R.stmt_rvalue(bi, s_)
                nm = "src" if s_["place"]["l"] == src else "dst"
                if e[0] == "bin" and e[1] == "Add" and e[3][0] == "const":
                    eff.setdefault(bi, []).append((nm, "+%d" % e[3][1]))
                elif e[0] == "field" and any(c[1] == "canon::StackStack::pop" for c in calls_in(e)):
                    eff.setdefault(bi, []).append((nm, "=ofs"))
                elif any(c[1].endswith("position") for c in calls_in(e)):
                    eff.setdefault(bi, []).append((nm, "=span"))
                else:
                    eff.setdefault(bi, []).append((nm, "=?" + show(e, 4)[:40]))
    REPS = [("sep", 47), ("sep", 92), ("dot", 46), ("other", 97), ("other", 0), ("other", 255), ("other", 58), ("other", 45), ("other", 32)]

    def hook(fi, bi, t, callee, args, vals, ghost):
        if bi in gets:
            k = "c%d" % gets[bi]
            if k in ghost:
                cls, byte = ghost[k]
                return [(("en", OPTION, "None", ()), ghost)] if cls == "none" else [(("en", OPTION, "Some", (("cref", ("i", byte)),)), ghost)]
            out = [(("en", OPTION, "None", ()), dict(ghost, **{k: ("none", -1)}))]
            for cls, byte in REPS:
                out.append((("en", OPTION, "Some", (("cref", ("i", byte)),)), dict(ghost, **{k: (cls, byte)})))
            return out
        if callee == "canon::StackStack::pop":
            return [(("en", OPTION, "None", ()), dict(ghost, pop="none")), (("en", OPTION, "Some", None), dict(ghost, pop="some"))]
        if callee == "canon::StackStack::push":
            return [(None, dict(ghost, push=ghost.get("push", 0) + 1))]
        if callee.endswith("copy_within"):
            return [(None, dict(ghost, copy=ghost.get("copy", 0) + 1))]
        return None

    def onb(fi, bi, ghost):
        if bi == hdr:
            fi.observe("iter", bi, None, ghost)
            return False
        if bi not in loop:
            fi.observe("exit", bi, None, ghost)
            return False
        if bi in eff:
            g = dict(ghost)
            for nm, e in eff[bi]:
                g[nm] = g.get(nm, ()) + (e,)
            return g
        return None

    fi = FlagInt(F, b, hook, on_block=onb).run(start_bb=hdr)
    tab = collections.defaultdict(set)
    for tag, bb, _, g in fi.obs:
        g = dict(g)
        key = tuple((g.get("c%d" % k) or ("-",))[0] for k in range(3)) + (g.get("pop", "-"),)
        tab[key].add((tag, g.get("src", ()), g.get("dst", ()), g.get("push", 0), g.get("copy", 0)))
    ck.extra["canon_dispatch_table"] = {" ".join(k): [list(map(str, x)) for x in sorted(v)] for k, v in sorted(tab.items())}
    ck.extra.setdefault("flagint", {})["canonicalize_path"] = dict(states_explored=fi.visited, rows=len(tab))
    for key in sorted(set(CANON_TABLE) | set(tab)):
        got = sorted(tab.get(key, []))
        want = CANON_TABLE.get(key)
        ok = want is not None and got == [want] and not fi.capped
        ck.ob("dispatch-table", "|".join(key), ok, "bytes at src.. = %s, stack %s: one iteration does %s (specified: %s)" % (key[:3], key[3], got or "nothing reachable", want or "no such case"), span=b.loc, fn=CANON)


def run(ck, ctx):
    C.adapter_census(ck, ctx, "sinks", ("canon::", "load::", "graph::"))
    component_step(ck, ctx)
    dispatch_table(ck, ctx)
    sinks(ck, ctx)
    single_map(ck, ctx)
    wrapper(ck, ctx)


def run_config(ck, ctx):
    run(ck, ctx)
