"""C17 — an out-of-date manifest is regenerated and reloaded before anything else (structural clauses)."""
from n2sa import query as Q
from n2sa.expr import strip, show, field_chain, alts, calls_in, walk
from n2sa.facts import callee_of, norm
from . import common as C
from . import runloop as RL
from . import C01 as R01

EXPLANATION = (
    "Static conformance of the two-phase structure of run::build on rustc MIR of the current tree (trace::scope closures resolved to the function they "
    "wrap): (phase-order) every use of the requested targets — Work::lookup on an element of args.targets, want_file on a default, want_every_file — is "
    "dominated by either `the manifest is not an output` (lookup(build_filename) == None) or the successful return (`true`) of the phase-1 Work::run, which "
    "itself follows want_file(manifest target); (fail-stop) phase-1 `false` returns Ok(None) at once and errors propagate; (reload) exactly on "
    "phase-1 work.tasks_run != 0 the manifest is re-read with the same file name and a new Work is built whose graph, hashes, db and pools are the fields of "
    "that fresh State, assigned to the same variables phase 2 uses, and the phase-1 count is carried over; with tasks_run == 0 nothing is reloaded; "
    "(same-manifest) both loads and the manifest-target lookup use the -f name or `build.ninja`; (reuse) a step already Done from phase 1 is accepted by "
    "want_file (C01.ready-want). Decides these clauses, not what arbitrary generators do to the graph."
)
ASSUMPTIONS = ["arbitrary generator behaviour and the documented TODO (a phase-1 step that does not touch the manifest) are not decided"]
THOROUGH_CONFIGS = ["nodefault"]
BUILD = "run::build"


def _is_name(e):
    """expression denotes the manifest file name: args.build_filename.as_deref().unwrap_or("build.ninja")"""
    return any(c[1].endswith("Option::unwrap_or") and any(y == ("str", '"build.ninja"') for y in walk(c)) and any(field_chain(strip(z))[1][-1:] == ["build_filename"] for z in walk(c) if z[0] == "field") for c in calls_in(e)) or (strip(e)[0] == "call" and strip(e)[1].endswith("Option::unwrap_or"))


def analyse(ck, ctx):
    F = ctx.F
    b = ck.need("fn " + BUILD, F.body(BUILD))
    cfg = ctx.cfg(b)
    R = ctx.res(b)
    ck.functions.add(BUILD)
    runs = RL.scope_sites(ctx, b, RL.RUN)
    loads = RL.scope_sites(ctx, b, "load::read")
    news = Q.sites_in(b, "work::Work::new")
    lookups = Q.sites_in(b, "work::Work::lookup")
    ck.floor("Work::run sites in run::build", len(runs), 2)
    ck.floor("load::read sites in run::build", len(loads), 2)
    ck.floor("Work::new sites in run::build", len(news), 2)
    # order sites by dominance: phase 1 run dominates phase 2 run
    runs.sort(key=lambda x: sum(1 for y in runs if cfg.dominates(y[0], x[0])))
    p1, p2 = runs[0], runs[-1]
    info = dict(b=b, cfg=cfg, R=R, runs=runs, loads=loads, news=news, lookups=lookups, p1=p1, p2=p2)
    # manifest-target lookup: the lookup whose argument is the manifest name
    mt = [(bb, t) for bb, t in lookups if _is_name(R.arg(bb, 1))]
    info["mt"] = mt
    ne, se = C.option_edges(ctx, b, lambda s: s[0] == "call" and s[1] == "work::Work::lookup" and any(s[3] == x for x, _ in mt))
    info["mt_none"], info["mt_some"] = ne, se
    sw1 = RL.bool_switch_on_payload(ctx, b, p1[0])
    info["sw1"] = sw1
    return info


def phase_order(ck, ctx, info):
    b, cfg, R = info["b"], info["cfg"], info["R"]
    ck.ob("phase-order", "manifest-target-lookup", len(info["mt"]) == 1 and bool(info["mt_some"]), "run::build looks the manifest file name up as a target once and branches on it", span=b.loc, fn=BUILD)
    p1 = info["p1"]
    sw1 = info["sw1"]
    ok1 = Q.gated(cfg, p1[0], info["mt_some"])[0]
    wf = [(bb, t) for bb, t in Q.sites_in(b, "work::Work::want_file") if cfg.dominates(bb, p1[0])]
    ok1 = ok1 and len(wf) == 1 and any(y[0] == "downcast" and y[2] == "Some" for y in walk(R.arg(wf[0][0], 1))) and any(c[1] == "work::Work::lookup" for c in calls_in(R.arg(wf[0][0], 1)))
    ck.ob("phase-order", "phase1-builds-manifest", ok1 and sw1 is not None, "phase 1 = want_file(<manifest target>) then Work::run, only when the manifest is an output", span=p1[1]["loc"], fn=BUILD)
    if sw1 is None:
        return
    gate = set(info["mt_none"]) | {(sw1[0], sw1[1])}
    users = []
    for bb, t in info["lookups"]:
        if (bb, t) in info["mt"]:
            continue
        users.append(("lookup(target)", bb, t))
    for bb, t in Q.sites_in(b, "work::Work::want_file"):
        if cfg.dominates(bb, p1[0]):
            continue
        users.append(("want_file", bb, t))
    for bb, t in Q.sites_in(b, "work::Work::want_every_file"):
        users.append(("want_every_file", bb, t))
    users.append(("phase-2 run", info["p2"][0], info["p2"][1]))
    # uses hidden in closures (iterator adapters etc.)
    known_scope = {x[2] for x in info["runs"] + info["loads"] if x[2]}
    for bi, cname, cal in C.closure_use_sites(ctx, b, {"work::Work::lookup", "work::Work::want_file", "work::Work::want_every_file", RL.RUN}):
        if cname in known_scope:
            continue
        users.append(("closure %s calling %s" % (cname.split("::")[-1], cal.split("::")[-1]), bi, {"loc": Q.loc_of(b, bi)}))
    ck.floor("uses of the requested targets in run::build", len(users), 4)
    for i, (what, bb, t) in enumerate(users):
        ok = Q.gated(cfg, bb, gate)[0]
        ck.ob("phase-order", "%s#%d" % (what, i), ok, "%s is reached only when the manifest is not an output, or after phase-1 Work::run returned true" % what, span=t["loc"], fn=BUILD)
    # targets: the names looked up come from args.targets
    for bb, t in info["lookups"]:
        if (bb, t) in info["mt"]:
            continue
        e = R.arg(bb, 1)
        ck.ob("phase-order", "lookup-arg-is-target", any(field_chain(strip(y))[1][-1:] == ["targets"] for y in walk(e) if y[0] == "field"), "the names resolved in phase 2 are the elements of args.targets", span=t["loc"], fn=BUILD)


def defaults_current(ck, ctx, info, rule, key):
    """every read of State.default after phase 1 (the emptiness test and the iteration handed to want_file) is of whichever
    State is current: its provenance joins the first load and the reload, never the first load alone"""
    b, cfg, R = info["b"], info["cfg"], info["R"]
    loads = sorted(info["loads"], key=lambda x: sum(1 for y in info["loads"] if cfg.dominates(y[0], x[0])))
    l1, l2 = loads[0], loads[-1]
    st_uses = []
    for bb, t in Q.sites_in(b, "std::vec::Vec::is_empty"):
        e = strip(R.arg(bb, 0))
        if C.names_field(e, "default"):
            st_uses.append((bb, e))
    for bb, t in Q.sites_in(b, "work::Work::want_file"):
        if cfg.dominates(bb, info["p1"][0]):
            continue
        e = R.arg(bb, 1)
        for y in walk(e):
            if y[0] == "phi" and C.names_field(y, "default"):
                st_uses.append((bb, y))
                break
            if y[0] == "field" and field_chain(strip(y))[1][-1:] == ["default"]:
                st_uses.append((bb, strip(y)))
                break
    okd = len(st_uses) >= 2 and all(any(c[3] == l2[0] for c in calls_in(e)) and any(c[3] == l1[0] for c in calls_in(e)) for bb, e in st_uses)
    ck.ob(rule, key, okd, "State.default read in phase 2 (%d reads: emptiness test, iteration) is that of whichever State is current (first load or reload)" % len(st_uses), span=b.loc, fn=BUILD)


def reload(ck, ctx, info):
    F = ctx.F
    b, cfg, R = info["b"], info["cfg"], info["R"]
    sw1 = info["sw1"]
    if sw1 is None:
        return
    loads = sorted(info["loads"], key=lambda x: sum(1 for y in info["loads"] if cfg.dominates(y[0], x[0])))
    news = sorted(info["news"], key=lambda x: sum(1 for y in info["news"] if cfg.dominates(y[0], x[0])))
    l1, l2 = loads[0], loads[-1]
    n1, n2 = news[0], news[-1]

    g_idle, g_ran = C.zero_test_edges(ctx, b, lambda e: field_chain(e)[1][-1:] == ["tasks_run"])
    ck.ob("reload", "tested-after-phase1", len(g_ran) == 1 and all(Q.gated(cfg, x, {(sw1[0], sw1[1])})[0] for x, _ in g_ran), "after a successful phase 1, work.tasks_run is compared with 0", span=b.loc, fn=BUILD)
    ok = Q.gated(cfg, l2[0], g_ran)[0] and Q.gated(cfg, n2[0], g_ran)[0]
    ck.ob("reload", "reload-iff-ran", ok, "the second load::read and Work::new happen only on tasks_run != 0", span=l2[1]["loc"], fn=BUILD)
    # on the ran edge the reload is unavoidable before phase 2
    starts = [tt for (x, lab) in g_ran for tt in cfg.edge_targets(x, lab)]
    tr = RL.try_of_call(ctx, b, l2[0])
    brk = {(tr[0], tr[2])} if tr else set()
    r = cfg.reach_avoid(starts, avoid_blocks=[n2[0]], avoid_edges=brk)
    ck.ob("reload", "reload-unavoidable", info["p2"][0] not in r and tr is not None, "once a regeneration command ran, phase 2 cannot start without the reload (a failing reload propagates)", span=n2[1]["loc"], fn=BUILD)
    # idle edge: no reload
    starts_i = [tt for (x, lab) in g_idle for tt in cfg.edge_targets(x, lab)]
    ri = cfg.reach_avoid(starts_i, avoid_blocks=[info["p2"][0]])
    ck.ob("reload", "no-reload-when-up-to-date", l2[0] not in ri and n2[0] not in ri, "with tasks_run == 0 nothing is reloaded", span=b.loc, fn=BUILD)
    # the new Work is built from the fresh State
    names = ["graph", "hashes", "db", None, None, "pools"]
    okf = True
    det = []
    for i, fld in enumerate(names):
        if fld is None:
            continue
        e = strip(R.arg(n2[0], i))
        base, fs = field_chain(e)
        from_l2 = any(c[3] == l2[0] for c in calls_in(e))
        from_l1 = any(c[3] == l1[0] for c in calls_in(e))
        det.append("%s<-%s%s" % (fld, ".".join(fs[-1:]), "(fresh)" if from_l2 and not from_l1 else "(STALE)" ))
        okf = okf and fs[-1:] == [fld] and from_l2 and not from_l1
    ck.ob("reload", "new-work-from-fresh-state", okf, "the reloaded Work::new takes %s" % det, span=n2[1]["loc"], fn=BUILD)
    # options/progress same as the first
    same = strip(R.arg(n1[0], 3)) == strip(R.arg(n2[0], 3))
    ck.ob("reload", "same-options", same, "both Work::new calls receive &args.options", span=n2[1]["loc"], fn=BUILD)
    # assigned to the variable phase 2 uses
    recv2 = strip(R.arg(info["p2"][0], 1)) if len(info["p2"][1]["args"]) > 1 else None
    wl = None
    for y in walk(recv2 or ()):
        pass
    # the phase-2 closure captures &mut work: find the local
    clo_arg = info["p2"][1]["args"][1]
    wlocal = None
    if clo_arg["k"] in ("copy", "move"):
        for s in b.blocks[info["p2"][0]]["stmts"]:
            if s["k"] == "assign" and s["rv"]["k"] == "agg" and s["rv"]["ak"] == "closure":
                o = s["rv"]["ops"][0]
                if o["k"] in ("copy", "move"):
                    for s2 in b.blocks[info["p2"][0]]["stmts"]:
                        if s2["k"] == "assign" and not s2["place"]["p"] and s2["place"]["l"] == o["place"]["l"] and s2["rv"]["k"] == "ref":
                            wlocal = s2["rv"]["place"]["l"]
    assigned = False
    if wlocal is not None:
        for bi in cfg.reach:
            for s in b.blocks[bi]["stmts"]:
                if s["k"] == "assign" and not s["place"]["p"] and s["place"]["l"] == wlocal:
                    e = strip(R.stmt_rvalue(bi, s))
                    if e[0] == "call" and e[1] == "work::Work::new" and e[3] == n2[0]:
                        assigned = True
    ck.ob("reload", "assigned-to-phase2-work", assigned, "the reloaded Work replaces the variable `%s` that phase 2 runs" % (b.local_name(wlocal) if wlocal is not None else "?"), span=n2[1]["loc"], fn=BUILD)
    defaults_current(ck, ctx, info, "reload", "defaults-follow-reload")
    # same manifest name for both loads and the lookup
    for which, site in (("first", l1), ("reload", l2)):
        clo = F.body(site[2]) if site[2] else None
        ok = False
        if clo is not None:
            CR = ctx.res(clo)
            for bb, t in Q.sites_in(clo, "load::read"):
                e = strip(CR.arg(bb, 0))
                ok = any(y[0] == "field" and strip(y[1])[0] == "param" for y in walk(e))
            # the captured value in build is the manifest name
            for s in b.blocks[site[0]]["stmts"]:
                if s["k"] == "assign" and s["rv"]["k"] == "agg" and s["rv"]["ak"] == "closure":
                    if not s["rv"]["ops"]:
                        ok = False
                        continue
                    ce = R.agg_op(site[0], s, 0)
                    ok = ok and _is_name(ce)
        ck.ob("same-manifest", "load-%s" % which, ok, "the %s load::read receives the manifest name (-f value or build.ninja)" % which, span=site[1]["loc"], fn=BUILD)


def ids_across_reload(ck, ctx, info):
    """A FileId looked up in the phase-1 graph and used after the reload (the `already built above` test, want_every_file's
    exclusion) denotes the same file only if that file has the same id in every generation: load::read interns the manifest
    name into the still-empty graph before anything is parsed.  (If build() re-resolved the name after the reload this would
    not be needed: that alternative is recognised too.)"""
    F = ctx.F
    b, cfg, R = info["b"], info["cfg"], info["R"]
    news = sorted(info["news"], key=lambda x: sum(1 for y in info["news"] if cfg.dominates(y[0], x[0])))
    n2 = news[-1]
    old_lookups = [bb for bb, t in info["lookups"] if not cfg.can_reach(n2[0], bb)]
    after = cfg.reach_avoid([y for y, _ in cfg.succ[n2[0]]])
    stale_uses = []
    for x in sorted(after):
        blk = b.blocks[x]
        t = blk["term"]
        es = []
        if t and t["k"] == "call":
            es = [R.arg(x, i) for i in range(len(t["args"]))]
        elif t and t["k"] == "switch":
            es = [R.discr(x)]
        for e in es:
            if any(c[1] == "work::Work::lookup" and c[3] in old_lookups for c in calls_in(e)):
                stale_uses.append(x)
                break
    ck.extra["ids_used_across_reload"] = len(stale_uses)
    if not stale_uses:
        ck.ob("reload", "ids-across-reload", True, "no FileId resolved in the phase-1 graph is used after the reload", span=b.loc, fn=BUILD)
        return
    # the ids used across the reload are those of the manifest target only
    users = {x for x, _ in info["mt"]}
    only_mt = all(o in users for o in old_lookups)
    rd = ck.need("closure load::read::{closure#0}", F.body("load::read::{closure#0}"))
    RR = ctx.res(rd)
    rcfg = ctx.cfg(rd)
    ck.functions.add(rd.nname)
    interns = [(bb, t) for bb, t in rd.calls() if callee_of(t) == "graph::GraphFiles::id_from_canonical"]
    parses = [(bb, t) for bb, t in rd.calls() if callee_of(t) == "load::Loader::parse_with_parser"]
    ok = len(interns) >= 1 and len(parses) == 1
    if ok:
        ibb = interns[0][0]
        e = strip(RR.arg(ibb, 1))
        from_name = any(c[1].endswith("to_owned_canon_path") for c in calls_in(e)) and any(y[0] == "field" and strip(y[1])[0] == "param" for y in walk(e))
        first = all(rcfg.dominates(ibb, bb) for bb, _ in parses) and all(rcfg.dominates(ibb, bb) or bb == ibb for bb, _ in interns)
        # the graph is still empty: Loader::new interns nothing
        ln = F.body("load::Loader::new")
        empty = ln is not None and not any(callee_of(t).endswith(("id_from_canonical", "Graph::add_build")) for _, t in ln.calls())
        rb_ = F.body("load::read")
        newsite = [bb for bb, t in rb_.calls() if callee_of(t) == "load::Loader::new"] if rb_ is not None else []
        ok = from_name and first and empty and len(newsite) == 1
    ck.ob("reload", "ids-across-reload", ok and only_mt, "the manifest target's FileId, resolved before the reload and used after it (%d uses), is generation-independent: load::read interns the manifest name into the empty graph before parsing anything" % len(stale_uses), span=rd.loc, fn=rd.nname)


def run(ck, ctx):
    C.adapter_census(ck, ctx, "reload", ("run::", "load::"))
    info = analyse(ck, ctx)
    phase_order(ck, ctx, info)
    RL.run_false_stops(ck, ctx, "fail-stop")
    reload(ck, ctx, info)
    ids_across_reload(ck, ctx, info)
    # both loads open the same log: its location (builddir) is decided by the top-level manifest alone
    from . import C18 as R18
    R18.flags(ck, ctx)
    R01.ready_want(ck, ctx)
    from . import C19 as R19
    R19.tasks_run(ck, ctx)
    # a generator input that was learned from its depfile and has since been deleted makes the manifest out of date (regenerate),
    # it does not abort the invocation before the generator could run
    from . import dirty as D
    D.files_missing(ck, ctx, rule="out-of-date")


def run_config(ck, ctx):
    run(ck, ctx)
