"""C02 — a successful incremental build equals a clean build (structural clauses)."""
from . import common as C
from . import dirty as D
from . import accessors as ACC
from . import C01 as R01

EXPLANATION = (
    "Static conformance of the dirty-check and record discipline on rustc MIR of the current tree: (skip-needs-hash) check_build_dirty returns Ok(false) "
    "only for a phony step or when check_build_files_missing said nothing is missing AND a recorded hash exists AND hash_build over the current file state "
    "equals it; (missing-is-dirty) every missing dirtying input, discovered input or output yields Some and can never end in `not dirty`; ensure_input_files "
    "and stat_all_outputs examine every id with no early exit; graph::stat maps NotFound to Missing; (hash-covers) build_manifest feeds dirtying inputs, "
    "discovered inputs, command line, rspfile (iff present) and outputs, each id contributing name and mtime, RspFile's Hash covers path and content, and the "
    "explain sibling visits the same ids; (record-discipline) db::Writer::write_build has one call site, dominated by the re-stat of all inputs (after the "
    "discovered list was replaced) and of all outputs, with a hash computed after those stats, and unreachable once anything is Missing; every normal return "
    "of record_finished has stat'ed all outputs so dependents see fresh mtimes; (hashes-frozen) the comparison baseline is written only while loading the "
    "log; (order) a step is checked only after its producers are Done (C01 readiness rules). Decides these clauses, not history-level output equality."
)
ASSUMPTIONS = [
    "a content change comes with an mtime change; nothing else writes the tree while n2 runs; phony aliases are not dirtying inputs (finding F8, behavioural, no static rule)",
    "history-level equivalence with a clean build is not decided",
]
THOROUGH_CONFIGS = ["nodefault"]


def run(ck, ctx):
    C.adapter_census(ck, ctx, "record-discipline", ("work::", "hash::", "graph::"))
    D.decision(ck, ctx)
    D.files_missing(ck, ctx)
    D.ensure_and_stat(ck, ctx)
    D.hash_covers(ck, ctx)
    D.record_discipline(ck, ctx)
    D.hashes_frozen(ck, ctx)
    ACC.accessors(ck, ctx, only=["graph::Build::dirtying_ins", "graph::Build::discovered_ins", "graph::Build::outs"])
    R01.ready_recheck(ck, ctx)
    R01.success_only(ck, ctx)


def run_config(ck, ctx):
    run(ck, ctx)
