"""C20 — status rendering never breaks the build (structural clauses)."""
from n2sa import query as Q
from n2sa.expr import strip, show, field_chain, alts, calls_in, walk
from n2sa.facts import callee_of, norm
from . import common as C
from . import guards as G

EXPLANATION = (
    "Static conformance of the render path's partial operations on rustc MIR of the current tree: (char-boundary) every str cut with a non-constant index "
    "(str range index, String::truncate, split_at, ...) is either a len() of the same string / of a boundary-safe prefix of it, or dominated by a fresh "
    "is_char_boundary(s, idx) == true edge on the same string and index local; (sub-guard / div-guard) every unsigned subtraction and division in "
    "progress_fancy.rs, progress.rs, progress_dumb.rs and terminal.rs is dominated by a comparison implying it cannot underflow / divide by zero, or by the "
    "modular contract (cols-contract) that terminal::get_cols returns Some(v) only on the `ws_col < 10` false edge, so get_cols().unwrap_or(80) >= 10; "
    "(lossy) raw output bytes enter the display only through String::from_utf8_lossy; (bar) progress_bar returns early for total == 0 and pushes only while "
    "len < target. (isolation, report only) the main thread takes the display lock with lock().unwrap(), so a render-thread panic would abort the build: the "
    "guards above are the load-bearing part. Decides these clauses, not the exact bar width nor stdout write failures."
)
ASSUMPTIONS = ["exact bar width and stdout write failures are not decided", "cfg(windows) terminal code is not analysed (Linux configuration)"]
THOROUGH_CONFIGS = ["nodefault"]
RENDER_PREFIXES = ("progress_fancy::", "progress::", "progress_dumb::", "terminal::", "<progress_fancy::", "<progress_dumb::")


def cols_contract(ck, ctx):
    F = ctx.F
    name = "terminal::unix::get_cols"
    b = ck.need("fn " + name, F.body(name))
    cfg = ctx.cfg(b)
    R = ctx.res(b)
    somes = [(bb, s) for bb, s in Q.ret_assignments(b) if "rv" in s and s["rv"]["k"] == "agg" and s["rv"]["variant"] == "Some"]

    def pred(e):
        e = strip(e)
        if e[0] == "bin" and e[1] == "Lt" and e[3][0] == "const" and e[3][1] >= 10 and "ws_col" in repr(e[2]):
            return "neg"
        if e[0] == "bin" and e[1] == "Ge" and e[3][0] == "const" and e[3][1] >= 10 and "ws_col" in repr(e[2]):
            return True
        return False

    g = C.bool_gate_edges(ctx, b, pred)
    ok = bool(somes) and all(Q.gated(cfg, bb, g)[0] for bb, s in somes)
    for bb, s in somes:
        v = strip(R.agg_op(bb, s, 0))
        ok = ok and "ws_col" in repr(v)
    ck.ob("cols-contract", name, ok, "get_cols returns Some(ws_col) only when ws_col >= 10 (gates %s)" % sorted(g), span=b.loc, fn=name)
    return 10 if ok else None


def lossy(ck, ctx):
    F = ctx.F
    b = ck.need("fn progress_fancy::FancyState::task_output", F.body("progress_fancy::FancyState::task_output"))
    R = ctx.res(b)
    ok = True  # nothing stored, nothing to render
    for bi, blk in enumerate(b.blocks):
        if blk["cleanup"]:
            continue
        for s in blk["stmts"]:
            if s["k"] == "assign" and s["place"]["p"] and s["place"]["p"][-1].get("name") == "last_line":
                e = R.stmt_rvalue(bi, s)
                ok = ok and any(c[1].endswith("from_utf8_lossy") for c in calls_in(e)) and not any(c[1].endswith("from_utf8_unchecked") or c[1].endswith("::unwrap") for c in calls_in(e))
    ck.ob("lossy", "task_output", ok, "whenever the last output line is stored it goes through String::from_utf8_lossy (any raw bytes are accepted)", span=b.loc, fn=b.nname)
    # no from_utf8_unchecked / from_utf8().unwrap() in render modules
    bad = []
    for fb in F.all_bodies():
        if fb.nname.startswith(RENDER_PREFIXES):
            for bb, t in fb.calls():
                c = callee_of(t)
                if c.endswith("from_utf8_unchecked") or c.endswith("str::from_utf8"):
                    bad.append((fb.nname, c))
    ck.ob("lossy", "no-unchecked-utf8", not bad, "render modules never reinterpret bytes as UTF-8 without checking (%s)" % bad, span="progress_fancy")


def bar(ck, ctx):
    F = ctx.F
    b = ck.need("fn progress_fancy::progress_bar", F.body("progress_fancy::progress_bar"))
    cfg = ctx.cfg(b)
    R = ctx.res(b)
    pushes = [(bb, t) for bb, t in b.calls() if callee_of(t).endswith("String::push")]
    ck.floor("String::push in progress_bar", len(pushes), 1)

    def pred(e):
        e = strip(e)
        return e[0] == "bin" and e[1] == "Lt" and strip(e[2])[0] == "call" and strip(e[2])[1].endswith("String::len")

    g = C.bool_gate_edges(ctx, b, pred)
    for i, (bb, t) in enumerate(pushes):
        ck.ob("bar", "push-bounded#%d" % i, Q.gated(cfg, bb, g, repeat=True)[0], "progress_bar pushes a tick only under a fresh `bar.len() < target_size` test", span=t["loc"], fn=b.nname)
    # target_size is clamped: sum * bar_size / total with sum <= total is not decided; the +1 special case is gated by target_size < bar_size
    def pred2(e):
        e = strip(e)
        return e[0] == "bin" and e[1] == "Lt" and strip(e[3])[0] == "param"
    g2 = C.bool_gate_edges(ctx, b, pred2)
    incs = [bi for bi in cfg.reach for si, s in enumerate(b.blocks[bi]["stmts"]) if s["k"] == "assign" and s["rv"]["k"] == "bin" and s["rv"]["op"] == "AddWithOverflow" and s["rv"]["b"]["k"] == "const" and s["rv"]["b"]["int"] == 1 and b.local_name(_src(b, bi, s["rv"]["a"])) == "target_size"]
    ck.ob("bar", "tick-bump-bounded", bool(incs) and all(Q.gated(cfg, x, g2)[0] for x in incs), "the `at least one tick` bump happens only while target_size < bar_size", span=b.loc, fn=b.nname)


def bar_partition(ck, ctx):
    """the bar is exactly bar_size wide only if its three segments add up to counts.total(): every displayed state is read exactly
    once in progress_bar, and total() is the sum of the same six slots"""
    from . import C19 as R19
    F = ctx.F
    b = F.body("progress_fancy::progress_bar")
    R = ctx.res(b)
    states = []
    for bb, t in b.calls():
        if callee_of(t) == "work::StateCounts::get":
            e = strip(R.arg(bb, 1))
            v = None
            for y in walk(e):
                if y[0] == "promoted" and isinstance(y[2], tuple) and y[2][0] == "enum":
                    v = y[2][2]
                if y[0] == "agg" and y[1] == "adt" and y[2] == "work::BuildState":
                    v = y[3]
            states.append(v)
    want = ["Done", "Failed", "Queued", "Ready", "Running", "Want"]
    ck.ob("bar", "segments-partition-total", sorted(str(s_) for s_ in states) == want, "progress_bar's segments read each of the six counted states exactly once (%s), so together they equal counts.total() and the last segment ends at bar_size" % sorted(str(s_) for s_ in states), span=b.loc, fn=b.nname)
    tot = [bb for bb, t in b.calls() if callee_of(t) == "work::StateCounts::total"]
    ck.ob("bar", "denominator-is-total", len(tot) == 1, "the denominator is counts.total()", span=b.loc, fn=b.nname)
    R19.total_sums_all(ck, ctx)


def _src(body, bi, op):
    if op["k"] in ("copy", "move") and not op["place"]["p"]:
        return op["place"]["l"]
    return -1


def isolation_report(ck, ctx):
    F = ctx.F
    n = 0
    for fb in F.all_bodies():
        if fb.nname.startswith("<progress_fancy::FancyConsoleProgress as progress::Progress>::"):
            cs = [callee_of(t) for _, t in fb.calls()]
            if any(c.endswith("Mutex::lock") for c in cs) and any(c.endswith("Result::unwrap") for c in cs):
                n += 1
    ck.extra["isolation_report_only"] = "%d Progress methods take the display lock with lock().unwrap(): a render-thread panic poisons the mutex and aborts the build; hence the guards are load-bearing" % n


def width(ck, ctx):
    """structural part of `cut to at most the terminal width`"""
    F = ctx.F
    b = ck.need("fn progress_fancy::task_message", F.body("progress_fancy::task_message"))
    cfg = ctx.cfg(b)
    R = ctx.res(b)
    ck.functions.add(b.nname)
    tr = Q.sites_in(b, "progress_fancy::truncate")
    cut = [(bb, t) for bb, t in b.calls() if callee_of(t) == "std::string::String::truncate"]
    ck.floor("truncate call in task_message", len(tr), 1)

    def pred_long(e):
        e = strip(e)
        if e[0] == "bin" and e[1] == "Ge" and strip(e[3])[0] == "param" and strip(e[3])[2] == "max_cols":
            l = strip(e[2])
            return l[0] == "bin" and l[1] == "Add" and all(strip(x)[0] == "call" and strip(x)[1].endswith("String::len") for x in (l[2], l[3]))
        return False

    g = C.bool_gate_edges(ctx, b, pred_long)
    ck.ob("width", "task_message|cut-when-too-long", len(g) == 1 and all(Q.gated(cfg, bb, g)[0] for bb, _ in tr + cut), "the message is cut exactly when message.len() + note.len() >= max_cols (so an uncut line is shorter than the terminal)", span=b.loc, fn=b.nname)
    # on that edge the cut is unavoidable
    starts = [tt for (x, lab) in g for tt in cfg.edge_targets(x, lab)]
    r = cfg.reach_avoid(starts, avoid_blocks=[bb for bb, _ in cut])
    ck.ob("width", "task_message|cut-unavoidable", bool(cut) and not (set(cfg.returns()) & r), "once too long, every path to the result cuts the message", span=b.loc, fn=b.nname)
    for bb, t in tr:
        m = strip(R.arg(bb, 1))
        ok = False
        ell = None
        if m[0] == "call" and m[1].endswith("saturating_sub"):
            a, c_ = strip(m[2][0]), strip(m[2][1])
            if a[0] == "param" and a[2] == "max_cols" and c_[0] == "bin" and c_[1] == "Add" and c_[3][0] == "const" and strip(c_[2])[0] == "call" and strip(c_[2])[1].endswith("String::len"):
                ell = c_[3][1]
                ok = True
        # the ellipsis pushed afterwards has exactly that many bytes
        lits = [strip(R.arg(x, 1))[1].strip('"') for x, tt in b.calls() if callee_of(tt).endswith("String::push_str") and strip(R.arg(x, 1))[0] == "str"]
        ok = ok and lits == ["..."] and ell == len("...")
        ck.ob("width", "task_message|budget", ok, "the message keeps at most max_cols - (note.len() + %s) bytes (saturating) and the ellipsis pushed has %s bytes" % (ell, [len(x) for x in lits]), span=t["loc"], fn=b.nname)
    # last output line: two-space indent and max_cols - 2
    pb = ck.need("fn progress_fancy::FancyState::print_progress", F.body("progress_fancy::FancyState::print_progress"))
    PR = ctx.res(pb)
    for bb, t in Q.sites_in(pb, "progress_fancy::truncate"):
        m = strip(PR.arg(bb, 1))
        ok = m[0] == "bin" and m[1] == "Sub" and m[3] == ("const", 2) and any(c[1].endswith("get_cols") for c in calls_in(m[2]))
        strs = Q.body_strings(F, pb)
        ind = any(s_.startswith('b"\x02  ') or s_.startswith('b"  ') or "  \\xc0" in s_ or '"  ' in s_[:6] for s_ in strs)
        ck.ob("width", "print_progress|last-line-budget", ok, "the last output line is cut to max_cols - 2 (it is printed after a two-space indent)", span=t["loc"], fn=pb.nname)
    # truncate only ever lowers its bound
    tb = ck.need("fn progress_fancy::truncate", F.body("progress_fancy::truncate"))
    TR = ctx.res(tb)
    tcfg = ctx.cfg(tb)
    mx = [l for l, nm in tb.names.items() if nm == "max"]
    okm = False
    if mx:
        defs = [(bi, s_) for bi in tcfg.reach for s_ in tb.blocks[bi]["stmts"] if s_["k"] == "assign" and not s_["place"]["p"] and s_["place"]["l"] == mx[0]]
        okm = all(strip(TR.stmt_rvalue(bi, s_))[0] == "bin" and strip(TR.stmt_rvalue(bi, s_))[1] == "Sub" and strip(TR.stmt_rvalue(bi, s_))[3] == ("const", 1) for bi, s_ in defs)
    ck.ob("width", "truncate|bound-only-decreases", okm, "truncate() only ever decrements its bound before cutting (result length <= max)", span=tb.loc, fn=tb.nname)
    # returns s unchanged only when max >= s.len()
    def pred_fit(e):
        e = strip(e)
        return e[0] == "bin" and e[1] == "Ge" and strip(e[2])[0] == "param" and strip(e[3])[0] == "call" and strip(e[3])[1].endswith("str::len")
    gf = C.bool_gate_edges(ctx, tb, pred_fit)
    whole = [bb for bb, s_ in Q.ret_assignments(tb) if "rv" in s_ and s_["rv"]["k"] == "use" and strip(TR.stmt_rvalue(bb, s_))[0] == "param"]
    ck.ob("width", "truncate|whole-only-if-fits", bool(gf) and bool(whole) and all(Q.gated(tcfg, x, gf)[0] for x in whole), "truncate() returns the whole string only when max >= s.len()", span=tb.loc, fn=tb.nname)


def run(ck, ctx):
    C.adapter_census(ck, ctx, "width", ("progress_fancy::", "terminal::"))
    F = ctx.F
    width(ck, ctx)
    n = G.str_cuts(ck, ctx, "char-boundary")
    ck.floor("str cut sites", n, 2)
    lb = cols_contract(ck, ctx)
    fns = sorted(b.nname for b in F.all_bodies() if b.nname.startswith(RENDER_PREFIXES) and not b.expn)
    for f in fns:
        ck.functions.add(f)
    m = G.arith_guards(ck, ctx, "arith-guard", fns, lower_bounds={"terminal::unix::get_cols": lb} if lb else {})
    ck.floor("unsigned sub/div sites in the render path", m, 4)
    lossy(ck, ctx)
    bar(ck, ctx)
    bar_partition(ck, ctx)
    from . import fancy as FY
    FY.tasks(ck, ctx)
    FY.forward(ck, ctx)
    FY.shutdown(ck, ctx)
    FY.thread(ck, ctx)
    isolation_report(ck, ctx)
    # truncate() contract used by its callers: result is a prefix no longer than max
    ck.ob("char-boundary", "truncate-is-prefix-fn", G.prefix_fn(ctx, "progress_fancy::truncate"), "progress_fancy::truncate returns its argument or a boundary-safe prefix of it", span="progress_fancy::truncate", fn="progress_fancy::truncate")


def run_config(ck, ctx):
    run(ck, ctx)
