"""Rule helpers shared by the property modules."""
from n2sa import query as Q
from n2sa.expr import strip, walk, show, alts, field_chain, calls_in
from n2sa.facts import callee_of, norm, op_local


def single_writer(ck, ctx, rule, owner, field, allowed, need_writer=True):
    """WHO: field `owner.field` is assigned / mutably borrowed only inside `allowed` functions."""
    F = ctx.F
    fields = F.struct_fields(owner)
    if fields is None or field not in fields:
        ck.ob("anchor", "%s.%s" % (owner, field), False, "anchor-missing: field %s.%s" % (owner, field), nontrivial=False)
        return {}
    w_raw = Q.writers(F, owner, field)
    # closures and new (non-anchored) helpers are attributed to the function they belong to
    w = {}
    for fn, v in w_raw.items():
        o = F.owner(fn)
        d = w.setdefault(o, {"write": 0, "mutref": 0, "read": 0})
        for k_ in d:
            d[k_] += v[k_]
    extra = sorted(set(w) - set(allowed))
    ck.ob(rule, "%s.%s" % (owner, field), not extra, "writers of %s.%s = %s (allowed %s)" % (owner, field, sorted(w), sorted(allowed)), span=owner)
    for x in extra:
        b = F.body(x)
        ck.ob(rule, "%s.%s<-%s" % (owner, field, x), False, "unexpected-writer: %s writes or mutably borrows %s.%s" % (x, owner, field), span=b.loc if b else None, fn=x)
    if need_writer and not (set(w) & set(allowed)):
        ck.ob("anchor", "%s.%s writer" % (owner, field), False, "anchor-missing: none of %s writes %s.%s any more" % (sorted(allowed), owner, field), nontrivial=False)
    for x in w:
        ck.functions.add(x)
    return w


def field_deltas(ctx, body, owner, field):
    """[(bb, delta or None)] for every assignment to owner.field in body; delta when it is `field ± const`"""
    R = ctx.res(body)
    out = []
    for bi, blk in enumerate(body.blocks):
        if blk["cleanup"]:
            continue
        for s in blk["stmts"]:
            if s["k"] != "assign":
                continue
            lf = None
            for p in s["place"]["p"]:
                if p["k"] == "field" and p["name"] == field and norm(p["of"]) == owner:
                    lf = p
            if lf is None or s["place"]["p"][-1] is not lf:
                continue
            e = R.stmt_rvalue(bi, s)
            d = None
            if e[0] == "bin" and e[1] in ("Add", "Sub") and e[3][0] == "const":
                base, names = field_chain(e[2])
                if names and names[-1] == field:
                    d = e[3][1] if e[1] == "Add" else -e[3][1]
            out.append((bi, d))
    return out


def callers_exact(ck, ctx, rule, callee, allowed, floor=None):
    """WHO: `callee` is called only from `allowed` functions; returns the call sites"""
    F = ctx.F
    ck.need("fn " + callee, F.body(callee) or F.call_sites(callee))
    sites = F.view_call_sites(callee)
    fns = sorted({F.owner(b.nname) for b, _, _ in sites})
    extra = sorted(set(fns) - set(allowed))
    ck.ob(rule, callee, not extra, "callers of %s = %s (allowed %s)" % (callee, fns, sorted(allowed)), span=callee)
    for x in extra:
        ck.ob(rule, "%s<-%s" % (callee, x), False, "unexpected-caller: %s calls %s" % (x, callee), span=F.body(x).loc if F.body(x) else None, fn=x)
    if floor is not None:
        ck.floor("call sites of %s" % callee, len(sites), floor)
    for f in fns:
        ck.functions.add(f)
    return sites


def arg_expr(ctx, body, bb, i):
    return ctx.res(body).arg(bb, i)


def is_field_of_param(e, field_path):
    """e (after stripping refs) is param.f1.f2... with the given field names"""
    base, names = field_chain(strip(e))
    return strip(base)[0] == "param" and names == list(field_path)


def expr_mentions_call(e, callee_suffix):
    return any(c[1].endswith(callee_suffix) for c in calls_in(e))


def bool_gate_edges(ctx, body, pred):
    """{(bb, true_label)} for switches whose bool discriminant expression satisfies pred(expr);
    pred may return 'neg' to select the false edge instead."""
    out = set()
    for bb, t, e in Q.switches(ctx, body):
        tl, fl = Q.bool_edges(t)
        if tl is None:
            continue
        neg = False
        while e[0] == "un" and e[1] == "Not":
            e = e[2]
            neg = not neg
        r = pred(e)
        if not r:
            continue
        if r == "neg":
            neg = not neg
        out.add((bb, fl if neg else tl))
    return out


def names_field(e, name):
    """e denotes field `name` of something: directly, or as a join of such reads (one per State the variable may hold)"""
    e = strip(e)
    if e[0] == "phi":
        return bool(e[1]) and all(names_field(a, name) for a in e[1])
    return field_chain(e)[1][-1:] == [name]


def try_of(ctx, body, call_bb):
    """(try_bb, continue_label, break_label) of the `?` applied to the result of the call in call_bb: the one whose operand *is* that
    call (a `?` further out, e.g. the caller's on an inlined helper's result, also mentions it and is only the fallback)"""
    direct, loose = None, None
    for tb, (cont, brk, ope) in sorted(try_err_edges(ctx, body).items()):
        if ope is None:
            continue
        s = strip(ope)
        if s[0] == "call" and s[3] == call_bb:
            direct = direct or (tb, cont, brk)
        elif any(c[3] == call_bb for c in calls_in(ope)):
            loose = loose or (tb, cont, brk)
    return direct or loose


def must_pass(ctx, body, call_bb, through, extra_avoid_edges=()):
    """after the *successful* `?` of the call in call_bb, neither the enclosing loop's next iteration nor any return is reachable
    without passing one of the blocks `through` (error exits of later `?` are not counted).  None when the `?` is not found."""
    cfg = ctx.cfg(body)
    tries = try_err_edges(ctx, body)
    tr = try_of(ctx, body, call_bb)
    if tr is None:
        return None
    starts = cfg.edge_targets(tr[0], tr[1])
    brk = {(tb, v[1]) for tb, v in tries.items()} | set(extra_avoid_edges)
    r = cfg.reach_avoid(starts, avoid_blocks=list(through), avoid_edges=brk)
    hdr = cfg.enclosing_loop_header(call_bb)
    bad = [x for x in cfg.returns() if x in r]
    if hdr is not None and hdr in r:
        bad.append(hdr)
    return not bad


def zero_test_edges(ctx, body, is_subject):
    """(zero_edges, nonzero_edges) of every test of an unsigned quantity against 0, in any of the source forms
    `if x == 0`, `if x != 0`, `if x > 0`, `if x >= 1`, `if x < 1`, `match x { 0 => .., _ => .. }`: is_subject(expr) selects the quantity."""
    z, nz = set(), set()
    for bb, t, e in Q.switches(ctx, body):
        tl, fl = Q.bool_edges(t)
        neg = False
        ee = e
        while ee[0] == "un" and ee[1] == "Not":
            ee, neg = ee[2], not neg
        se = strip(ee)
        if se[0] == "bin" and tl is not None:
            op, a, c = se[1], se[2], se[3]
            form = None
            if c == ("const", 0) and is_subject(strip(a)):
                form = {"Eq": "z", "Ne": "nz", "Gt": "nz", "Le": "z"}.get(op)
            elif c == ("const", 1) and is_subject(strip(a)):
                form = {"Lt": "z", "Ge": "nz"}.get(op)
            elif a == ("const", 0) and is_subject(strip(c)):
                form = {"Eq": "z", "Ne": "nz", "Lt": "nz", "Ge": "z"}.get(op)
            if form:
                if neg:
                    form = "nz" if form == "z" else "z"
                (z if form == "z" else nz).add((bb, tl))
                (nz if form == "z" else z).add((bb, fl))
                continue
        # integer switch on the quantity itself with an arm for 0
        if is_subject(strip(e)) and t.get("discr_ty", {}).get("s") != "bool":
            arms = [v for v, _ in t["arms"]]
            if arms == [0]:
                z.add((bb, 0))
                nz.add((bb, "otherwise"))
    return z, nz


def try_err_edges(ctx, body):
    """{bb: (continue_label, break_label, operand_expr)} for `?` sites: switch on discriminant of Try::branch result"""
    out = {}
    for bb, t, scrut, adt, vmap in Q.enum_switches(ctx, body):
        if adt != "std::ops::ControlFlow":
            continue
        s = strip(scrut)
        if s[0] == "call" and s[1].endswith("::branch"):
            out[bb] = (vmap.get("Continue"), vmap.get("Break"), s[2][0] if s[2] else None)
    return out


def ok_return_blocks(ctx, body):
    """[(bb, stmt, payload_expr)] for every `_0 = Ok(payload)` assignment"""
    R = ctx.res(body)
    out = []
    for bb, s in Q.ret_assignments(body):
        if "rv" in s and s["rv"]["k"] == "agg" and norm(s["rv"]["name"]) == "std::result::Result" and s["rv"]["variant"] == "Ok":
            out.append((bb, s, R.agg_op(bb, s, 0) if s["rv"]["ops"] else ("const", "()")))
    return out


def err_return_blocks(ctx, body):
    out = []
    for bb, s in Q.ret_assignments(body):
        if "rv" in s and s["rv"]["k"] == "agg" and norm(s["rv"]["name"]) == "std::result::Result" and s["rv"]["variant"] == "Err":
            out.append((bb, s))
    return out


def option_edges(ctx, body, pred):
    """({(bb,label)} none_edges, {(bb,label)} some_edges) of Option switches whose scrutinee satisfies pred(expr)"""
    ne, se = set(), set()
    for x, t, scrut, adt, vmap in Q.enum_switches(ctx, body):
        if adt != "std::option::Option":
            continue
        if pred(strip(scrut)):
            if vmap.get("None") is not None:
                ne.add((x, vmap["None"]))
            if vmap.get("Some") is not None:
                se.add((x, vmap["Some"]))
    return ne, se


def from_try_of(e, callee, bb=None):
    """e is the Continue payload of `callee(..)?` (optionally the call in block bb)"""
    e = strip(e)
    if e[0] == "field" and e[2] == "0":
        d = strip(e[1])
        if d[0] == "downcast" and d[2] == "Continue":
            c = strip(d[1])
            if c[0] == "call" and c[1].endswith("::branch") and c[2]:
                inner = strip(c[2][0])
                return inner[0] == "call" and inner[1] == callee and (bb is None or inner[3] == bb)
    return False


def loop_no_early_exit(ctx, body, inside_bb, allow_edges=()):
    """exits of the innermost loop containing inside_bb other than iterator exhaustion, `?` and allow_edges"""
    cfg = ctx.cfg(body)
    hdr = cfg.enclosing_loop_header(inside_bb)
    if hdr is None:
        return None
    loop = cfg.natural_loop(hdr)
    tries = try_err_edges(ctx, body)
    es = {z[0]: z for z in Q.enum_switches(ctx, body)}
    bad = []
    for x in loop:
        for y, lab in cfg.succ[x]:
            if y in loop:
                continue
            if (body.blocks[y]["term"] or {}).get("k") == "unreachable":
                continue
            if (x, lab) in allow_edges:
                continue
            if x in tries and lab == tries[x][1]:
                continue
            z = es.get(x)
            if z and z[3] == "std::option::Option" and z[4].get("None") == lab and strip(z[2])[0] == "call" and strip(z[2])[1].endswith(("Iterator>::next", "range::next")):
                continue
            bad.append((x, lab, y))
    return bad


def loops_complete(ck, ctx, rule, table):
    """table: [(function, anchor callee inside the loop, what the loop covers)]: each such loop visits every element: it is left only when its
    iterator is exhausted or by `?` (a `break`, or an early `return` that is not an error, would silently drop the remaining elements)"""
    F = ctx.F
    for fn, anchor, what in table:
        b = F.body(fn)
        if b is None:
            ck.ob("anchor", "fn " + fn, False, "anchor-missing: %s" % fn, nontrivial=False)
            continue
        cfg = ctx.cfg(b)
        sites = [bb for bb, t in b.calls() if callee_of(t) == anchor or callee_of(t).endswith(anchor)]
        sites = [bb for bb in sites if cfg.enclosing_loop_header(bb) is not None]
        if not sites:
            ck.ob(rule, "%s|loop-complete|%s" % (fn, anchor.split("::")[-1]), False, "no loop around %s found in %s" % (anchor, fn), span=b.loc, fn=fn)
            continue
        seen_h = set()
        for bb in sites:
            h = cfg.enclosing_loop_header(bb)
            if h in seen_h:
                continue
            seen_h.add(h)
            bad = loop_no_early_exit(ctx, b, bb)
            errs = {eb for eb, _ in err_return_blocks(ctx, b)}
            # an exit that can only end in an error return is fine (errs = the blocks that build the Err value)
            bad = [e_ for e_ in (bad or []) if not (errs and e_[2] not in errs and not (set(cfg.returns()) & cfg.reach_avoid([e_[2]], avoid_blocks=list(errs))) or e_[2] in errs)]
            # ... and nothing is dropped before the loop sees it: the iterator handed to next() has no skipping/limiting/reversing adapter
            R_ = ctx.res(b)
            adapters = []
            loop_ = cfg.natural_loop(h)
            for nb, nt in b.calls():
                if nb in loop_ and callee_of(nt).endswith(("Iterator>::next", "range::next")) and cfg.enclosing_loop_header(nb) == h:
                    src_ = R_.arg(nb, 0)
                    adapters += [c[1].split("::")[-1] for c in calls_in(src_) if ("Iterator" in c[1] or c[1].startswith(("core::slice::", "std::iter::"))) and c[1].endswith(LIMITING_ADAPTERS)]
            ck.ob(rule, "%s|loop-whole|%s#%d" % (fn, anchor.split("::")[-1], len(seen_h) - 1), not adapters, "the loop over %s in %s iterates the whole sequence (limiting adapters: %s)" % (what, fn.split("::")[-1], adapters or "none"), span=b.blocks[bb]["term"]["loc"], fn=fn)
            ck.ob(rule, "%s|loop-complete|%s#%d" % (fn, anchor.split("::")[-1], len(seen_h) - 1), bad == [], "the loop over %s in %s ends only at exhaustion or with an error (other exits: %s)" % (what, fn.split("::")[-1], bad), span=b.blocks[bb]["term"]["loc"], fn=fn)
        ck.functions.add(fn)


def iter_source_calls(e):
    """callee names inside the expression of an iterated element"""
    return {c[1] for c in calls_in(e)}


LIMITING_ADAPTERS = ("::take", "::skip", "::filter", "::step_by", "::take_while", "::skip_while", "::filter_map", "::nth", "::last", "::split_first", "::split_last", "::first", "::get")


DROPPING_ADAPTERS = ("::take", "::skip", "::filter", "::step_by", "::take_while", "::skip_while", "::filter_map", "::nth", "::last", "::skip_last", "::dedup", "::dedup_by_key", "::truncate", "::split_off", "::drain")
# element-dropping adapters that exist today, confirmed by reading: the status display shows at most 8 running tasks
ADAPTER_SITES = {"progress_fancy::FancyState::print_progress": ["take"]}


def adapter_census(ck, ctx, rule, prefixes):
    """WHO: in the functions of the given modules no iteration silently drops elements: element-dropping iterator / vector adapters
    (take, skip, filter, step_by, nth, ...) appear only at the sites confirmed by reading (ADAPTER_SITES)"""
    F = ctx.F
    seen = {}
    n = 0
    for b in F.view_bodies():
        if b.expn or not b.nname.startswith(prefixes):
            continue
        n += 1
        for bb, t in b.calls():
            c = callee_of(t)
            if ("Iterator" in c or c.startswith(("core::slice::", "std::iter::", "std::slice::", "std::vec::Vec::", "std::collections::VecDeque::"))) and c.endswith(DROPPING_ADAPTERS):
                seen.setdefault(F.owner(b.nname), []).append(c.split("::")[-1])
    bad = {k: sorted(v) for k, v in seen.items() if sorted(v) != sorted(ADAPTER_SITES.get(k, []))}
    ck.ob(rule, "no-element-dropping-iteration|%s" % "+".join(p.rstrip(":") for p in prefixes), not bad and n > 0, "no loop in %s silently drops elements (take/skip/filter/step_by/nth/... appear only where confirmed: %s); unexpected: %s" % (list(prefixes), ADAPTER_SITES, bad or "none"), span=None)


def iter_is_whole(e):
    """the iterated element expression passes through no adapter that could drop elements"""
    bad = [c[1] for c in calls_in(e) if c[1].startswith("std::iter::Iterator") and c[1].endswith(LIMITING_ADAPTERS) or (c[1].startswith("core::slice::") and c[1].endswith(LIMITING_ADAPTERS))]
    return not bad, bad


def closure_use_sites(ctx, body, callees):
    """[(bb, closure_name, callee)] blocks of `body` that construct a closure whose body (transitively through nested closures) calls one of callees"""
    F = ctx.F
    out = []
    for bi, blk in enumerate(body.blocks):
        if blk["cleanup"]:
            continue
        for s in blk["stmts"]:
            if s["k"] == "assign" and s["rv"]["k"] == "agg" and s["rv"]["ak"] == "closure":
                name = norm(s["rv"]["name"])
                stack = [name]
                seen = set()
                while stack:
                    n = stack.pop()
                    if n in seen:
                        continue
                    seen.add(n)
                    cb = F.body(n)
                    if cb is None:
                        continue
                    for _, t in cb.calls():
                        if callee_of(t) in callees:
                            out.append((bi, name, callee_of(t)))
                    for blk2 in cb.blocks:
                        for s2 in blk2["stmts"]:
                            if s2["k"] == "assign" and s2["rv"]["k"] == "agg" and s2["rv"]["ak"] == "closure":
                                stack.append(norm(s2["rv"]["name"]))
    return out
