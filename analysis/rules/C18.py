"""C18 — exactly the requested closure is considered (structural clauses)."""
from n2sa import query as Q
from n2sa.expr import strip, show, field_chain, alts, calls_in, walk
from n2sa.facts import callee_of, norm
from . import common as C
from . import runloop as RL
from . import C01 as R01
from . import C06 as R06
from . import C13 as R13
from . import C17 as R17
from . import accessors as ACC

EXPLANATION = (
    "Static conformance of target selection and closure traversal on rustc MIR of the current tree: (selection) in run::build want_every_file is reachable "
    "only when args.targets and state.default are both empty, defaults only when targets are empty, and each command-line name goes Work::lookup "
    "(canonicalised, C13.sinks) then want_file; (unknown) lookup == None leads, unless adopt, to Err(`unknown path requested`) with no Work::run reachable "
    "afterwards; (closure) want_build visits ordering_ins and validation_ins of the step, which by the accessor rules partition the whole input vector; "
    "want_every_file walks all file ids except the excluded manifest target; Work::want_file starts from a fresh stack; (no-outside) the only transitions "
    "out of Unknown are in want_build, so a step outside the closure is never queued (C01.sites relation); (flags) -C calls set_current_dir inside "
    "parse_args, which run_impl completes before build(); the -f value is the name given to load::read and to the manifest-target lookup; the log is "
    "`.n2_db` joined under builddir when set; (defaults) every `default` statement's evaluated paths are appended to Loader.default, which becomes "
    "State.default. Decides these clauses, not per-graph closure equality."
)
ASSUMPTIONS = ["per-graph equality of the visited set with the mathematical closure is not decided"]
THOROUGH_CONFIGS = ["nodefault"]
BUILD = "run::build"


def selection(ck, ctx):
    F = ctx.F
    b = ck.need("fn " + BUILD, F.body(BUILD))
    cfg = ctx.cfg(b)
    R = ctx.res(b)
    ck.functions.add(BUILD)

    def empty_edges(field):
        def pred(e):
            e = strip(e)
            if e[0] == "call" and e[1].endswith("Vec::is_empty") and C.names_field(e[2][0], field):
                return True
            return False
        g = C.bool_gate_edges(ctx, b, pred)
        g_not = {(x, [l for l in Q.bool_edges(b.blocks[x]["term"]) if l != lab][0]) for x, lab in g}
        return g, g_not

    t_empty, t_some = empty_edges("targets")
    d_empty, d_some = empty_edges("default")
    ck.ob("selection", "tests-present", len(t_empty) == 1 and len(d_empty) == 1, "run::build tests args.targets.is_empty() and state.default.is_empty()", span=b.loc, fn=BUILD)
    for bb, t in Q.sites_in(b, "work::Work::want_every_file"):
        ok = Q.gated(cfg, bb, t_empty)[0] and Q.gated(cfg, bb, d_empty)[0]
        ck.ob("selection", "every-file-only-if-nothing-asked", ok, "want_every_file is reached only when no target was named and the manifest has no default", span=t["loc"], fn=BUILD)
        e = strip(R.arg(bb, 1))
        ck.ob("selection", "every-file-excludes-manifest", any(c[1] == "work::Work::lookup" for c in calls_in(e)), "want_every_file excludes the manifest target (%s)" % show(e, 2), span=t["loc"], fn=BUILD)
    info = R17.analyse(ck, ctx)
    p1 = info["p1"]
    # ... and with nothing asked and no default it is unavoidable before the build runs
    wef = [bb for bb, t in Q.sites_in(b, "work::Work::want_every_file")]
    both_empty = [tt for (x, lab) in d_empty for tt in cfg.edge_targets(x, lab) if Q.gated(cfg, x, t_empty)[0]]
    tries_ = {(tb, v[1]) for tb, v in C.try_err_edges(ctx, b).items()}
    r_ = cfg.reach_avoid(both_empty, avoid_blocks=wef, avoid_edges=tries_)
    ck.ob("selection", "every-file-when-nothing-asked", bool(wef) and bool(both_empty) and info["p2"][0] not in r_, "with no target named and no default statement the final Work::run is reached only through want_every_file", span=b.loc, fn=BUILD)
    # same for the defaults: with defaults present each one is wanted before the run
    wfs = [(bb, t) for bb, t in Q.sites_in(b, "work::Work::want_file") if not cfg.dominates(bb, p1[0])]
    kinds = {}
    for bb, t in wfs:
        e = R.arg(bb, 1)
        if any(c[1] == "work::Work::lookup" for c in calls_in(e)):
            kinds.setdefault("target", []).append((bb, t))
            ok = Q.gated(cfg, bb, t_some)[0]
            ck.ob("selection", "target-want", ok, "want_file(lookup(name)) happens only when targets were named", span=t["loc"], fn=BUILD)
        elif any(C.names_field(y, "default") for y in walk(e) if y[0] in ("field", "phi")):
            kinds.setdefault("default", []).append((bb, t))
            ok = Q.gated(cfg, bb, t_empty)[0] and Q.gated(cfg, bb, d_some)[0]
            ck.ob("selection", "default-want", ok, "want_file(default) happens only when no target was named and defaults exist", span=t["loc"], fn=BUILD)
        else:
            ck.ob("selection", "want-source#%d" % bb, False, "want_file in phase 2 with unrecognised source %s" % show(strip(e), 2), span=t["loc"], fn=BUILD)
    R17.defaults_current(ck, ctx, info, "selection", "defaults-of-current-manifest")
    ck.ob("selection", "both-kinds-present", set(kinds) == {"target", "default"}, "phase 2 wants command-line targets or defaults (%s)" % sorted(kinds), span=b.loc, fn=BUILD)
    # every named target is wanted: from the lookup's Some edge, want_file is unavoidable unless it is the manifest target
    for bb, t in [x for x in info["lookups"] if x not in info["mt"]]:
        ne, se = C.option_edges(ctx, b, lambda s, bb=bb: s[0] == "call" and s[1] == "work::Work::lookup" and s[3] == bb)

        mt_bbs = {x for x, _ in info["mt"]}

        def pred_same(e, bb=bb):
            # `Some(<this target>) == <manifest target>`: one side wraps this lookup's result, the other is the manifest-name lookup
            e = strip(e)
            if not (e[0] == "call" and e[1].endswith("PartialEq>::eq") and "Option" in e[1] and len(e[2]) == 2):
                return False
            sides = [strip(x) for x in e[2]]
            has_tgt = [any(c[1] == "work::Work::lookup" and c[3] == bb for c in calls_in(s_)) and any(y[0] == "agg" and y[3] == "Some" for y in walk(s_)) for s_ in sides]
            has_mt = [any(c[1] == "work::Work::lookup" and c[3] in mt_bbs for c in calls_in(s_)) for s_ in sides]
            return (has_tgt[0] and has_mt[1]) or (has_tgt[1] and has_mt[0])

        g_same = C.bool_gate_edges(ctx, b, pred_same)
        starts = [tt for (x, lab) in se for tt in cfg.edge_targets(x, lab)]
        hdr = cfg.enclosing_loop_header(bb)
        tr_brk = {(tb, v[1]) for tb, v in C.try_err_edges(ctx, b).items()}
        r = cfg.reach_avoid(starts, avoid_blocks=[x for x, _ in kinds.get("target", [])], avoid_edges=set(g_same) | tr_brk)
        ck.ob("selection", "each-target-wanted", bool(se) and hdr not in r and info["p2"][0] not in r, "every resolved target is passed to want_file unless it is the manifest itself (already built in phase 1)", span=t["loc"], fn=BUILD)
        # loop covers all targets
        bad = C.loop_no_early_exit(ctx, b, bb)
        errs = [eb for eb, _ in C.err_return_blocks(ctx, b)]
        # an exit is fine only if it can end in nothing but an error return (a `break` goes on to the final run)
        bad = [e_ for e_ in (bad or []) if not (errs and not (set(cfg.returns()) & cfg.reach_avoid([e_[2]], avoid_blocks=errs)) and info["p2"][0] not in cfg.reach_avoid([e_[2]], avoid_blocks=errs))]
        ck.ob("selection", "all-targets-visited", bad == [], "the loop over args.targets ends only at exhaustion, by `?` or with the unknown-path error (%s)" % bad, span=t["loc"], fn=BUILD)
        # unknown
        def pred_adopt(e):
            base, nm = field_chain(strip(e))
            return nm[-2:] == ["options", "adopt"]
        g_a = C.bool_gate_edges(ctx, b, pred_adopt)
        g_na = {(x, [l for l in Q.bool_edges(b.blocks[x]["term"]) if l != lab][0]) for x, lab in g_a}
        ns = [tt for (x, lab) in ne for tt in cfg.edge_targets(x, lab)]
        r_none = cfg.reach_avoid(ns, avoid_edges=g_a)
        strs = Q.body_strings(F, b)
        err_ok = any(eb in r_none for eb in errs) and any("unknown path requested" in s for s in strs)
        no_run = info["p2"][0] not in r_none and hdr not in r_none
        ck.ob("unknown", "unknown-target-rejected", bool(ne) and err_ok and no_run, "lookup == None (and not adopting) ends in Err(`unknown path requested: ..`); neither the next target nor Work::run is reachable from there", span=t["loc"], fn=BUILD)
        ck.ob("unknown", "adopt-skips", bool(g_a) and all(Q.gated(cfg, x, ne)[0] for x, _ in g_a), "only the restat/adopt mode may skip an unknown name", span=t["loc"], fn=BUILD)


def traversal(ck, ctx):
    F = ctx.F
    R06.validation(ck, ctx)
    R01.ready_want(ck, ctx)
    ACC.accessors(ck, ctx)
    # Work::want_file: fresh stack, forwards id, propagates
    b = ck.need("fn work::Work::want_file", F.body("work::Work::want_file"))
    R = ctx.res(b)
    ok = False
    for bb, t in Q.sites_in(b, "work::BuildStates::want_file"):
        st = strip(R.arg(bb, 2))
        ide = strip(R.arg(bb, 3))
        g = strip(R.arg(bb, 1))
        ok = st[0] == "call" and st[1].endswith("Vec::new") and ide[0] == "param" and field_chain(g)[1][-1:] == ["graph"] and RL.try_of_call(ctx, b, bb) is not None
    ck.ob("closure", "Work::want_file", ok, "Work::want_file(id) = build_states.want_file(&self.graph, &mut fresh stack, id)?", span=b.loc, fn=b.nname)
    e = ck.need("fn work::Work::want_every_file", F.body("work::Work::want_every_file"))
    ER = ctx.res(e)
    ecfg = ctx.cfg(e)
    wf = Q.sites_in(e, "work::Work::want_file")
    ok = len(wf) == 1
    if ok:
        bb, t = wf[0]
        ide = ER.arg(bb, 1)
        ok = any(c[1] == "graph::GraphFiles::all_ids" for c in calls_in(ide)) and RL.try_of_call(ctx, e, bb) is not None
        # skipping only for the excluded id
        def pred_ex(x):
            x = strip(x)
            return x[0] == "call" and x[1].endswith("FileId as std::cmp::PartialEq>::eq")
        g = C.bool_gate_edges(ctx, e, pred_ex)
        it_none, it_some = C.option_edges(ctx, e, lambda s: s[0] == "call" and s[1].endswith("Iterator>::next"))
        starts = [tt for (x, lab) in it_some for tt in ecfg.edge_targets(x, lab)]
        r = ecfg.reach_avoid(starts, avoid_blocks=[bb], avoid_edges=g)
        ok = ok and ecfg.enclosing_loop_header(bb) not in r and C.loop_no_early_exit(ctx, e, bb) == []
    ck.ob("closure", "want_every_file", ok, "want_every_file wants every id of files.all_ids() except the excluded one, stopping only on error", span=e.loc, fn=e.nname)
    ab = ck.need("fn graph::GraphFiles::all_ids", F.body("graph::GraphFiles::all_ids"))
    AR = ctx.res(ab)
    ee = strip(AR.local(0, AR.term_at(ctx.cfg(ab).returns()[0])))
    rng = [y for y in walk(ee) if y[0] == "agg" and y[2] == "std::ops::Range"]
    ok = len(rng) == 1 and rng[0][4][0] == ("const", 0) and any(c[1].endswith("DenseMap::next_id") for c in calls_in(rng[0][4][1]))
    ck.ob("closure", "all_ids", ok, "all_ids() ranges over 0..by_id.next_id()", span=ab.loc, fn=ab.nname)
    # no-outside: transitions out of Unknown only in want_build
    R01.sites(ck, ctx)
    rel = ck.extra.get("transition_relation", [])
    outs_unknown = [(p, n) for p, n in rel if p == "Unknown"]
    ck.ob("no-outside", "unknown-leaves-only-via-want_build", sorted(outs_unknown) == [("Unknown", "Ready"), ("Unknown", "Want")], "steps leave Unknown only through want_build (%s)" % outs_unknown, span="work::BuildStates::want_build")


def flags(ck, ctx):
    F = ctx.F
    pa = ck.need("fn run::parse_args", F.body("run::parse_args"))
    PR = ctx.res(pa)
    pcfg = ctx.cfg(pa)
    ck.functions.add(pa.nname)
    cd = [(bb, t) for bb, t in pa.calls() if callee_of(t).endswith("env::set_current_dir")]
    okc = len(cd) == 1
    if okc:
        e = PR.arg(cd[0][0], 0)
        okc = any(c[1].endswith("Parser::value") for c in calls_in(e))
    ck.ob("flags", "-C", okc, "-C calls std::env::set_current_dir with the option's value inside parse_args (error propagated)", span=pa.loc, fn=pa.nname)
    # run_impl: parse_args completes before build
    ri = ck.need("fn run::run_impl", F.body("run::run_impl"))
    rcfg = ctx.cfg(ri)
    p = Q.sites_in(ri, "run::parse_args")
    bsite = Q.sites_in(ri, "run::build")
    ok = len(p) == 1 and len(bsite) == 1 and rcfg.dominates(p[0][0], bsite[0][0])
    if ok:
        RR = ctx.res(ri)
        e = RR.arg(bsite[0][0], 0)
        ok = any(c[1] == "run::parse_args" for c in calls_in(e))
    ck.ob("flags", "args-before-build", ok, "run_impl calls build(args) with the BuildArgs returned by parse_args (so the chdir already happened)", span=ri.loc, fn=ri.nname)
    # -f writes build_filename
    w = Q.writers(F, "run::BuildArgs", "build_filename")
    ck.ob("flags", "-f", set(w) == {"run::parse_args"}, "BuildArgs.build_filename is written only by parse_args (%s)" % sorted(w), span=pa.loc, fn=pa.nname)
    wt = Q.writers(F, "run::BuildArgs", "targets")
    ck.ob("flags", "targets", set(wt) == {"run::parse_args"}, "BuildArgs.targets is filled only by parse_args (%s)" % sorted(wt), span=pa.loc, fn=pa.nname)
    # builddir / .n2_db
    lc = ck.need("closure load::read::{closure#1}", F.body("load::read::{closure#1}"))
    LR = ctx.res(lc)
    lcfg = ctx.cfg(lc)
    strs = Q.body_strings(F, lc)
    op = Q.sites_in(lc, "db::open")
    ok = len(op) == 1 and any(".n2_db" in s for s in strs)
    if ok:
        e = LR.arg(op[0][0], 0)
        al = alts(strip(e)) if strip(e)[0] == "phi" else [strip(e)]
        joined = any(c[1].endswith("Path::join") for c in calls_in(e))
        rb_ = F.body("load::read")
        RB_ = ctx.res(rb_)
        cap = False
        for bi_, blk_ in enumerate(rb_.blocks):
            if blk_["cleanup"]:
                continue
            for s_ in blk_["stmts"]:
                if s_["k"] == "assign" and s_["rv"]["k"] == "agg" and s_["rv"]["ak"] == "closure" and norm(s_["rv"]["name"]) == lc.nname:
                    cap = any(field_chain(strip(RB_.agg_op(bi_, s_, k)))[1][-1:] == ["builddir"] for k in range(len(s_["rv"]["ops"])))
        ok = joined and cap and any(y == ("str", '".n2_db"') for y in walk(e))
        # with a builddir the join is unavoidable before db::open
        ne_, se_ = C.option_edges(ctx, lc, lambda s: any(y[0] == "param" for y in walk(s)) and not any(True for _ in calls_in(s)))
        joins = [bi_ for bi_ in lcfg.reach for s_ in lc.blocks[bi_]["stmts"] if s_["k"] == "assign" and not s_["place"]["p"] and strip(LR.stmt_rvalue(bi_, s_))[0] == "call" and strip(LR.stmt_rvalue(bi_, s_))[1].endswith("Path::join")]
        joins += [bb_ for bb_, t_ in lc.calls() if callee_of(t_).endswith("Path::join")]
        starts_ = [tt for (x, lab) in se_ for tt in lcfg.edge_targets(x, lab)]
        ok = ok and bool(se_) and bool(joins) and op[0][0] not in lcfg.reach_avoid(starts_, avoid_blocks=joins)
    ck.ob("flags", "builddir-log", ok, "the log path is `.n2_db`, joined under loader.builddir when set", span=lc.loc, fn=lc.nname)
    C.single_writer(ck, ctx, "flags", "load::Loader", "builddir", ["load::Loader::parse_with_parser"])
    pw = F.body("load::Loader::parse_with_parser")
    strs = Q.body_strings(F, pw)
    # the file that finishes last (the top-level one: nested parses return first) decides, *also when it sets no builddir*: the field is
    # overwritten on every successful return with whatever `builddir` is bound to in that file's scope (None included); otherwise the
    # log location would depend on which subninja/include files a generation of the manifest happens to pull in
    PWR = ctx.res(pw)
    pwcfg = ctx.cfg(pw)
    wr = []
    for bi in pwcfg.reach:
        for s_ in pw.blocks[bi]["stmts"]:
            if s_["k"] == "assign" and s_["place"]["p"] and s_["place"]["p"][-1].get("name") == "builddir" and norm(s_["place"]["p"][-1].get("of", "")) == "load::Loader":
                wr.append((bi, strip(PWR.stmt_rvalue(bi, s_))))
    oks_ = [x for x, s_, e_ in C.ok_return_blocks(ctx, pw)]
    final_oks = [x for x in oks_ if not any(pw.blocks[y]["term"] and pw.blocks[y]["term"]["k"] == "call" and callee_of(pw.blocks[y]["term"]).startswith("parse::Parser::read") for y in pwcfg.reach_avoid([x]))]
    okbd = len(wr) == 1 and bool(final_oks) and any(pwcfg.dominates(wr[0][0], x) for x in final_oks)
    if okbd:
        e_ = wr[0][1]
        okbd = any(c[1].endswith("Vars::get") for c in calls_in(e_)) and any(y == ("str", '"builddir"') for y in walk(e_)) and (e_[0] == "call" and e_[1].endswith(("Option::cloned", "Option::map", "Option::clone")))
        # not under a test of the lookup's result
        okbd = okbd and not any(z[3] == "std::option::Option" and any(c[1].endswith("Vars::get") for c in calls_in(strip(z[2]))) and pwcfg.dominates(z[0], wr[0][0]) for z in Q.enum_switches(ctx, pw))
    ck.ob("flags", "builddir-last-file-decides", okbd, "parse_with_parser overwrites Loader.builddir unconditionally with vars.get(\"builddir\").cloned() at the end of each file: the top-level file, finishing last, decides even when it sets none", span=pw.loc, fn=pw.nname)
    ck.ob("flags", "builddir-binding", any("builddir" in s for s in strs), "builddir is the top-level `builddir` binding of the manifest", span=pw.loc, fn=pw.nname)


def defaults(ck, ctx):
    F = ctx.F
    pw = ck.need("fn load::Loader::parse_with_parser", F.body("load::Loader::parse_with_parser"))
    R = ctx.res(pw)
    cfg = ctx.cfg(pw)
    C.single_writer(ck, ctx, "defaults", "load::Loader", "default", ["load::Loader::parse_with_parser"])
    ext = [(bb, t) for bb, t in pw.calls() if callee_of(t).endswith("Extend<T>>::extend") or callee_of(t).endswith("Vec::extend") or callee_of(t).endswith("::extend")]
    ok = False
    for bb, t in ext:
        recv = strip(R.arg(bb, 0))
        v = strip(R.arg(bb, 1))
        if field_chain(recv)[1][-1:] == ["default"]:
            ok = v[0] == "call" and v[1] == "load::Loader::evaluate_paths" and any(y[0] == "downcast" and y[2] == "Default" for y in walk(v))
            sw = [z for z in Q.enum_switches(ctx, pw) if z[3] == "parse::Statement"]
            ok = ok and bool(sw) and Q.gated(cfg, bb, {(sw[0][0], sw[0][4].get("Default"))})[0]
    ck.ob("defaults", "collected", ok, "every Statement::Default appends evaluate_paths(its paths) to Loader.default", span=pw.loc, fn=pw.nname)
    # ... with the paths expanded in the scope of the file the statement is in (`default $outdir/app`)
    from . import C11 as R11
    R11.chains(ck, ctx)
    rb = ck.need("fn load::read", F.body("load::read"))
    RR = ctx.res(rb)
    for _, bb, s in [x for x in Q.adt_constructors(F, "load::State") if x[0].nname == rb.nname]:
        fields = F.struct_fields("load::State")
        e = strip(RR.agg_op(bb, s, fields.index("default")))
        g = strip(RR.agg_op(bb, s, fields.index("graph")))
        ok = field_chain(e)[1][-1:] == ["default"] and field_chain(g)[1][-1:] == ["graph"] and strip(field_chain(e)[0]) == strip(field_chain(g)[0])
        ck.ob("defaults", "state-default", ok, "load::read returns State{default: loader.default, graph: loader.graph} of the same loader", span=s.get("loc"), fn=rb.nname)
    pd = ck.need("fn parse::Parser::read_default", F.body("parse::Parser::read_default"))
    strs = Q.body_strings(F, pd)
    ck.ob("defaults", "read_default-nonempty", any("expected path" in s for s in strs), "an empty default statement is a parse error", span=pd.loc, fn=pd.nname)


def run(ck, ctx):
    C.adapter_census(ck, ctx, "closure", ("run::", "work::", "load::", "graph::"))
    selection(ck, ctx)
    traversal(ck, ctx)
    flags(ck, ctx)
    defaults(ck, ctx)
    R13.sinks(ck, ctx)


def run_config(ck, ctx):
    run(ck, ctx)
