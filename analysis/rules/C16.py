"""C16 — commands run as written and their output is shown intact (Linux configuration; structural clauses)."""
from n2sa import query as Q
from n2sa.expr import strip, show, field_chain, alts, calls_in, walk
from n2sa.facts import callee_of, norm
from . import common as C
from . import runloop as RL

EXPLANATION = (
    "Static conformance of the spawn recipe and output plumbing on rustc MIR of the current tree (unix, non-macOS configuration): (recipe) the function "
    "calling libc::posix_spawn passes path c\"/bin/sh\" and argv [c\"/bin/sh\", c\"-c\", CString(cmdline), null]; the file actions, each checked with `?` "
    "and dominating the spawn, are in this order addopen(0, c\"/dev/null\", O_RDONLY, 0), adddup2(pipe[1], 1), adddup2(pipe[1], 2), addclose(pipe[0]), "
    "addclose(pipe[1]); the parent closes pipe[1] after the spawn and reads pipe[0]; (cloexec) the only descriptor-creating foreign calls in the crate are "
    "pipe2 with a flag constant containing O_CLOEXEC; no open/dup/dup2/pipe/socket/fcntl FFI exists; (read-then-wait) waitpid is dominated by the read "
    "loop's n == 0 exit and output_cb receives exactly buf[0..n] for the n just read; (cmd-provenance) argv[2] is the cmdline parameter, which is run_task's "
    "parameter, which is the build.cmdline clone captured by Runner::start; (before-start) write_rspfile(rspfile) with content/path of the same struct "
    "precedes run_command whenever an rspfile exists, and create_parent_dirs(build.outs()) precedes Runner::start with `?`; (capture) the task closure "
    "appends every chunk to the output buffer before calling the last-line callback; (print-once) each Progress::task_finished implementation emits "
    "result.output with a single write_all / extend_from_slice. Status decoding is C05.ctor. Decides these clauses, not pipe-boundary or timing behaviour."
)
ASSUMPTIONS = ["cfg(windows) / macOS branches are not type-checked here; pipe-boundary and concurrency timing behaviour are not decided"]
THOROUGH_CONFIGS = ["nodefault"]
RC = "process_posix::run_command"
FA = "process_posix::PosixSpawnFileActions::"
O_CLOEXEC = 0o2000000
O_RDONLY = 0


def recipe(ck, ctx):
    F = ctx.F
    spawners = sorted({b.nname for b, _, _ in F.call_sites("libc::posix_spawn")})
    ck.ob("recipe", "spawner", spawners == [RC], "libc::posix_spawn is called from %s" % spawners, span=RC)
    b = ck.need("fn " + RC, F.body(RC))
    cfg = ctx.cfg(b)
    R = ctx.res(b)
    ck.functions.add(RC)
    sp = Q.sites_in(b, "libc::posix_spawn")
    ck.floor("posix_spawn call", len(sp), 1)
    sbb, st = sp[0]
    a = [strip(R.arg(sbb, i)) for i in range(6)]
    path = a[1]
    ok_path = path[0] == "call" and path[1].endswith("CStr::as_ptr") and strip(path[2][0]) == ("str", 'b"/bin/sh\\0"')
    ck.ob("recipe", "path", ok_path, "posix_spawn path is %s (need c\"/bin/sh\")" % show(path, 2), span=st["loc"], fn=RC)
    argv = None
    for y in walk(a[4]):
        if y[0] == "agg" and y[1] == "array":
            argv = y
    ok_argv = False
    cmd_src = None
    if argv is not None and len(argv[4]) == 4:
        e0, e1, e2, e3 = [strip(x) for x in argv[4]]
        def lit(e, s):
            return e[0] == "call" and e[1].endswith("CStr::as_ptr") and strip(e[2][0]) == ("str", s)
        c2 = [c for c in calls_in(e2) if c[1].endswith("CString::new")]
        ok_argv = lit(e0, 'b"/bin/sh\\0"') and lit(e1, 'b"-c\\0"') and len(c2) == 1 and e3[0] == "call" and e3[1].endswith("ptr::null")
        if c2:
            cmd_src = strip(c2[0][2][0])
    ck.ob("recipe", "argv", ok_argv, "argv = %s (need [c\"/bin/sh\", c\"-c\", CString::new(cmdline), null])" % (show(argv, 2) if argv else None), span=st["loc"], fn=RC)
    ck.ob("cmd-provenance", "run_command|argv2-is-cmdline-param", cmd_src is not None and cmd_src[0] == "param" and cmd_src[2] == "cmdline", "argv[2] is built from run_command's cmdline parameter (%s)" % (show(cmd_src) if cmd_src else None), span=st["loc"], fn=RC)
    # environment and attr/actions pointers
    ok_fa = a[2][0] == "call" and a[2][1] == FA + "as_ptr" or any(c[1] == FA + "as_ptr" for c in calls_in(a[2]))
    ck.ob("recipe", "actions-passed", ok_fa, "the file actions built above are the ones passed to posix_spawn", span=st["loc"], fn=RC)
    # file actions in order
    acts = []
    from .dblog import _rpo
    for x in _rpo(cfg):
        t = b.blocks[x]["term"]
        if t and t["k"] == "call" and callee_of(t).startswith(FA) and callee_of(t).split("::")[-1] in ("addopen", "adddup2", "addclose"):
            acts.append((callee_of(t).split("::")[-1], x, t))
    def pidx(e):
        e = strip(e)
        if e[0] == "index" and len(e) > 2 and e[2][0] == "const" and any(c[1] == "process_posix::pipe2" for c in calls_in(e[1])):
            return "pipe[%d]" % e[2][1]
        if e[0] == "const":
            return e[1]
        if e[0] == "str":
            return e[1]
        return show(e, 2)
    got = []
    for name, x, t in acts:
        got.append((name,) + tuple(pidx(R.arg(x, i)) for i in range(1, len(t["args"]))))
    want = [("addopen", 0, 'b"/dev/null\\0"', O_RDONLY, 0), ("adddup2", "pipe[1]", 1), ("adddup2", "pipe[1]", 2), ("addclose", "pipe[0]"), ("addclose", "pipe[1]")]
    ck.ob("recipe", "file-actions-sequence", got == want, "file actions in program order: %s (need %s)" % (got, want), span=b.loc, fn=RC)
    tries = C.try_err_edges(ctx, b)
    for i, (name, x, t) in enumerate(acts):
        tr = RL.try_of_call(ctx, b, x)
        ok = cfg.dominates(x, sbb) and tr is not None and Q.gated(cfg, sbb, {(tr[0], tr[1])})[0]
        ck.ob("recipe", "action#%d:%s|checked-before-spawn" % (i, name), ok, "%s dominates posix_spawn and its error aborts the spawn (`?`)" % name, span=t["loc"], fn=RC)
        # same actions object
        same = strip(R.arg(x, 0)) == strip(R.arg(acts[0][1], 0))
        ck.ob("recipe", "action#%d:%s|same-object" % (i, name), same, "all actions are added to one PosixSpawnFileActions", span=t["loc"], fn=RC)
    # wrappers forward their arguments to the libc primitive unchanged
    for name, prim in (("addopen", "libc::posix_spawn_file_actions_addopen"), ("adddup2", "libc::posix_spawn_file_actions_adddup2"), ("addclose", "libc::posix_spawn_file_actions_addclose")):
        wb = ck.need("fn " + FA + name, F.body(FA + name))
        WR = ctx.res(wb)
        okw = False
        for bb, t in wb.calls():
            if callee_of(t) == prim:
                args = [strip(WR.arg(bb, i)) for i in range(1, len(t["args"]))]
                params = []
                for e in args:
                    ps = [y[1] for y in walk(e) if y[0] == "param"]
                    params.append(ps[0] if ps else None)
                okw = params == list(range(2, 2 + len(args)))
        ck.ob("recipe", "wrapper|%s" % name, okw, "%s forwards its arguments in order to %s" % (name, prim), span=wb.loc, fn=wb.nname)
    # the spawn result is checked
    chk = [(bb, t) for bb, t in b.calls() if callee_of(t) == "process_posix::check_posix_spawn" and any(c[1] == "libc::posix_spawn" for c in calls_in(R.arg(bb, 1)))]
    # the two result checkers are exact: posix_spawn-family calls report an error as a non-zero return, errno-style calls as a negative one
    for hn, form in (("process_posix::check_posix_spawn", "nonzero"), ("process_posix::check_ret_errno", "negative")):
        hb = ck.need("fn " + hn, F.body(hn))
        hcfg = ctx.cfg(hb)
        errs_ = [eb for eb, _ in C.err_return_blocks(ctx, hb)]
        oks_ = [ob for ob, _, _ in C.ok_return_blocks(ctx, hb)]
        gates_ = set()
        for sbb, st_, e_ in Q.switches(ctx, hb):
            se_ = strip(e_)
            if se_[0] == "bin" and strip(se_[2])[0] == "param" and strip(se_[2])[2] == "ret" and se_[3] == ("const", 0):
                tl_, fl_ = Q.bool_edges(st_)
                if form == "nonzero" and se_[1] in ("Ne", "Eq"):
                    gates_.add((sbb, tl_ if se_[1] == "Ne" else fl_))
                if form == "negative" and se_[1] in ("Lt", "Ge"):
                    gates_.add((sbb, tl_ if se_[1] == "Lt" else fl_))
        okh = len(gates_) == 1 and bool(errs_) and bool(oks_) and all(Q.gated(hcfg, eb, gates_)[0] for eb in errs_)
        if okh:
            st0 = [tt for (x, lab) in gates_ for tt in hcfg.edge_targets(x, lab)]
            okh = not any(ob in hcfg.reach_avoid(st0) for ob in oks_)
        ck.ob("recipe", "%s|exact" % hn.split("::")[-1], okh, "%s returns Err exactly when its `ret` argument is %s" % (hn.split("::")[-1], "non-zero" if form == "nonzero" else "negative"), span=hb.loc, fn=hn)
        ck.functions.add(hn)
    ck.ob("recipe", "spawn-result-checked", len(chk) == 1 and RL.try_of_call(ctx, b, chk[0][0]) is not None, "posix_spawn's return value goes through check_posix_spawn(..)?", span=st["loc"], fn=RC)
    # parent side: close(pipe[1]) after spawn; read from pipe[0]
    cl = [(bb, t) for bb, t in b.calls() if callee_of(t) == "libc::close"]
    okc = len(cl) == 1 and pidx(R.arg(cl[0][0], 0)) == "pipe[1]" and cfg.dominates(sbb, cl[0][0])
    ck.ob("recipe", "parent-closes-write-end", okc, "the parent closes pipe[1] after the spawn (so EOF arrives when the child side closes)", span=b.loc, fn=RC)
    fr = [(bb, t) for bb, t in b.calls() if callee_of(t).endswith("FromRawFd>::from_raw_fd")]
    okr = len(fr) == 1 and pidx(R.arg(fr[0][0], 0)) == "pipe[0]"
    ck.ob("recipe", "parent-reads-read-end", okr, "the parent wraps pipe[0] for reading", span=b.loc, fn=RC)
    return b


def cloexec(ck, ctx):
    F = ctx.F
    fd_makers = {"pipe", "pipe2", "open", "open64", "openat", "creat", "dup", "dup2", "dup3", "socket", "socketpair", "fcntl", "accept", "eventfd", "epoll_create", "epoll_create1", "memfd_create", "posix_openpt", "mkstemp"}
    found = []
    for b in F.all_bodies():
        for bb, t in b.calls():
            if t["callee"].get("foreign") or callee_of(t).startswith("libc::"):
                nm = callee_of(t).split("::")[-1]
                if nm in fd_makers:
                    found.append((b, bb, t, nm))
    for i, (b, bb, t, nm) in enumerate(found):
        ok = False
        detail = ""
        if nm == "pipe2":
            R = ctx.res(b)
            fl = strip(R.arg(bb, 1))
            ok = fl[0] == "const" and (fl[1] & O_CLOEXEC) == O_CLOEXEC
            detail = "flags = %s" % show(fl)
        ck.ob("cloexec", "%s->%s#%d" % (b.nname, nm, i), ok, "descriptor-creating foreign call %s in %s %s (only pipe2 with O_CLOEXEC is allowed)" % (nm, b.nname, detail), span=t["loc"], fn=b.nname)
    ck.floor("descriptor-creating foreign calls", len(found), 1)
    # std-created files are O_CLOEXEC by std's contract; the set of std file openers is checked in C07.sole-writer
    # the pipe used by run_command comes from that pipe2
    pb = ck.need("fn process_posix::pipe2", F.body("process_posix::pipe2"))
    ck.ob("cloexec", "pipe2-wrapper-callers", sorted({b.nname for b, _, _ in F.call_sites("process_posix::pipe2")}) == [RC], "the pipe helper is used by run_command only", span=pb.loc, fn=pb.nname)
    # all foreign calls inventory (report)
    inv = {}
    for b in F.all_bodies():
        for bb, t in b.calls():
            if t["callee"].get("foreign"):
                inv.setdefault(callee_of(t).split("::")[-1], set()).add(b.nname)
    ck.extra["foreign_calls"] = {k: sorted(v) for k, v in sorted(inv.items())}


def read_then_wait(ck, ctx):
    F = ctx.F
    b = F.body(RC)
    cfg = ctx.cfg(b)
    R = ctx.res(b)
    rd = [(bb, t) for bb, t in b.calls() if callee_of(t).endswith("Read>::read") or callee_of(t).endswith("io::Read::read")]
    wp = Q.sites_in(b, "libc::waitpid")
    ck.floor("pipe read in run_command", len(rd), 1)
    ck.floor("waitpid in run_command", len(wp), 1)

    def is_n(e):
        # the Continue payload of `read(..)?` of this loop's read
        return C.from_try_of(e, callee_of(rd[0][1]), rd[0][0])

    g, g_not = C.zero_test_edges(ctx, b, is_n)
    for bb, t in wp:
        ck.ob("read-then-wait", "waitpid-after-eof", Q.gated(cfg, bb, g)[0], "waitpid is reached only through the read loop's `n == 0` (EOF) exit (gates %s)" % sorted(g), span=t["loc"], fn=RC)
        pe = strip(R.arg(bb, 0))
        ck.ob("read-then-wait", "waitpid-pid", True, "waitpid(pid, &mut status, 0)", span=t["loc"], fn=RC, nontrivial=False)
    # read errors propagate
    for bb, t in rd:
        ck.ob("read-then-wait", "read-error-propagates", RL.try_of_call(ctx, b, bb) is not None, "a read error aborts run_command (`?`)", span=t["loc"], fn=RC)
        rcv = strip(R.arg(bb, 0))
        ck.ob("read-then-wait", "reads-the-pipe", any(c[1].endswith("from_raw_fd") for c in calls_in(rcv)), "the loop reads the File made from pipe[0]", span=t["loc"], fn=RC)
    # output_cb(&buf[0..n]) in the loop, n = this read's result, on the non-EOF edge
    cbs = [(bb, t) for bb, t in b.calls() if callee_of(t).endswith("FnMut::call_mut") and cfg.enclosing_loop_header(bb) is not None and cfg.enclosing_loop_header(bb) == cfg.enclosing_loop_header(rd[0][0])]
    ok = len(cbs) == 1
    if ok:
        bb, t = cbs[0]
        e = R.arg(bb, 1)
        rng = [y for y in walk(e) if y[0] == "agg" and y[2] in ("std::ops::Range", "std::ops::RangeTo")]
        if len(rng) == 1 and rng[0][2] == "std::ops::Range":
            lo_ok, hi = rng[0][4][0] == ("const", 0), strip(rng[0][4][1])
        elif len(rng) == 1:
            lo_ok, hi = True, strip(rng[0][4][0])
        else:
            lo_ok, hi = False, ("unk",)
        ok = lo_ok and is_n(hi)
        ok = ok and Q.gated(cfg, bb, g_not, repeat=True)[0]
        # unavoidable on the non-EOF edge
        starts = [tt for (x, lab) in g_not for tt in cfg.edge_targets(x, lab)]
        ok = ok and cfg.enclosing_loop_header(bb) not in cfg.reach_avoid(starts, avoid_blocks=[bb])
    ck.ob("read-then-wait", "every-chunk-delivered", ok, "each successful read of n > 0 bytes is delivered once as &buf[0..n] to the output callback before the next read", span=b.loc, fn=RC)


def provenance_and_before_start(ck, ctx):
    F = ctx.F
    rt = ck.need("fn task::run_task", F.body("task::run_task"))
    cfg = ctx.cfg(rt)
    R = ctx.res(rt)
    ck.functions.add(rt.nname)
    rc = Q.sites_in(rt, RC)
    ck.floor("run_command call in run_task", len(rc), 1)
    for bb, t in rc:
        e = strip(R.arg(bb, 0))
        ck.ob("cmd-provenance", "run_task|passes-cmdline", e[0] == "param" and e[2] == "cmdline", "run_command receives run_task's cmdline parameter (%s)" % show(e), span=t["loc"], fn=rt.nname)
        # rspfile written first when present
        ws = Q.sites_in(rt, "task::write_rspfile")
        ne, se = C.option_edges(ctx, rt, lambda s: s[0] == "param" and s[2] == "rspfile")
        ok = len(ws) == 1 and cfg.dominates(ws[0][0], bb) or (len(ws) == 1 and Q.gated(cfg, ws[0][0], se)[0])
        if len(ws) == 1:
            starts = [tt for (x, lab) in se for tt in cfg.edge_targets(x, lab)]
            r = cfg.reach_avoid(starts, avoid_blocks=[ws[0][0]])
            tr = RL.try_of_call(ctx, rt, ws[0][0])
            ok = bool(se) and bb not in r and tr is not None and Q.gated(cfg, ws[0][0], se)[0]
            # the command is reached only with no rspfile or after a successful write
            ok = ok and Q.gated(cfg, bb, set(ne) | {(tr[0], tr[1])})[0]
            pe = strip(R.arg(ws[0][0], 0))
            ok = ok and any(y[0] == "param" and y[2] == "rspfile" for y in walk(pe))
        ck.ob("before-start", "rspfile-written-first", ok, "when an rspfile exists write_rspfile(rspfile)? runs before the command and its failure aborts the task", span=t["loc"], fn=rt.nname)
    wb = ck.need("fn task::write_rspfile", F.body("task::write_rspfile"))
    WR = ctx.res(wb)
    okw = False
    for bb, t in wb.calls():
        if callee_of(t) == "std::fs::write":
            p, c_ = strip(WR.arg(bb, 0)), strip(WR.arg(bb, 1))
            okw = field_chain(p)[1][-1:] == ["path"] and field_chain(c_)[1][-1:] == ["content"] and strip(field_chain(p)[0]) == strip(field_chain(c_)[0]) and RL.try_of_call(ctx, wb, bb) is not None
    ck.ob("before-start", "rspfile-content", okw, "write_rspfile writes rspfile.content to rspfile.path of the same struct and propagates errors", span=wb.loc, fn=wb.nname)
    # capture closure: extend_from_slice(buf) then last-line callback
    cl = ck.need("closure run_task::{closure#0}", F.body("task::run_task::{closure#0}"))
    ccfg = ctx.cfg(cl)
    CR = ctx.res(cl)
    ext = [(bb, t) for bb, t in cl.calls() if callee_of(t).endswith("extend_from_slice")]
    okx = len(ext) == 1 and all(ccfg.dominates(ext[0][0], r) for r in ccfg.returns())
    if okx:
        v = strip(CR.arg(ext[0][0], 1))
        okx = v[0] == "param"
    ck.ob("capture", "chunk-appended", okx, "the output callback appends every chunk it is given to the task's output buffer", span=cl.loc, fn=cl.nname)
    # Runner::start: cmdline = build.cmdline.clone().unwrap(), captured into the thread closure which passes it to run_task
    sb = ck.need("fn task::Runner::start", F.body("task::Runner::start"))
    SR = ctx.res(sb)
    tc = ck.need("closure Runner::start::{closure#0}", F.body("task::Runner::start::{closure#0}"))
    TR = ctx.res(tc)
    okp = False
    cap_idx = None
    for bb, t in Q.sites_in(tc, "task::run_task"):
        e = strip(TR.arg(bb, 0))
        # &cmdline where cmdline is closure capture field k
        fl = [y for y in walk(e) if y[0] == "field" and strip(y[1])[0] == "param"]
        if fl:
            cap_idx = int(fl[0][2]) if fl[0][2].isdigit() else None
    for bi, blk in enumerate(sb.blocks):
        if blk["cleanup"]:
            continue
        for s in blk["stmts"]:
            if s["k"] == "assign" and s["rv"]["k"] == "agg" and s["rv"]["ak"] == "closure" and cap_idx is not None and cap_idx < len(s["rv"]["ops"]):
                ce = strip(SR.agg_op(bi, s, cap_idx))
                okp = ce[0] == "call" and ce[1].endswith("Option::unwrap") and any(y[0] == "field" and y[2] == "cmdline" and strip(y[1])[0] == "param" for y in walk(ce))
    ck.ob("cmd-provenance", "start|captures-build-cmdline", okp, "the task thread's cmdline is build.cmdline.clone().unwrap() of the build being started (capture #%s)" % cap_idx, span=sb.loc, fn=sb.nname)
    # create_parent_dirs(build.outs())? before Runner::start
    rb = ck.need("fn work::Work::run", F.body("work::Work::run"))
    rcfg = ctx.cfg(rb)
    RR = ctx.res(rb)
    for bb, t in Q.sites_in(rb, "task::Runner::start"):
        cps = Q.sites_in(rb, "work::Work::create_parent_dirs")
        ok = False
        for x, tt in cps:
            tr = RL.try_of_call(ctx, rb, x)
            a = strip(RR.arg(x, 1))
            same_build = any(c[1] == "graph::Build::outs" and strip(c[2][0]) == strip(RR.arg(bb, 2)) for c in calls_in(a))
            if tr and Q.gated(rcfg, bb, {(tr[0], tr[1])}, repeat=True)[0] and same_build:
                ok = True
        ck.ob("before-start", "output-dirs-created", ok, "create_parent_dirs(build.outs())? of the same build succeeds before every Runner::start", span=t["loc"], fn=rb.nname)
    cb = ck.need("fn work::Work::create_parent_dirs", F.body("work::Work::create_parent_dirs"))
    CB = ctx.res(cb)
    okd = False
    for bb, t in cb.calls():
        if callee_of(t) == "std::fs::create_dir_all":
            e = CB.arg(bb, 0)
            okd = any(c[1].endswith("Path::parent") for c in calls_in(e)) and any(c[1] == "graph::File::path" for c in calls_in(e)) and RL.try_of_call(ctx, cb, bb) is not None
    ck.ob("before-start", "create_parent_dirs", okd, "create_parent_dirs creates file(out).path().parent() for its ids and propagates errors", span=cb.loc, fn=cb.nname)
    dirs_complete(ck, ctx, cb)
    C.loops_complete(ck, ctx, "before-start", [("work::Work::create_parent_dirs", "std::fs::create_dir_all", "the step's outputs")])


EQ_ONLY = ("as std::cmp::PartialEq>::eq", "std::cmp::impls::eq")


def dirs_complete(ck, ctx, cb):
    """every output with a parent directory gets create_dir_all(parent) unless the *same* directory was already created in this call:
    the only way round create_dir_all inside the loop is the true edge of `dirs.iter().any(|p| p == parent)` (equality, nothing weaker),
    and `dirs` only ever receives a parent whose create_dir_all succeeded"""
    F = ctx.F
    CB = ctx.res(cb)
    cfg = ctx.cfg(cb)
    creates = [(bb, t) for bb, t in cb.calls() if callee_of(t) == "std::fs::create_dir_all"]
    if len(creates) != 1:
        ck.ob("before-start", "dirs-complete", False, "expected one create_dir_all site in create_parent_dirs (%d)" % len(creates), span=cb.loc, fn=cb.nname)
        return
    cbb, ct = creates[0]
    parent = strip(CB.arg(cbb, 0))
    hdr = cfg.enclosing_loop_header(cbb)
    ne, se = C.option_edges(ctx, cb, lambda e: e[0] == "call" and e[1].endswith("Path::parent"))
    starts = [tt for (x, lab) in se for tt in cfg.edge_targets(x, lab)]
    # recognised skip predicates
    skip_edges = set()
    membership_inserts = set()
    det = []
    for x, st, e in Q.switches(ctx, cb):
        neg = False
        ee = e
        while ee[0] == "un" and ee[1] == "Not":
            ee, neg = ee[2], not neg
        ee = strip(ee)
        tl, fl = Q.bool_edges(st)
        if ee[0] == "call" and ee[1].endswith(("::contains", "HashSet::insert", "BTreeSet::insert")) and len(ee[2]) == 2 and ee[1].startswith(("std::collections::", "std::slice::", "std::vec::", "core::slice::")):
            # set/slice membership of the same parent is an equality test too
            a = strip(ee[2][1])
            if a == parent or parent in list(walk(a)):
                is_ins = ee[1].endswith("insert")
                skip_edges.add((x, (tl if neg else fl) if is_ins else (fl if neg else tl)))
                if is_ins:
                    membership_inserts.add(ee[3])
                det.append("%s@bb%d of the same parent" % (ee[1], ee[3]))
            continue
        if not (ee[0] == "call" and ee[1].endswith("Iterator>::any")):
            continue
        true_lab = fl if neg else tl
        # closure and its captures
        any_bb = ee[3]
        clo = None
        cap_same = False
        for s_ in cb.blocks[any_bb]["stmts"]:
            if s_["k"] == "assign" and s_["rv"]["k"] == "agg" and s_["rv"]["ak"] == "closure":
                clo = F.body(norm(s_["rv"]["name"]))
                caps = [strip(CB.agg_op(any_bb, s_, k)) for k in range(len(s_["rv"]["ops"]))]
                cap_same = any(parent in list(walk(c)) or c == parent for c in caps)
        eq_only = False
        if clo is not None:
            CR = ctx.res(clo)
            ccfg = ctx.cfg(clo)
            rets = ccfg.returns()
            calls = [(bb, t) for bb, t in clo.calls()]
            # the closure is exactly one equality between its element and the captured parent
            if len(calls) == 1 and callee_of(calls[0][1]).endswith(EQ_ONLY) and len(rets) == 1:
                rv = strip(CR.local(0, CR.term_at(rets[0])))
                a0, a1 = (list(walk(CR.arg(calls[0][0], i))) for i in (0, 1))
                elem = any(y[0] == "param" and y[1] == 2 for y in a0 + a1)
                capt = any(y[0] == "param" and y[1] == 1 for y in a0 + a1)
                eq_only = rv[0] == "call" and rv[3] == calls[0][0] and elem and capt
        recv = strip(ee[2][0]) if ee[2] else ()
        det.append("any@bb%d closure=%s eq_only=%s captures_parent=%s" % (any_bb, clo.nname if clo else None, eq_only, cap_same))
        if eq_only and cap_same:
            skip_edges.add((x, true_lab))
    r = cfg.reach_avoid(starts, avoid_blocks=[cbb], avoid_edges=skip_edges)
    ok = bool(starts) and hdr is not None and hdr not in r and not any(x in r for x in cfg.returns())
    ck.ob("before-start", "dirs-complete|no-bypass", ok, "from `Some(parent)` the next iteration or the return is reached only through create_dir_all(parent) or the exact-equality already-created test (%s)" % det, span=ct["loc"], fn=cb.nname)
    # what goes into the remembered list
    tr = RL.try_of_call(ctx, cb, cbb)
    pushes = [(bb, t) for bb, t in cb.calls() if callee_of(t).endswith("Vec::push") or callee_of(t).endswith("::insert")]
    okp = tr is not None
    for bb, t in pushes:
        if bb in membership_inserts:
            continue
        v = strip(CB.arg(bb, 1))
        okp = okp and v == parent and Q.gated(cfg, bb, {(tr[0], tr[1])}, repeat=True)[0]
    ck.ob("before-start", "dirs-complete|remembered-only-after-created", okp, "the already-created list receives only the parent whose create_dir_all just succeeded (%d push sites)" % len(pushes), span=cb.loc, fn=cb.nname)


def print_once(ck, ctx):
    F = ctx.F
    for impl, meth in (("progress_dumb::DumbConsoleProgress", "write_all"), ("progress_fancy::FancyState", "extend_from_slice")):
        name = "<%s as progress::Progress>::task_finished" % impl if "Dumb" in impl else "%s::task_finished" % impl
        b = ck.need("fn " + name, F.body(name))
        R = ctx.res(b)
        cfg = ctx.cfg(b)
        ck.functions.add(name)
        outs = []
        for bb, t in b.calls():
            c = callee_of(t)
            if c.endswith(meth) or c.endswith("Write::write") or c.endswith("extend_from_slice"):
                for i in range(len(t["args"])):
                    e = strip(R.arg(bb, i))
                    if field_chain(e)[1][-1:] == ["output"] or any(field_chain(strip(y))[1][-1:] == ["output"] for y in walk(e) if y[0] == "field"):
                        outs.append(bb)
        ok = len(outs) == 1
        if ok:
            nxt = [y for y, _ in cfg.succ[outs[0]]]
            ok = outs[0] not in cfg.reach_avoid(nxt)
        ck.ob("print-once", name, ok, "%s emits result.output with exactly one %s (sites %s)" % (name, meth, outs), span=b.loc, fn=name)
    fb = F.body("<progress_fancy::FancyConsoleProgress as progress::Progress>::task_finished")
    if fb is not None:
        ok = any(callee_of(t) == "progress_fancy::FancyState::task_finished" for _, t in fb.calls())
        ck.ob("print-once", "fancy-forwards", ok, "the fancy Progress impl forwards task_finished to FancyState under the lock", span=fb.loc, fn=fb.nname)


def fancy_console(ck, ctx):
    from . import fancy as FY
    FY.forward(ck, ctx)
    FY.tasks(ck, ctx)
    FY.flush(ck, ctx)
    FY.thread(ck, ctx)
    FY.shutdown(ck, ctx)
    FY.finished(ck, ctx)
    FY.dumb_finished(ck, ctx)


def run(ck, ctx):
    C.adapter_census(ck, ctx, "capture", ("task::", "process_posix::", "work::", "progress_dumb::"))
    recipe(ck, ctx)
    cloexec(ck, ctx)
    read_then_wait(ck, ctx)
    provenance_and_before_start(ck, ctx)
    print_once(ck, ctx)
    fancy_console(ck, ctx)
    RL.termination_ctors(ck, ctx, "status")
    RL.budget(ck, ctx, "status")
    from . import C19 as R19
    R19.update_each_iteration(ck, ctx)


def run_config(ck, ctx):
    run(ck, ctx)
