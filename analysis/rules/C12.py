"""C12 — any input is either loaded or rejected with a diagnostic (structural clauses)."""
from n2sa import query as Q
from n2sa.expr import strip, show, field_chain, alts, calls_in, walk
from n2sa.facts import callee_of, norm
from . import common as C
from . import scan as S
from . import guards as G
from . import runloop as RL

EXPLANATION = (
    "Static conformance, for ALL byte strings, of the memory-safety and error-routing clauses on rustc MIR of the current tree: (nul-typestate) an "
    "interprocedural typestate over every function taking &mut Scanner / &mut Parser in parse.rs, depfile.rs and scanner.rs shows that no read()/peek() can "
    "follow a consumed NUL without an intervening back(), in any calling context (peek/read coupling, constant-argument summaries of expect/skip), and that "
    "Parser::read returns Ok only with the scanner SAFE so the loader's loop is inductive; since the buffer ends in NUL this makes the unchecked index in "
    "bounds; (scanner-axioms) shape rules on scanner.rs that justify the axioms: unchecked primitives confined to get/slice, ofs written only by read/back "
    "by one step, Scanner::new requires the trailing NUL, get reads buf[ofs]; (inputs) every Scanner/Parser buffer comes from read_file_with_nul which "
    "appends the NUL last; (errflow) every ParseResult is mapped through format_parse_error and propagated with `?` up to run::build, and reaches main's "
    "`n2: error: ` arm with exit 1; (diagnostic) format_parse_error scans the whole buffer so offset == len has a line, its byte cuts are guard-dominated "
    "and it converts lossily; (str-cut) every non-constant str cut in the crate is boundary-safe; (canon-pre) no explicit panic is reachable from "
    "canonicalize_path, which is called on unvalidated strings; (advance) the same interpreter tracks a lower bound of the net number of bytes consumed: every cycle of "
    "every scanner-driven loop in parse.rs, depfile.rs and scanner.rs consumes at least one byte (offset snapshots compared exactly, scratch-vector emptiness "
    "tracked), and Parser::read returns Ok(Some) only after consuming input and Ok(None) only at the NUL, so with the cursor bounded by the buffer these "
    "loops and the loader's statement loop terminate. Decides these clauses, not absence of all panics nor termination of loops that are not scanner-driven "
    "(include recursion, iterator loops)."
)
ASSUMPTIONS = [
    "absence of every possible panic (bounds checks, arithmetic overflow) and termination of non-scanner loops (e.g. include recursion on a file that includes itself) are not decided",
    "numeric invariants of canonicalize_path's in-place rewrite are C13's undecided part",
]
THOROUGH_CONFIGS = ["crlf", "nodefault"]


def canon_pre(ck, ctx):
    F = ctx.F
    sites = F.call_sites("canon::canonicalize_path")
    ck.floor("call sites of canonicalize_path", len(sites), 3)
    found, seen = S.no_explicit_panic(ck, ctx, "canon::canonicalize_path", "canon-pre", ("canon::",))
    for fn in seen:
        ck.functions.add(fn)
    if not found:
        ck.ob("canon-pre", "canon::canonicalize_path|no-explicit-panic", True, "no explicit panic is reachable from canonicalize_path (functions %s)" % seen, span="canon::canonicalize_path")
    for fn, k, msg, loc in found:
        ck.ob("canon-pre", "%s|%s" % (fn, k), False, "explicit panic %s reachable from canonicalize_path, which is called on unvalidated strings at %d sites" % (msg, len(sites)), span=loc, fn=fn)
    # the empty string (`build $undefined: ..`, target "") is returned untouched: the emptiness test comes first and its true edge
    # reaches the return without any call, index or write (the body indexes data[0] when nothing was kept)
    cb = F.body("canon::canonicalize_path")
    if cb is not None:
        ccfg = ctx.cfg(cb)
        z, nz = C.zero_test_edges(ctx, cb, lambda e: e[0] == "call" and e[1].endswith(("String::len", "str::len", "Vec::len")) and strip(e[2][0])[0] == "param")

        def pred_empty(e):
            e = strip(e)
            return e[0] == "call" and e[1].endswith(("String::is_empty", "str::is_empty")) and strip(e[2][0])[0] == "param"

        g_empty = set(C.bool_gate_edges(ctx, cb, pred_empty)) | set(z)
        ok_e = False
        for x, lab in g_empty:
            # first decision of the function, and nothing happens on the empty edge
            pre = [y for y in ccfg.reach if ccfg.dominates(y, x) and y != x]
            pre_calls = [callee_of(cb.blocks[y]["term"]) for y in pre + [x] if cb.blocks[y]["term"] and cb.blocks[y]["term"]["k"] == "call"]
            r = ccfg.reach_avoid(ccfg.edge_targets(x, lab))
            quiet = all((cb.blocks[y]["term"] or {}).get("k") in ("goto", "return", "drop") for y in r)
            if quiet and all(c.endswith(("is_empty", "::len")) for c in pre_calls):
                ok_e = True
        ck.ob("canon-pre", "empty-path-returned-untouched", ok_e, "canonicalize_path tests emptiness first and returns at once for an empty string (gates %s)" % sorted(g_empty), span=cb.loc, fn=cb.nname)
    ck.ob("canon-pre", "reachable-set", "canon::StackStack::push" in seen and "canon::StackStack::pop" in seen, "the search covered the component stack helpers (%s)" % seen, span="canon::canonicalize_path", nontrivial=False)


def panic_inventory(ck, ctx):
    """report only"""
    inv = {}
    for root, pre in (("load::read", ("load::", "parse::", "scanner::", "eval::", "graph::", "canon::", "smallmap::", "densemap::")), ("task::read_depfile", ("depfile::", "scanner::", "smallmap::"))):
        found, seen = S.no_explicit_panic(ck, ctx, root, "inventory", pre)
        inv[root] = dict(functions=len(seen), explicit_panics=["%s %s %s" % (f, k, m) for f, k, m, _ in found])
    ck.extra["panic_inventory_report_only"] = inv


def run(ck, ctx):
    C.adapter_census(ck, ctx, "diagnostic", ("parse::", "scanner::", "depfile::", "canon::"))
    S.nul_typestate(ck, ctx, ["parse::Parser::read", "depfile::parse"])
    res = ck.extra.get("typestate", {}).get("exits", {})
    pr = res.get("parse::Parser::read", [])
    ck.ob("nul-typestate", "Parser::read|ok-implies-safe", bool(pr) and not any("'Ok'" in x and "'SAFE'" not in x for x in pr), "Parser::read returns Ok only with the scanner SAFE: exits %s" % pr, span="parse::Parser::read")
    raw = ck.extra.pop("typestate_raw_exits", {}).get("parse::Parser::read", [])
    somes = [x for x in raw if x[1] and x[1][:2] == ("res", "Ok") and len(x[1]) > 2 and x[1][2] == ("opt", "Some")]
    nones = [x for x in raw if x[1] and x[1][:2] == ("res", "Ok") and len(x[1]) > 2 and x[1][2] == ("opt", "None")]
    untyped = [x for x in raw if x[1] and x[1][:2] == ("res", "Ok") and len(x[1]) == 2]
    ck.ob("advance", "Parser::read|statement-consumes-input", bool(somes) and all(x[2][0] >= 1 for x in somes) and not untyped, "every Ok(Some(statement)) return of Parser::read has consumed at least one byte, so the loader's statement loop terminates (%d exit classes)" % len(somes), span="parse::Parser::read")
    ck.ob("advance", "Parser::read|none-only-at-nul", bool(nones) and all(x[3] for x in nones), "Ok(None) is returned only when the byte under the cursor is the NUL terminator", span="parse::Parser::read")
    S.scanner_axioms(ck, ctx)
    S.inputs_nul_terminated(ck, ctx)
    S.parse_error_flow(ck, ctx)
    RL.exit_status(ck, ctx, "errflow")
    S.format_error_shape(ck, ctx)
    n = G.str_cuts(ck, ctx, "str-cut")
    ck.floor("str cut sites in the crate", n, 2)
    canon_pre(ck, ctx)
    panic_inventory(ck, ctx)
    # a well-formed depfile naming a file that is gone must not reach hash.rs's `missing file` panic
    from . import dirty as D
    D.record_discipline(ck, ctx, rule="depfile-missing-file")


def run_config(ck, ctx):
    # crlf changes read/peek/back; nodefault only the allocator
    S.nul_typestate(ck, ctx, ["parse::Parser::read", "depfile::parse"])
    ck.extra.pop("typestate_raw_exits", None)
    S.scanner_axioms(ck, ctx)
    G.str_cuts(ck, ctx, "str-cut")
