"""C14 — each file has at most one producing step (structural clauses)."""
from n2sa import query as Q
from n2sa.expr import strip, show, field_chain, alts, calls_in, walk
from n2sa.facts import callee_of, norm
from . import common as C
from . import scan as S
from . import C13 as R13

EXPLANATION = (
    "Static conformance of the one-producer discipline on rustc MIR of the current tree: (input-writer) File.input is assigned only in Graph::add_build, "
    "only on the None arm of the match on its previous value, with Some(builds.next_id()) — the id the build receives from the single unconditional "
    "builds.push; (all-outputs) the check iterates the whole build.outs.ids vector (explicit and implicit) with no early exit other than the error; "
    "(second-producer) a Some(prev) with prev != new_id returns Err built from the `is already an output at` template with the new location, the name and "
    "builds[prev].location; no builds.push is reachable after it; the Err propagates by return/`?` through Loader::add_build, parse_with_parser (also across "
    "include/subninja recursion, which shares the same Graph), load::read and run::build, so no Work::run happens; (same-producer) prev == new_id sets the "
    "flag that alone gates remove_duplicates and prints the warning; (spellings) output names reach add_build only through Loader::path (C13.sinks), so "
    "canon-equivalent spellings are the same FileId. Decides these clauses, not remove_duplicates' count arithmetic for all multiplicities."
)
ASSUMPTIONS = ["remove_duplicates' explicit-count arithmetic for three or more repeats is not decided (latent: no reader after load)"]
THOROUGH_CONFIGS = ["nodefault"]
AB = "graph::Graph::add_build"


def producer_never_cleared(ck, ctx, rule):
    """File.input, once it names a producer, keeps naming it: nowhere in the crate is it assigned None, taken, replaced or otherwise
    handed out mutably (readiness and ordering treat a file without producer as a source)"""
    F = ctx.F
    bad = []
    for b in F.view_bodies():
        if b.expn:
            continue
        R_ = None
        for bi, blk in enumerate(b.blocks):
            if blk["cleanup"]:
                continue
            for s_ in blk["stmts"]:
                if s_["k"] != "assign":
                    continue
                pl = s_["place"]
                if pl["p"] and pl["p"][-1].get("k") == "field" and pl["p"][-1].get("name") == "input" and norm(pl["p"][-1].get("of", "")) == "graph::File":
                    R_ = R_ or ctx.res(b)
                    e = strip(R_.stmt_rvalue(bi, s_))
                    if not (e[0] == "agg" and e[3] == "Some"):
                        bad.append("%s assigns %s" % (b.nname, show(e, 2)))
                rv = s_["rv"]
                if rv["k"] == "ref" and rv.get("mut") and rv["place"]["p"] and rv["place"]["p"][-1].get("k") == "field" and rv["place"]["p"][-1].get("name") == "input" and norm(rv["place"]["p"][-1].get("of", "")) == "graph::File":
                    bad.append("%s takes &mut File.input" % b.nname)
    ck.ob(rule, "producer-never-cleared", not bad, "File.input is only ever assigned Some(..) and never borrowed mutably (take/replace): %s" % (bad or "no other use"), span="graph::File")


def run(ck, ctx):
    from . import C13 as R13
    R13.dispatch_table(ck, ctx)
    R13.component_step(ck, ctx)
    C.adapter_census(ck, ctx, "all-outputs", ("graph::", "load::"))
    add_build(ck, ctx)


def add_build(ck, ctx):
    """Graph::add_build registers the new step as the producer of every one of its outputs (explicit and implicit), or rejects it"""
    F = ctx.F
    C.single_writer(ck, ctx, "input-writer", "graph::File", "input", [AB])
    b = ck.need("fn " + AB, F.body(AB))
    cfg = ctx.cfg(b)
    R = ctx.res(b)
    ck.functions.add(AB)
    producer_never_cleared(ck, ctx, "input-writer")
    # the match on f.input
    ms = [z for z in Q.enum_switches(ctx, b) if z[3] == "std::option::Option" and field_chain(strip(z[2]))[1][-1:] == ["input"]]
    ck.floor("match on File.input in add_build", len(ms), 1)
    assigns = [(bi, s) for bi in cfg.reach for s in b.blocks[bi]["stmts"] if s["k"] == "assign" and s["place"]["p"] and s["place"]["p"][-1].get("name") == "input"]
    for x, t, scrut, adt, vmap in ms[:1]:
        none_e = {(x, vmap.get("None"))}
        some_e = {(x, vmap.get("Some"))}
        for i, (bi, s) in enumerate(assigns):
            e = strip(R.stmt_rvalue(bi, s))
            okv = e[0] == "agg" and e[3] == "Some" and strip(e[4][0])[0] == "call" and strip(e[4][0])[1].endswith("DenseMap::next_id") and field_chain(strip(strip(e[4][0])[2][0]))[1][-1:] == ["builds"]
            ck.ob("input-writer", "assign#%d|only-if-none" % i, Q.gated(cfg, bi, none_e, repeat=True)[0], "File.input is assigned only on the None arm of the match on its previous value", span=s.get("loc"), fn=AB)
            ck.ob("input-writer", "assign#%d|new-build-id" % i, okv, "the value assigned is Some(builds.next_id()) (%s)" % show(e, 3), span=s.get("loc"), fn=AB)
            # same file: the scrutinee and the assigned place share the File reference
            sb, sn = field_chain(strip(scrut))
            ok_same = "index_mut" in repr(sb)
            ck.ob("input-writer", "assign#%d|same-file" % i, ok_same, "the file examined is files.by_id[id] of the iterated output", span=s.get("loc"), fn=AB)
        # iterates all outs
        it_ok = False
        for c in calls_in(strip(scrut)):
            if c[1].endswith("IndexMut<K>>::index_mut"):
                for cc in calls_in(c[2][1]):
                    if cc[1].endswith("into_iter") or cc[1].endswith("::iter"):
                        base, names = field_chain(strip(cc[2][0]))
                        it_ok = names[-2:] == ["outs", "ids"] and strip(base)[0] == "param"
        ck.ob("all-outputs", "iterates-outs.ids", it_ok, "the producer check iterates the whole build.outs.ids vector (explicit and implicit outputs)", span=t.get("loc"), fn=AB)
        errs = C.err_return_blocks(ctx, b)
        err_edges = set()
        bad = C.loop_no_early_exit(ctx, b, x)
        # the error return is the only other exit
        bad2 = [e_ for e_ in (bad or []) if not any(eb in cfg.reach_avoid([e_[2]]) for eb, _ in errs)]
        ck.ob("all-outputs", "no-early-exit", bad is not None and not bad2, "the loop over outputs ends only at exhaustion or with the duplicate-output error (%s)" % bad2, span=t.get("loc"), fn=AB)

        def pred_same(e):
            e = strip(e)
            if e[0] == "call" and (e[1].endswith(("BuildId as std::cmp::PartialEq>::eq", "BuildId as std::cmp::PartialEq>::ne")) or e[1] == "std::cmp::PartialEq::ne") and any("next_id" in repr(y) for y in e[2]) and any("input" in repr(y) for y in e[2]):
                return "neg" if e[1].endswith("::ne") else True
            return False

        g_same = C.bool_gate_edges(ctx, b, pred_same)
        g_diff = {(y, [l for l in Q.bool_edges(b.blocks[y]["term"]) if l != lab][0]) for y, lab in g_same}
        ck.ob("second-producer", "compare-with-new-id", len(g_same) == 1 and all(Q.gated(cfg, y, some_e)[0] for y, _ in g_same), "on Some(prev) the previous producer is compared with the new build id", span=t.get("loc"), fn=AB)
        strs = Q.body_strings(F, b)
        for i, (eb, s) in enumerate(errs):
            ok = Q.gated(cfg, eb, g_diff)[0] and Q.gated(cfg, eb, some_e)[0]
            e = R.agg_op(eb, s, 0)
            locs = [y for y in walk(e) if y[0] == "field" and y[2] == "location"]
            both = len({repr(y) for y in locs}) >= 2 and any("index" in repr(y) and "builds" in repr(y) for y in locs)
            ck.ob("second-producer", "error#%d" % i, ok and both and any("is already an output at" in x_ for x_ in strs), "a different previous producer yields Err(`<loc>: <name> is already an output at <prev loc>`) citing both statements", span=s.get("loc"), fn=AB)
        ck.floor("duplicate-output error in add_build", len(errs), 1)
        pushes = [bb for bb, tt in b.calls() if callee_of(tt).endswith("DenseMap::push")]
        starts = [tt for (y, lab) in g_diff for tt in cfg.edge_targets(y, lab)]
        r = cfg.reach_avoid(starts)
        ck.ob("second-producer", "nothing-added", bool(starts) and not any(p in r for p in pushes) and not any(bi in r for bi, s in assigns), "after detecting a second producer neither the build nor any further producer link is added", span=b.loc, fn=AB)
        # same producer: flag -> remove_duplicates
        rd = Q.sites_in(b, "graph::BuildOuts::remove_duplicates")
        flag_sets = [bi for bi in cfg.reach for s in b.blocks[bi]["stmts"] if s["k"] == "assign" and not s["place"]["p"] and b.local_ty(s["place"]["l"]) == "bool" and s["place"]["l"] in b.names and s["rv"]["k"] == "use" and s["rv"]["op"].get("int") == 1]
        ok_f = bool(flag_sets) and all(Q.gated(cfg, fs, g_same)[0] for fs in flag_sets)
        starts_s = [tt for (y, lab) in g_same for tt in cfg.edge_targets(y, lab)]
        r_s = cfg.reach_avoid(starts_s, avoid_blocks=flag_sets)
        hdr = cfg.enclosing_loop_header(x)
        ok_f = ok_f and hdr not in r_s
        from .C01 import _copy_source
        fl_locals = {s["place"]["l"] for bi in flag_sets for s in b.blocks[bi]["stmts"] if s["k"] == "assign" and not s["place"]["p"] and b.local_ty(s["place"]["l"]) == "bool"}
        f_edges = set()
        for sbb, st, e in Q.switches(ctx, b):
            d = st["discr"]
            if d["k"] in ("copy", "move") and not d["place"]["p"] and _copy_source(b, sbb, d["place"]["l"]) in fl_locals:
                f_edges.add((sbb, Q.bool_edges(st)[0]))
        ok_rd = len(rd) == 1 and Q.gated(cfg, rd[0][0], f_edges)[0]
        if ok_rd:
            r2 = cfg.reach_avoid([tt for (y, lab) in f_edges for tt in cfg.edge_targets(y, lab)], avoid_blocks=[rd[0][0]])
            ok_rd = not any(p in r2 for p in pushes)
            recv = strip(R.arg(rd[0][0], 0))
            ok_rd = ok_rd and field_chain(recv)[1][-1:] == ["outs"]
        ck.ob("same-producer", "flag-then-dedup", ok_f and ok_rd, "prev == new_id sets the flag on every such iteration; the flag (and only it) leads to build.outs.remove_duplicates() before the build is stored", span=b.loc, fn=AB)
        ck.ob("same-producer", "warning", any("is repeated in output list" in x_ for x_ in strs), "a repeated output prints the `is repeated in output list` warning", span=b.loc, fn=AB)
    # the build is stored exactly once, unconditionally after the loops
    ck.ob("input-writer", "stored-once", len([1 for _, tt in b.calls() if callee_of(tt).endswith("DenseMap::push")]) == 1, "add_build stores the build with exactly one builds.push", span=b.loc, fn=AB)
    oks = C.ok_return_blocks(ctx, b)
    pushes = [bb for bb, tt in b.calls() if callee_of(tt).endswith("DenseMap::push")]
    ck.ob("input-writer", "ok-implies-stored", bool(pushes) and all(cfg.dominates(pushes[0], ob) for ob, s, e in oks), "Ok is returned only after the build was stored", span=b.loc, fn=AB)
    # propagation
    S.parse_error_flow(ck, ctx, rule="second-producer-flow")
    lb = ck.need("fn load::Loader::add_build", F.body("load::Loader::add_build"))
    sites = Q.sites_in(lb, AB)
    ck.ob("second-producer-flow", "loader-returns-result", len(sites) == 1 and not sites[0][1]["dest"]["p"] and sites[0][1]["dest"]["l"] == 0, "Loader::add_build returns graph.add_build(build) directly", span=lb.loc, fn=lb.nname)
    C.callers_exact(ck, ctx, "second-producer-flow", AB, ["load::Loader::add_build"], floor=1)
    # one shared graph across include / subninja: the recursive call uses the same loader
    pw = ck.need("fn load::Loader::parse_with_parser", F.body("load::Loader::parse_with_parser"))
    PR = ctx.res(pw)
    for bb, t in Q.sites_in(pw, "load::Loader::parse_with_parser"):
        e = strip(PR.arg(bb, 0))
        ck.ob("second-producer-flow", "include-shares-graph", e[0] == "param" and e[2] == "self", "included / subninja files are loaded into the same Loader (one graph)", span=t["loc"], fn=pw.nname)
    R13.sinks(ck, ctx)
    R13.wrapper(ck, ctx)


def run_config(ck, ctx):
    run(ck, ctx)
