"""SUM: graph::Build role accessors are the expected slices of the single input/output vectors."""
from n2sa.expr import strip, show, field_chain, alts

SPEC = {
    # accessor -> (vector field path, kind, multiset of count fields for the bound)
    "graph::Build::explicit_ins": (["ins", "ids"], "prefix", [["ins", "explicit"]]),
    "graph::Build::dirtying_ins": (["ins", "ids"], "prefix", [["ins", "explicit"], ["ins", "implicit"]]),
    "graph::Build::ordering_ins": (["ins", "ids"], "prefix", [["ins", "explicit"], ["ins", "implicit"], ["ins", "order_only"]]),
    "graph::Build::validation_ins": (["ins", "ids"], "suffix", [["ins", "explicit"], ["ins", "implicit"], ["ins", "order_only"]]),
    "graph::Build::discovered_ins": (["discovered_ins"], "whole", None),
    "graph::Build::explicit_outs": (["outs", "ids"], "prefix", [["outs", "explicit"]]),
    "graph::Build::outs": (["outs", "ids"], "whole", None),
}


def linear(e):
    """sum of field reads -> sorted list of field paths, or None"""
    e = strip(e)
    if e[0] == "bin" and e[1] == "Add":
        a, b = linear(e[2]), linear(e[3])
        if a is None or b is None:
            return None
        return sorted(a + b)
    base, names = field_chain(e)
    if names and strip(base)[0] == "param":
        return [names]
    return None


def describe(e):
    """(vector path, kind, bound) of a slice expression"""
    e = strip(e)
    if e[0] == "call" and e[1].endswith("Index<I>>::index"):
        vec, rng = strip(e[2][0]), strip(e[2][1])
        vb, vn = field_chain(vec)
        if strip(vb)[0] != "param":
            return None
        if rng[0] == "agg" and rng[2] == "std::ops::Range" and rng[4][0] == ("const", 0):
            return vn, "prefix", linear(rng[4][1])
        if rng[0] == "agg" and rng[2] == "std::ops::RangeFrom":
            return vn, "suffix", linear(rng[4][0])
        if rng[0] == "agg" and rng[2] == "std::ops::RangeTo":
            return vn, "prefix", linear(rng[4][0])
        if rng[0] == "agg" and rng[2] == "std::ops::RangeFull":
            return vn, "whole", None
        return vn, "?" + show(rng, 2), None
    base, names = field_chain(e)
    if names and strip(base)[0] == "param":
        return names, "whole", None
    return None


def accessors(ck, ctx, only=None, rule="accessors"):
    F = ctx.F
    for fn, (vec, kind, bound) in SPEC.items():
        if only and fn not in only:
            continue
        b = F.body(fn)
        if b is None:
            ck.ob("anchor", "fn " + fn, False, "anchor-missing: accessor %s" % fn, nontrivial=False)
            continue
        R = ctx.res(b)
        cfg = ctx.cfg(b)
        rets = cfg.returns()
        e = R.local(0, R.term_at(rets[0])) if rets else ("unk", "no return")
        ok = True
        got = []
        for a in alts(e):
            d = describe(a)
            got.append(d)
            want_bound = sorted(bound) if bound else None
            if d is None or d[0] != vec or d[1] != kind or (d[2] or None) != want_bound:
                ok = False
        ck.ob(rule, fn, ok, "%s returns %s; need %s %s of self.%s" % (fn, got, kind, ("+".join(".".join(x) for x in bound) if bound else ""), ".".join(vec)), span=b.loc, fn=fn)
    # the single vector with role counts: validation count is implied (no separate field)
    fields = F.struct_fields("graph::BuildIns")
    ck.ob(rule, "BuildIns-fields", fields is not None and set(fields) == {"ids", "explicit", "implicit", "order_only"}, "graph::BuildIns fields = %s" % fields, span="graph::BuildIns")
    fields = F.struct_fields("graph::BuildOuts")
    ck.ob(rule, "BuildOuts-fields", fields is not None and set(fields) == {"ids", "explicit"}, "graph::BuildOuts fields = %s" % fields, span="graph::BuildOuts")
