"""C01 — a command starts only after its dependencies finished; at most once (structural clauses)."""
from n2sa import query as Q
from n2sa.expr import strip, show, field_chain, alts, calls_in, walk
from n2sa.facts import callee_of, norm
from . import common as C
from . import statemachine as SM
from . import accessors as ACC

EXPLANATION = (
    "Static conformance of n2's build-state machine, decided on rustc MIR of the current tree: (table) BuildStates::set pushes an id on the ready queue "
    "exactly on transitions into Ready and replaces the state slot, for all 98 (prev,new,phony) inputs (exhaustive abstract interpretation); (sites) every "
    "call of set is classified by new state and by the provenance/gating of its id (gate on get(id)==Unknown / ==Want, payload of pop_ready / pop_queued, "
    "buildid of Runner::wait) and the induced (pre,new) relation must lie inside Unknown->{Want,Ready}, Want->Ready, Ready->{Done,Queued}, Queued->Running, "
    "Running->{Done,Failed}, which is rank-monotone so no state is entered twice; (start) Runner::start only receives the pop_queued payload after "
    "set(id,Running) on the same id; (queues) single writers of the ready queue, pool queues, state vector; (ready-want / ready-recheck) decision tables over all paths "
    "and loop iterations (constant propagation with ghost state): want_build hands set() Ready iff every *ordering* input's want_file answered true, want_file answers "
    "true iff no producer or want_build returned Done, recheck_ready answers true iff no examined producer state differs from Done (7 states); no early loop exit; (accessors) ordering_ins = ids[0..explicit+implicit+order_only], "
    "validation_ins the rest, discovered deps separate; (success-only) only the Success arm of the completion switch reaches record_finished / "
    "ready_dependents; (dependents) File.dependents is appended for every input of every added build; at-most-once promotion through a de-duplicating set. "
    "Decides these clauses, not schedule correctness as a whole."
)
ASSUMPTIONS = [
    "queue-content invariants (ready queue holds Ready ids, pool queues hold Queued ids, the runner holds Running ids) follow inductively from the single-writer and site rules; they are premises of the pre-state classification, not separately proved",
    "unwind paths are not explored",
]
THOROUGH_CONFIGS = ["nodefault"]

BS = "work::BuildStates"
STATE = "work::BuildState"
ALLOWED = {
    ("Unknown", "Want"), ("Unknown", "Ready"), ("Want", "Ready"), ("Ready", "Done"), ("Ready", "Queued"),
    ("Queued", "Running"), ("Running", "Done"), ("Running", "Failed"),
}


def payload_of(e):
    """e == (call X(..) as V).0  ->  (callee, variant, call_expr)"""
    e = strip(e)
    if e[0] == "field" and e[2] == "0":
        d = strip(e[1])
        if d[0] == "downcast":
            c = strip(d[1])
            if c[0] == "call":
                return c[1], d[2], c
    if e[0] == "downcast":
        c = strip(e[1])
        if c[0] == "call":
            return c[1], e[2], c
    return None


def classify_id(e):
    """provenance class of a BuildId expression"""
    out = set()
    for a in alts(strip(e)):
        a = strip(a)
        p = payload_of(a)
        if p and p[0] == "work::BuildStates::pop_ready" and p[1] == "Some":
            out.add("pop_ready")
        elif p and p[0] == "work::BuildStates::pop_queued" and p[1] == "Some":
            out.add("pop_queued")
        elif a[0] == "param":
            out.add("param:" + a[2])
        elif a[0] == "field" and a[2] == "buildid" and strip(a[1])[0] == "call" and strip(a[1])[1] == "task::Runner::wait":
            out.add("wait.buildid")
        elif p and p[0].endswith("Iterator>::next") and p[1] == "Some":
            out.add("iter:" + show(p[2][2][0], 3) if p[2][2] else "iter")
        else:
            out.add("other:" + show(a, 2))
    return out


def state_gate_edges(ctx, body, id_expr, want_state):
    """edges on which `BuildStates::get(_, id) == want_state` is known (eq true / ne false)"""

    def pred(e):
        e = strip(e)
        if e[0] != "call":
            return False
        nm = e[1]
        is_ne = nm.endswith("::ne")
        if not (nm.endswith("PartialEq>::eq") or nm.endswith("PartialEq::eq") or is_ne):
            return False
        a, b = strip(e[2][0]), strip(e[2][1])
        for x, y in ((a, b), (b, a)):
            if x[0] == "call" and x[1] == "work::BuildStates::get" and strip(x[2][1]) == strip(id_expr):
                if y[0] == "promoted" and y[2] == ("enum", STATE, want_state):
                    return "neg" if is_ne else True
        return False

    return C.bool_gate_edges(ctx, body, pred)


def new_states(e):
    r = set()
    for a in alts(e):
        a = strip(a)
        if a[0] == "agg" and a[2] == STATE:
            r.add(a[3])
        else:
            r.add("?" + show(a, 2))
    return r


def sites(ck, ctx):
    F = ctx.F
    sites = F.call_sites(SM.SET)
    ck.floor("call sites of BuildStates::set", len(sites), 6)
    relation = []
    per_fn = {}
    for b, bb, t in sites:
        R = ctx.res(b)
        cfg = ctx.cfg(b)
        i = per_fn.get(b.nname, 0)
        per_fn[b.nname] = i + 1
        key = "%s->set#%d" % (b.nname, i)
        ck.functions.add(b.nname)
        ide = R.arg(bb, 1)
        news = new_states(R.arg(bb, 3))
        cls = classify_id(ide)
        pres = set()
        why = []
        # build argument must be graph.builds[id] of the same id (or the caller's build parameter paired with its id parameter)
        be = strip(R.arg(bb, 2))
        ok_build = False
        if be[0] == "call" and be[1].endswith("Index<K>>::index") and strip(be[2][1]) == strip(ide):
            base, names = field_chain(strip(be[2][0]))
            ok_build = names[-1:] == ["builds"]
        elif be[0] == "param" and all(c.startswith("param:") for c in cls):
            ok_build = True  # forwarded pair (enqueue); checked at the caller
        ck.ob("sites", key + "|build-matches-id", ok_build, "set(id=%s, build=%s): build must be graph.builds[id]" % (show(ide, 2), show(be, 2)), span=t["loc"], fn=b.nname)
        for c in cls:
            if c == "pop_ready":
                pres.add("Ready")
            elif c == "pop_queued":
                pres.add("Queued")
            elif c == "wait.buildid":
                pres.add("Running")
            elif c.startswith("param:") or c.startswith("iter:"):
                # need a dominating gate on get(id) or caller-derived pre-state
                found = False
                for st in F.variants(STATE):
                    g = state_gate_edges(ctx, b, ide, st)
                    if g:
                        ok, _ = Q.gated(cfg, bb, g)
                        if ok:
                            pres.add(st)
                            found = True
                            why.append("gate get(id)==%s" % st)
                if not found and c.startswith("iter:"):
                    # ids drawn from a local collection: every insert must be gated
                    pres |= collection_gate(ck, ctx, b, bb, t, ide, key)
                    found = True
                if not found and c.startswith("param:"):
                    pres |= caller_pre(ck, ctx, b, c.split(":", 1)[1], key)
            else:
                pres.add("?" + c)
        for p in sorted(pres):
            for n in sorted(news):
                relation.append((p, n, key, t["loc"]))
        ck.ob(
            "sites",
            key,
            bool(pres) and all((p, n) in ALLOWED for p in pres for n in news),
            "set(id<-%s, new=%s): derived pre-states %s %s; transitions must lie in the allowed DAG" % (sorted(cls), sorted(news), sorted(pres), why),
            span=t["loc"],
            fn=b.nname,
        )
    got_new = {n for _, n, _, _ in relation}
    ck.ob("sites", "all-states-produced", {"Want", "Ready", "Queued", "Running", "Done", "Failed"} <= got_new, "states produced by some site: %s" % sorted(got_new), span=SM.SET)
    ck.extra["transition_relation"] = sorted({(p, n) for p, n, _, _ in relation})


def caller_pre(ck, ctx, b, pname, key):
    """pre-states implied at the callers of b for the id passed as parameter `pname`"""
    F = ctx.F
    pres = set()
    idx = None
    for i in range(1, b.argc + 1):
        if b.local_name(i) == pname:
            idx = i - 1
    for cb, cbb, ct in F.call_sites(b.nname):
        R = ctx.res(cb)
        e = R.arg(cbb, idx)
        for c in classify_id(e):
            if c == "pop_ready":
                pres.add("Ready")
            elif c == "pop_queued":
                pres.add("Queued")
            elif c == "wait.buildid":
                pres.add("Running")
            else:
                pres.add("?%s@%s" % (c, cb.nname))
        ck.functions.add(cb.nname)
    if not pres:
        pres.add("?no-callers")
    return pres


def collection_gate(ck, ctx, b, bb, t, ide, key):
    """id iterated out of a local set: (i) the set de-duplicates, (ii) every insert is gated by get(x)==Want
    on the inserted x, (iii) the promotion itself is under recheck_ready(builds[id])"""
    F = ctx.F
    R = ctx.res(b)
    cfg = ctx.cfg(b)
    pres = set()
    p = payload_of(ide)
    it = strip(p[2][2][0]) if p and p[2][2] else None
    # find the collection local: into_iter(<local>) feeding the iterator
    coll = None
    for c in calls_in(ide):
        if c[1].endswith("IntoIterator>::into_iter") or c[1].endswith("::into_iter") or c[1].endswith("::iter") or c[1].endswith("::drain"):
            a = strip(c[2][0])
            if a[0] == "call" and (a[1].endswith("::new") or a[1].endswith("::default") or a[1].endswith("with_capacity")):
                coll = a
    ok_set = coll is not None and ("HashSet" in coll[1] or "BTreeSet" in coll[1])
    ck.ob("at-most-once", key + "|dedup", ok_set, "ids promoted to Ready are drawn from a de-duplicating set (%s)" % (coll[1] if coll else show(ide, 3)), span=t["loc"], fn=b.nname)
    ins = [(ibb, it_) for ibb, it_ in b.calls() if callee_of(it_).endswith("Set::insert") or callee_of(it_).endswith("Vec::push") and False]
    ins = [(ibb, it_) for ibb, it_ in ins if coll is not None and any(x == coll for x in walk(R.arg(ibb, 0)))]
    all_ok = bool(ins)
    for k, (ibb, it_) in enumerate(ins):
        xe = R.arg(ibb, 1)
        g = state_gate_edges(ctx, b, xe, "Want")
        ok, why = Q.gated(cfg, ibb, g)
        ck.ob("at-most-once", key + "|insert#%d" % k, ok, "insert of %s into the promotion set is gated by get(x)==Want (gates %s)" % (show(xe, 2), sorted(g)), span=it_["loc"], fn=b.nname)
        all_ok &= ok
    if all_ok:
        pres.add("Want")
    else:
        pres.add("?ungated-insert")

    # recheck gate
    def pred(e):
        e = strip(e)
        if e[0] == "call" and e[1] == "work::Work::recheck_ready":
            be = strip(e[2][1])
            return be[0] == "call" and be[1].endswith("Index<K>>::index") and strip(be[2][1]) == strip(ide)
        return False

    g = C.bool_gate_edges(ctx, b, pred)
    ok, why = Q.gated(cfg, bb, g, repeat=True)
    ck.ob("ready-recheck", key + "|recheck-gate", ok, "promotion to Ready is dominated by recheck_ready(builds[id]) == true for the same id (gates %s)" % sorted(g), span=t["loc"], fn=b.nname)
    # between the Done transition's collection phase and the promotion no state can change: the only set() calls in b are the two sites
    return pres


def start(ck, ctx):
    F = ctx.F
    sites = C.callers_exact(ck, ctx, "start-callers", "task::Runner::start", ["work::Work::run"], floor=1)
    for i, (b, bb, t) in enumerate(sites):
        R = ctx.res(b)
        cfg = ctx.cfg(b)
        ide = R.arg(bb, 1)
        cls = classify_id(ide)
        ck.ob("start", "%s->start#%d|id" % (b.nname, i), cls == {"pop_queued"}, "Runner::start receives id <- %s (need the pop_queued Some payload)" % sorted(cls), span=t["loc"], fn=b.nname)
        # set(id, Running) on the same id dominates, with no other start in between (fresh per start)
        doms = []
        for sbb, st in Q.sites_in(b, SM.SET):
            if new_states(R.arg(sbb, 3)) == {"Running"} and strip(R.arg(sbb, 1)) == strip(ide):
                doms.append(sbb)
        ok = False
        for sbb in doms:
            if cfg.dominates(sbb, bb):
                # fresh: from the start call back to itself every path passes the set block
                nxt = [x for x, _ in cfg.succ[bb]]
                ok = bb not in cfg.reach_avoid(nxt, avoid_blocks=[sbb])
        ck.ob("start", "%s->start#%d|running-first" % (b.nname, i), ok, "set(id, Running) on the same id dominates Runner::start and recurs between consecutive starts (set blocks %s)" % doms, span=t["loc"], fn=b.nname)
        be = strip(R.arg(bb, 2))
        okb = be[0] == "call" and be[1].endswith("Index<K>>::index") and strip(be[2][1]) == strip(ide)
        ck.ob("start", "%s->start#%d|build" % (b.nname, i), okb, "Runner::start(id, build): build is graph.builds[id] (%s)" % show(be, 2), span=t["loc"], fn=b.nname)


def queues(ck, ctx):
    C.single_writer(ck, ctx, "queues", "work::PoolState", "queued", ["work::BuildStates::enqueue", "work::BuildStates::pop_queued"])
    C.single_writer(ck, ctx, "queues", BS, "ready", [SM.SET, "work::BuildStates::pop_ready"])
    C.single_writer(ck, ctx, "queues", BS, "states", [SM.SET])
    F = ctx.F
    # who pushes where
    push_sites = {}
    for b in F.view_bodies():
        R = None
        for bb, t in b.calls():
            c = callee_of(t)
            if c.endswith("VecDeque::push_back") or c.endswith("VecDeque::push_front") or c.endswith("VecDeque::extend") or c.endswith("VecDeque::insert"):
                R = R or ctx.res(b)
                base, names = field_chain(strip(R.arg(bb, 0)))
                if names:
                    push_sites.setdefault(names[-1], set()).add(b.nname)
    ck.ob("queues", "ready-pushers", push_sites.get("ready") == {SM.SET}, "pushes onto BuildStates.ready: %s (only set may push)" % sorted(push_sites.get("ready", [])), span=BS)
    ck.ob("queues", "queued-pushers", push_sites.get("queued") == {"work::BuildStates::enqueue"}, "pushes onto PoolState.queued: %s (only enqueue may push)" % sorted(push_sites.get("queued", [])), span="work::PoolState")
    # enqueue pushes the id it just set Queued
    b = ck.need("fn work::BuildStates::enqueue", F.body("work::BuildStates::enqueue"))
    R = ctx.res(b)
    cfg = ctx.cfg(b)
    for bb, t in b.calls():
        if callee_of(t).endswith(("VecDeque::push_back", "VecDeque::push_front")):
            ide = strip(R.arg(bb, 1))
            sets = [sbb for sbb, st in Q.sites_in(b, SM.SET) if new_states(R.arg(sbb, 3)) == {"Queued"} and strip(R.arg(sbb, 1)) == ide]
            ck.ob("queues", "enqueue-set-then-push", any(cfg.dominates(s, bb) for s in sets), "enqueue pushes %s after set(id, Queued) on the same id" % show(ide), span=t["loc"], fn=b.nname)
    # pop_ready / pop_queued return what they popped
    for fn, fld in (("work::BuildStates::pop_ready", "ready"), ("work::BuildStates::pop_queued", "queued")):
        b = ck.need("fn " + fn, F.body(fn))
        R = ctx.res(b)
        okr = True
        n = 0
        for bb, s in Q.ret_assignments(b):
            e = R.stmt_rvalue(bb, s) if "rv" in s else R.call_expr(s, bb, R.term_at(bb))
            for a in alts(e):
                a = strip(a)
                if a[0] == "agg" and a[3] == "None":
                    continue
                n += 1
                cs = [c for c in calls_in(a) if c[1].endswith(("VecDeque::pop_front", "VecDeque::pop_back"))]
                good = bool(cs) and all(field_chain(strip(c[2][0]))[1][-1:] == [fld] for c in cs)
                okr &= good
        ck.ob("queues", fn + "|returns-popped", okr and n > 0, "%s returns only ids popped from .%s (which end is a scheduling choice, not part of the property)" % (fn, fld), span=b.loc, fn=fn)


def ready_want(ck, ctx):
    F = ctx.F
    b = ck.need("fn work::BuildStates::want_build", F.body("work::BuildStates::want_build"))
    R = ctx.res(b)
    cfg = ctx.cfg(b)
    ck.functions.add(b.nname)
    sets = Q.sites_in(b, SM.SET)
    ck.floor("set sites in want_build", len(sets), 1)
    # the ordering loop: want_file calls whose id comes from iterating Build::ordering_ins(builds[id])
    wf = Q.sites_in(b, "work::BuildStates::want_file")
    ord_sites = []
    val_sites = []
    for bb, t in wf:
        ide = R.arg(bb, 3)
        src = {c[1] for c in calls_in(ide)}
        if "graph::Build::ordering_ins" in src:
            ord_sites.append((bb, t))
        elif "graph::Build::validation_ins" in src:
            val_sites.append((bb, t))
        else:
            ck.ob("ready-want", "want_file-source@%d" % len(ord_sites + val_sites), False, "want_file in want_build iterates %s (need ordering_ins or validation_ins)" % sorted(src), span=t["loc"], fn=b.nname)
    ck.floor("want_file over ordering_ins in want_build", len(ord_sites), 1)
    set_bb = sets[0][0] if sets else None
    for i, (bb, t) in enumerate(ord_sites):
        # the iterated build is builds[id] of the id being visited
        ide = R.arg(bb, 3)
        builds_ok = False
        for c in calls_in(ide):
            if c[1] == "graph::Build::ordering_ins":
                be = strip(c[2][0])
                builds_ok = be[0] == "call" and be[1].endswith("Index<K>>::index") and field_chain(strip(be[2][0]))[1][-1:] == ["builds"] and strip(be[2][1])[0] == "param"
        whole, bad_ad = C.iter_is_whole(ide)
        ck.ob("ready-want", "ordering-loop#%d|all-ordering-inputs" % i, whole, "every ordering input is visited (no limiting iterator adapter: %s)" % bad_ad, span=t["loc"], fn=b.nname)
        ck.ob("ready-want", "ordering-loop#%d|iterates-own-build" % i, builds_ok, "the readiness loop iterates ordering_ins of graph.builds[<id param>]", span=t["loc"], fn=b.nname)
        # (1) the loop precedes the state decision: the call dominates set
        ck.ob("ready-want", "ordering-loop#%d|before-set" % i, set_bb is not None and cfg.dominates(cfg.enclosing_loop_header(bb) or bb, set_bb), "all ordering inputs are visited before the state is decided", span=t["loc"], fn=b.nname)
        # (2)+(3) what state is handed to `set`: decided by path-sensitive propagation with a ghost bit "some ordering input
        # answered false" (independent of how the flag is spelled: `ready = false`, `ready = ready && r`, `if ready {Ready} else {Want}`)
        if i == 0:
            _state_decision(ck, ctx, b, {x for x, _ in ord_sites})
        # (4) no early exit from the loop other than `?`
        tries = C.try_err_edges(ctx, b)
        hdr = cfg.enclosing_loop_header(bb)
        if hdr is not None:
            loop = cfg.natural_loop(hdr)
            exits = [(x, lab, y) for x in loop for y, lab in cfg.succ[x] if y not in loop and (b.blocks[y]["term"] or {}).get("k") != "unreachable"]
            bad = []
            for x, lab, y in exits:
                if x in tries and lab == tries[x][1]:
                    continue  # `?` Break edge
                # iterator exhausted: switch on discriminant of next() with None
                es = [z for z in Q.enum_switches(ctx, b) if z[0] == x]
                if es and es[0][3] == "std::option::Option" and es[0][4].get("None") == lab and strip(es[0][2])[0] == "call" and strip(es[0][2])[1].endswith("Iterator>::next"):
                    continue
                bad.append((x, lab, y))
            ck.ob("ready-want", "ordering-loop#%d|no-early-exit" % i, not bad, "the ordering loop is left only when the iterator is exhausted or by `?` (other exits: %s)" % bad, span=t["loc"], fn=b.nname)
    # want_file: Ok(true) only if input is None or want_build returned Done
    wfb = ck.need("fn work::BuildStates::want_file", F.body("work::BuildStates::want_file"))
    R2 = ctx.res(wfb)
    cfg2 = ctx.cfg(wfb)
    ck.functions.add(wfb.nname)
    wb = Q.sites_in(wfb, "work::BuildStates::want_build")
    ck.floor("want_build sites in want_file", len(wb), 1)
    for i, (bb, t) in enumerate(wb):
        # argument is file(id).input payload of the visited id
        be = strip(R2.arg(bb, 3))
        base, names = field_chain(be)
        okb = "input" in names and any(c[1] == "graph::Graph::file" for c in calls_in(be))
        ck.ob("ready-want", "want_file->want_build#%d|producer" % i, okb, "want_file recurses into the producer of the file: %s" % show(be, 3), span=t["loc"], fn=wfb.nname)
    _want_file_answer(ck, ctx, wfb)


def _state_decision(ck, ctx, b, ord_bbs):
    from n2sa.flagint import FlagInt, RESULT
    F = ctx.F

    def hook(fi, bi, t, callee, args, vals, ghost):
        if callee == "work::BuildStates::want_file":
            g2 = dict(ghost)
            if bi in ord_bbs:
                g2["seen_false"] = True
            return [(("en", RESULT, "Ok", (("b", True),)), ghost), (("en", RESULT, "Ok", (("b", False),)), g2), (("en", RESULT, "Err", None), ghost)]
        if callee == SM.SET:
            fi.observe("set", bi, fi._deref(vals, args[3]) if len(args) > 3 else None, ghost)
        return None

    fi = FlagInt(F, b, hook).run()
    obs = [o for o in fi.obs if o[0] == "set"]
    bad = []
    for _, bb, st, g in obs:
        seen_false = dict(g).get("seen_false", False)
        want = "Want" if seen_false else "Ready"
        if not (st is not None and st[0] == "en" and st[1] == STATE and st[2] == want):
            bad.append("some input not ready=%s -> %s" % (seen_false, st[2] if st and st[0] == "en" else "undetermined"))
    ck.ob("ready-want", "ordering-loop#0|state-decision", bool(obs) and not bad and not fi.capped, "want_build hands `set` Ready exactly when every ordering input's want_file answered true, else Want (%d abstract paths to set; %s)" % (len(obs), bad or "all consistent"), span=b.loc, fn=b.nname)
    ck.extra.setdefault("flagint", {})["want_build"] = dict(states_explored=fi.visited, observations=len(obs))


def _want_file_answer(ck, ctx, wfb):
    """want_file answers Ok(true) exactly when the file has no producer or want_build returned Done"""
    from n2sa.flagint import FlagInt, RESULT
    F = ctx.F
    variants = F.variants(STATE)

    def hook(fi, bi, t, callee, args, vals, ghost):
        if callee == "work::BuildStates::want_build":
            r = [(("en", RESULT, "Err", None), dict(ghost, err=True))]
            for v in variants:
                r.append((("en", RESULT, "Ok", (("en", STATE, v, ()),)), dict(ghost, wb=v)))
            return r
        return None

    fi = FlagInt(F, wfb, hook).run()
    bad = []
    n = 0
    for g, rv in fi.rets:
        g = dict(g)
        if rv is not None and rv[0] == "en" and rv[2] == "Err":
            continue
        n += 1
        want = g.get("wb", "Done") == "Done"
        got = rv[3][0] if rv is not None and rv[0] == "en" and rv[2] == "Ok" and rv[3] else None
        if got != ("b", want):
            bad.append("producer %s -> %s" % (g.get("wb", "none"), got[1] if got and got[0] == "b" else "undetermined"))
    ck.ob("ready-want", "want_file|answer-table", n >= len(variants) + 1 and not bad and not fi.capped, "want_file returns Ok(true) exactly when the file has no producer or want_build(..)? returned Done (%d return paths; %s)" % (n, bad or "all consistent"), span=wfb.loc, fn=wfb.nname)
    ck.extra.setdefault("flagint", {})["want_file"] = dict(states_explored=fi.visited, returns=n)


def _copy_source(body, bb, l):
    """if local l is assigned `copy x` (bare local) in block bb, return x"""
    for s in reversed(body.blocks[bb]["stmts"]):
        if s["k"] == "assign" and not s["place"]["p"] and s["place"]["l"] == l:
            if s["rv"]["k"] == "use" and s["rv"]["op"]["k"] in ("copy", "move") and not s["rv"]["op"]["place"]["p"]:
                return s["rv"]["op"]["place"]["l"]
            return None
    return l


def _is_local(ctx, b, e, l):
    return True


def _state_reads(b):
    """call sites in (the view of) b that yield a BuildState or a reference to one: BuildStates::get, states[id], a helper's read"""
    r = []
    for bb, t in b.calls():
        ty = ((t["dest"].get("ty") or {}).get("s") or "").replace("&'_ ", "&").replace("&mut ", "&")
        if ty in (STATE, "&" + STATE) and t["args"] and len(t["args"]) >= 2:
            r.append((bb, t))
    return r


def ready_recheck(ck, ctx):
    from n2sa.flagint import FlagInt
    F = ctx.F
    b = ck.need("fn work::Work::recheck_ready", F.body("work::Work::recheck_ready"))
    R = ctx.res(b)
    cfg = ctx.cfg(b)
    ck.functions.add(b.nname)
    # state tests on the producer: any read of a BuildState (BuildStates::get, states[id], through a private helper inlined in the view)
    gets = _state_reads(b)
    ck.floor("state tests on the producer in recheck_ready", len(gets), 1)
    # iterates ordering_ins of its build parameter
    its = [c for bb, t in b.calls() for c in [callee_of(t)] if c.startswith("graph::Build::") and c.endswith("_ins")]
    ck.ob("ready-recheck", "iterates", its == ["graph::Build::ordering_ins"], "recheck_ready iterates %s (need exactly ordering_ins)" % its, span=b.loc, fn=b.nname)
    for bb, t in b.calls():
        if callee_of(t) == "graph::Build::ordering_ins":
            e = strip(R.arg(bb, 0))
            ck.ob("ready-recheck", "iterates-param", e[0] == "param", "ordering_ins is taken of the build parameter (%s)" % show(e), span=t["loc"], fn=b.nname)
            whole, bad_ad = C.iter_is_whole(R.discr(next(x for x, t_, sc, adt, vm in Q.enum_switches(ctx, b) if adt == "std::option::Option" and any(c[3] == bb for c in calls_in(strip(sc))))) if any(adt == "std::option::Option" and any(c[3] == bb for c in calls_in(strip(sc))) for x, t_, sc, adt, vm in Q.enum_switches(ctx, b)) else ("unk",))
            ck.ob("ready-recheck", "all-ordering-inputs", whole, "every ordering input is examined (no limiting iterator adapter: %s)" % bad_ad, span=t["loc"], fn=b.nname)
    # `true` only when the iterator is exhausted
    trues = []
    for bb, s in Q.ret_assignments(b):
        if "rv" in s and s["rv"]["k"] == "use" and s["rv"]["op"]["k"] == "const":
            if s["rv"]["op"]["int"] == 1:
                trues.append(bb)
        else:
            trues.append(bb)  # non-constant result: treat as possibly true
    none_edges = set()
    for x, t_, scrut, adt, vmap in Q.enum_switches(ctx, b):
        s_ = strip(scrut)
        if adt == "std::option::Option" and s_[0] == "call" and s_[1].endswith("Iterator>::next") and any(c[1] == "graph::Build::ordering_ins" for c in calls_in(s_)):
            none_edges.add((x, vmap.get("None")))
    # which state is read: that of the producer of the iterated file
    for i, (bb, t) in enumerate(gets):
        ide = strip(R.arg(bb, 1))
        base, names = field_chain(ide)
        okp = "input" in names and any(c[1] == "graph::Graph::file" for c in calls_in(ide))
        ck.ob("ready-recheck", "get#%d|producer" % i, okp, "state looked up is that of the input's producer: %s" % show(ide, 3), span=t["loc"], fn=b.nname)
        fe = [c for c in calls_in(ide) if c[1] == "graph::Graph::file"]
        okf = bool(fe) and any(cc[1] == "graph::Build::ordering_ins" for cc in calls_in(fe[0][2][1]))
        ck.ob("ready-recheck", "get#%d|iterated-file" % i, okf, "the file examined is the iterated ordering input", span=t["loc"], fn=b.nname)
    # the answer: path-sensitive propagation with the ghost bit "some producer read was not Done", whatever the spelling
    # (`!= Done => return false`, `matches!`, a bool helper, `ready &= ..`)
    variants = F.variants(STATE)
    get_bbs = {bb for bb, _ in gets}

    from n2sa.flagint import OPTION as _OPT

    def hook(fi, bi, t, callee, args, vals, ghost):
        if callee.endswith(("Iterator>::next", "range::next")) and any(c[1] == "graph::Build::ordering_ins" for c in calls_in(R.arg(bi, 0))):
            # the walk over the ordering inputs: `true` may only be answered once it is exhausted
            return [(("en", _OPT, "None", ()), dict(ghost, exhausted=True)), (("en", _OPT, "Some", None), ghost)]
        if bi in get_bbs:
            is_ref = ((t["dest"].get("ty") or {}).get("s") or "").startswith("&")
            out = []
            for v in variants:
                val = ("en", STATE, v, ())
                out.append((("cref", val) if is_ref else val, dict(ghost, non_done=True) if v != "Done" else ghost))
            return out
        return None

    fi = FlagInt(F, b, hook).run()
    bad = []
    for g, rv in fi.rets:
        nd = dict(g).get("non_done", False)
        if rv != ("b", not nd):
            bad.append("some producer not Done=%s -> %s" % (nd, rv[1] if rv and rv[0] == "b" else "undetermined"))
        if rv == ("b", True) and not dict(g).get("exhausted"):
            bad.append("true answered before every ordering input was examined")
    ck.ob("ready-recheck", "answer-table", len(fi.rets) >= 2 and not bad and not fi.capped, "recheck_ready answers true exactly when no examined producer state differs from Done (%d abstract returns; %s)" % (len(fi.rets), bad or "all consistent"), span=b.loc, fn=b.nname)
    ck.extra.setdefault("flagint", {})["recheck_ready"] = dict(states_explored=fi.visited, returns=len(fi.rets))
    # the loop body cannot skip a generated input: from the Some(input) arm the state read is unavoidable
    found = False
    for x, t_, scrut, adt, vmap in Q.enum_switches(ctx, b):
        base, names = field_chain(strip(scrut))
        if adt == "std::option::Option" and names[-1:] == ["input"]:
            found = True
            some_t = cfg.edge_targets(x, vmap.get("Some"))
            hdr = cfg.enclosing_loop_header(x)
            r = cfg.reach_avoid(some_t, avoid_blocks=[g for g, _ in gets])
            ck.ob("ready-recheck", "generated-input-checked", hdr not in r and not any(tb in r for tb in trues), "for an input with a producer the state lookup cannot be bypassed", span=t_.get("loc"), fn=b.nname)
    ck.ob("ready-recheck", "producer-test-present", found, "recheck_ready branches on file.input", span=b.loc, fn=b.nname)


def success_only(ck, ctx, rule="success-only"):
    """ARM: on the completion switch of Work::run only the Success arm records / completes"""
    F = ctx.F
    b = ck.need("fn work::Work::run", F.body("work::Work::run"))
    cfg = ctx.cfg(b)
    ck.functions.add(b.nname)
    sw = [z for z in Q.enum_switches(ctx, b) if z[3] == "process::Termination"]
    ck.floor("switches on Termination in Work::run", len(sw), 1)
    res = {}
    for x, t, scrut, adt, vmap in sw:
        s_ = strip(scrut)
        base, names = field_chain(s_)
        from_wait = names[-2:] == ["result", "termination"] and any(c[1] == "task::Runner::wait" for c in calls_in(s_))
        ck.ob(rule, "switch@wait-result", from_wait, "the completion switch examines Runner::wait().result.termination (%s)" % show(s_, 3), span=t.get("loc"), fn=b.nname)
        hdr = cfg.enclosing_loop_header(x)
        for v in F.variants("process::Termination"):
            lab = vmap.get(v)
            starts = cfg.edge_targets(x, lab)
            r = cfg.reach_avoid(starts, avoid_blocks=[hdr] if hdr is not None else [])
            callees = set()
            for bi in r:
                tt = b.blocks[bi]["term"]
                if tt and tt["k"] == "call":
                    callees.add(callee_of(tt))
            res[v] = callees
            shared = lab == "otherwise" or sum(1 for vv in vmap.values() if vv == lab) > 1
            if v in ("Failure", "Interrupted"):
                bad = callees & {"work::Work::ready_dependents", "work::Work::record_finished", "db::Writer::write_build"}
                ck.ob(rule, "%s-arm" % v, not bad and not shared, "on %s neither record_finished nor ready_dependents is reachable before the next iteration/return (reachable: %s)%s" % (v, sorted(bad), "; arm shared with another variant" if shared else ""), span=t.get("loc"), fn=b.nname)
            else:
                need = {"work::Work::ready_dependents", "work::Work::record_finished"}
                ck.ob(rule, "Success-arm", need <= callees and not shared, "on Success both record_finished and ready_dependents are called", span=t.get("loc"), fn=b.nname)
    return res


def dependents(ck, ctx):
    F = ctx.F
    C.single_writer(ck, ctx, "dependents", "graph::File", "dependents", ["graph::Graph::add_build"])
    b = ck.need("fn graph::Graph::add_build", F.body("graph::Graph::add_build"))
    R = ctx.res(b)
    cfg = ctx.cfg(b)
    pushes = []
    for bb, t in b.calls():
        if callee_of(t).endswith("Vec::push"):
            base, names = field_chain(strip(R.arg(bb, 0)))
            if names[-1:] == ["dependents"]:
                pushes.append((bb, t))
    ck.floor("push onto File.dependents in add_build", len(pushes), 1)
    for i, (bb, t) in enumerate(pushes):
        recv = strip(R.arg(bb, 0))
        val = strip(R.arg(bb, 1))
        # iterated collection: build.ins.ids of the build parameter, whole
        it_ok = False
        for c in calls_in(recv):
            if c[1].endswith("IndexMut<K>>::index_mut") or c[1].endswith("Index<K>>::index"):
                ide = c[2][1]
                for cc in calls_in(ide):
                    if cc[1].endswith("into_iter") or cc[1].endswith("::iter"):
                        base, names = field_chain(strip(cc[2][0]))
                        if names[-2:] == ["ins", "ids"] and strip(base)[0] == "param":
                            it_ok = True
        ck.ob("dependents", "push#%d|all-inputs" % i, it_ok, "dependents.push happens for every id of build.ins.ids (all input roles): %s" % show(recv, 4), span=t["loc"], fn=b.nname)
        ok_val = val[0] == "call" and val[1].endswith("DenseMap::next_id") and field_chain(strip(val[2][0]))[1][-1:] == ["builds"]
        ck.ob("dependents", "push#%d|new-id" % i, ok_val, "the pushed dependent is builds.next_id() = the id the build is about to get (%s)" % show(val, 2), span=t["loc"], fn=b.nname)
        hdr = cfg.enclosing_loop_header(bb)
        # unconditional inside its loop: the push block post-dominates the loop's Some arm
        uncond = False
        for x, t_, scrut, adt, vmap in Q.enum_switches(ctx, b):
            if adt == "std::option::Option" and cfg.enclosing_loop_header(x) == hdr and x != bb:
                some_t = cfg.edge_targets(x, vmap.get("Some"))
                r = cfg.reach_avoid(some_t, avoid_blocks=[bb])
                if hdr is not None and hdr not in r and not (set(cfg.returns()) & r):
                    uncond = True
        ck.ob("dependents", "push#%d|unconditional" % i, uncond, "no iteration of the loop over inputs skips the push", span=t["loc"], fn=b.nname)
    # the build is stored under that id: builds.push(build) is the only push and follows
    bp = [(bb, t) for bb, t in b.calls() if callee_of(t).endswith("DenseMap::push")]
    ck.ob("dependents", "build-pushed-once", len(bp) == 1, "add_build stores the build with exactly one builds.push (%d)" % len(bp), span=b.loc, fn=b.nname)
    # ready_dependents walks outs() x dependents
    rb = ck.need("fn work::Work::ready_dependents", F.body("work::Work::ready_dependents"))
    RR = ctx.res(rb)
    srcs = set()
    for bb, t in rb.calls():
        if callee_of(t).endswith("Set::insert"):
            e = RR.arg(bb, 1)
            for c in calls_in(e):
                srcs.add(c[1])
            base_names = [n for x in walk(e) if x[0] == "field" for n in [x[2]]]
            ok = "graph::Build::outs" in srcs and "dependents" in base_names and "graph::Graph::file" in srcs
            ck.ob("dependents", "ready_dependents|walks-outs-dependents", ok, "candidates for promotion are file(out).dependents for out in build.outs() (sources %s)" % sorted(s for s in srcs if s.startswith(("graph", "work"))), span=t["loc"], fn=rb.nname)


def run(ck, ctx):
    from . import C14 as R14
    R14.producer_never_cleared(ck, ctx, "dependents")
    # a consumer waits for the producer of each input only if File.input was registered for every output, implicit ones included
    R14.add_build(ck, ctx)
    C.adapter_census(ck, ctx, "queues", ("work::", "graph::"))
    C.loops_complete(ck, ctx, "ready-recheck", [("work::Work::ready_dependents", "work::Work::recheck_ready", "the dependents of a finished step"), ("work::Work::ready_dependents", "std::collections::HashSet::insert", "the outputs' dependents")])
    SM.eff_table(ck, ctx, ["replace", "ready-push", "pending+", "pending-"])
    ck.extra["exhaustive_subrule"] = "table: all 98 abstract inputs of BuildStates::set enumerated"
    sites(ck, ctx)
    start(ck, ctx)
    queues(ck, ctx)
    ready_want(ck, ctx)
    ready_recheck(ck, ctx)
    ACC.accessors(ck, ctx)
    success_only(ck, ctx)
    dependents(ck, ctx)


def run_config(ck, ctx):
    run(ck, ctx)
