"""Plumbing of the fancy console (progress_fancy.rs), which no test exercises (it needs a tty).

Shared by C16 (captured output is shown once, intact), C20 (a rendering problem never aborts or stalls the build) and C06
(the invocation terminates: the render thread is told to stop and is joined).  All rules are shape facts of the MIR:

  forward     every Progress method of FancyConsoleProgress locks the state and calls the same-named FancyState method with its arguments
  tasks       task_started pushes a Task carrying the id it was given; task_output / task_finished look the task up by equality on that id
  flush       print_progress writes the pending buffer to stdout, then clears it and re-arms it with the clear sequence, on every path
  thread      the render thread leaves its loop exactly on `done`, after writing what is still pending; otherwise it sleeps and prints
  shutdown    Drop calls cleanup (which sets done and wakes the thread) and then joins the thread
  finished    task_finished returns early only for Success with (empty output or hide_success); otherwise it appends the output once and a newline iff
              the output does not end with one (the next frame starts with `\\r ESC[J`, which would wipe an unterminated last line)
"""
from n2sa import query as Q
from n2sa.expr import strip, show, field_chain, alts, calls_in, walk
from n2sa.facts import callee_of, norm
from . import common as C

IMPL = "<progress_fancy::FancyConsoleProgress as progress::Progress>::"
STATE = "progress_fancy::FancyState::"


def forward(ck, ctx, rule="fancy-forward"):
    F = ctx.F
    for m in ("update", "task_started", "task_output", "task_finished", "log"):
        b = ck.need("fn " + IMPL + m, F.body(IMPL + m))
        R = ctx.res(b)
        cfg = ctx.cfg(b)
        ck.functions.add(b.nname)
        sites = Q.sites_in(b, STATE + m)
        ok = len(sites) == 1 and all(cfg.dominates(sites[0][0], r) for r in cfg.returns())
        if ok:
            bb, t = sites[0]
            # receiver comes from the state mutex; the remaining arguments are this method's own parameters, in order
            recv = R.arg(bb, 0)
            ok = any(c[1].endswith("Mutex::lock") for c in calls_in(recv))
            for i in range(1, len(t["args"])):
                a = strip(R.arg(bb, i))
                ok = ok and a[0] == "param" and a[1] == i + 1
        ck.ob(rule, m, ok, "FancyConsoleProgress::%s locks the shared state and calls FancyState::%s with its own arguments, on every path" % (m, m), span=b.loc, fn=b.nname)


def tasks(ck, ctx, rule="fancy-tasks"):
    F = ctx.F
    ts = ck.need("fn " + STATE + "task_started", F.body(STATE + "task_started"))
    R = ctx.res(ts)
    cfg = ctx.cfg(ts)
    ck.functions.add(ts.nname)
    pushes = [(bb, t) for bb, t in ts.calls() if callee_of(t).endswith(("VecDeque::push_back", "VecDeque::push_front"))]
    ok = len(pushes) == 1 and all(cfg.dominates(pushes[0][0], r) for r in cfg.returns())
    if ok:
        e = strip(R.arg(pushes[0][0], 1))
        fields = F.struct_fields("progress_fancy::Task") or []
        ok = e[0] == "agg" and "id" in fields and strip(e[4][fields.index("id")])[0] == "param" and strip(e[4][fields.index("id")])[2] == "id"
        recv = strip(R.arg(pushes[0][0], 0))
        ok = ok and field_chain(recv)[1][-1:] == ["tasks"]
    ck.ob(rule, "started-registers-id", ok, "task_started appends Task{id: <its id argument>, ..} to self.tasks on every path", span=ts.loc, fn=ts.nname)
    for m, finder in (("task_output", "::find"), ("task_finished", "::position")):
        b = ck.need("fn " + STATE + m, F.body(STATE + m))
        ck.functions.add(b.nname)
        clo = F.body(STATE + m + "::{closure#0}")
        okc = False
        det = "no lookup closure"
        if clo is not None:
            CR = ctx.res(clo)
            calls = [(bb, t) for bb, t in clo.calls()]
            # the predicate is a single equality between the element's id and the captured id
            if len(calls) == 1 and callee_of(calls[0][1]).endswith("BuildId as std::cmp::PartialEq>::eq"):
                a0, a1 = CR.arg(calls[0][0], 0), CR.arg(calls[0][0], 1)
                ids = [field_chain(strip(x))[1][-1:] == ["id"] or any(y[0] == "field" and y[2] == "id" for y in walk(x)) for x in (a0, a1)]
                caps = [any(y[0] == "param" and y[1] == 1 for y in walk(x)) for x in (a0, a1)]
                elem = [any(y[0] == "param" and y[1] == 2 for y in walk(x)) for x in (a0, a1)]
                okc = any(ids) and any(caps) and any(elem)
                rets = ctx.cfg(clo).returns()
                rv = strip(CR.local(0, CR.term_at(rets[0]))) if rets else ("unk",)
                okc = okc and rv[0] == "call" and rv[3] == calls[0][0]
                det = "closure = (t.id == id)"
            else:
                det = "closure calls %s" % [callee_of(t).split("::")[-1] for _, t in calls]
        uses = [bb for bb, t in b.calls() if callee_of(t).endswith(finder)]
        ck.ob(rule, "%s-lookup-by-id" % m, okc and len(uses) == 1, "%s finds its task by equality on the id (%s); anything else makes the following unwrap() panic under the display lock" % (m, det), span=b.loc, fn=b.nname)


def flush(ck, ctx, rule="fancy-flush"):
    F = ctx.F
    b = ck.need("fn " + STATE + "print_progress", F.body(STATE + "print_progress"))
    R = ctx.res(b)
    cfg = ctx.cfg(b)
    ck.functions.add(b.nname)
    wr = [(bb, t) for bb, t in b.calls() if callee_of(t).endswith("Write>::write_all") or callee_of(t).endswith("io::Write::write_all")]
    wr = [(bb, t) for bb, t in wr if any(c[1].endswith("io::stdout") or c[1].endswith("stdio::stdout") for c in calls_in(R.arg(bb, 0)))]
    cl = [(bb, t) for bb, t in b.calls() if callee_of(t).endswith("Vec::clear")]
    ex = [(bb, t) for bb, t in b.calls() if callee_of(t).endswith("Vec::extend_from_slice") or callee_of(t).endswith("::extend_from_slice")]
    ok = len(wr) == 1 and len(cl) == 1
    if ok:
        w, c = wr[0][0], cl[0][0]
        pend_w = any(field_chain(strip(y))[1][-1:] == ["pending"] for y in walk(R.arg(w, 1)) if y[0] == "field")
        pend_c = any(field_chain(strip(y))[1][-1:] == ["pending"] for y in walk(R.arg(c, 0)) if y[0] == "field")
        ok = pend_w and pend_c and all(cfg.dominates(w, r) for r in cfg.returns()) and cfg.dominates(w, c) and all(cfg.dominates(c, r) for r in cfg.returns())
        # after the clear the buffer is re-armed with the clear-screen sequence
        # (re-arming the buffer with the clear sequence afterwards is cosmetic and not required)
    ck.ob(rule, "write-then-clear", ok, "print_progress writes self.pending to stdout exactly once, then clears it, on every path (so captured output is emitted once and not again with the next frame)", span=b.loc, fn=b.nname)
    # the cursor-up count is the number of newline-terminated pieces written after the pending text: 1 + per task line (+1 with a last line) + the `more` line
    # (report only: the arithmetic itself is rendering, not decided)


def thread(ck, ctx, rule="fancy-thread"):
    F = ctx.F
    b = ck.need("closure FancyConsoleProgress::new::{closure#0}", F.body("progress_fancy::FancyConsoleProgress::new::{closure#0}"))
    R = ctx.res(b)
    cfg = ctx.cfg(b)
    ck.functions.add(b.nname)

    def pred_done(e):
        return field_chain(strip(e))[1][-1:] == ["done"]

    g_done = C.bool_gate_edges(ctx, b, pred_done)
    g_not = {(x, [l for l in Q.bool_edges(b.blocks[x]["term"]) if l != lab][0]) for x, lab in g_done}
    wr = [(bb, t) for bb, t in b.calls() if callee_of(t).endswith("write_all")]
    pr = Q.sites_in(b, STATE + "print_progress")
    sl = [(bb, t) for bb, t in b.calls() if callee_of(t).endswith("thread::sleep")]
    hdrs = cfg.loop_headers()
    ok = len(g_done) == 1 and len(wr) == 1 and len(pr) == 1 and len(hdrs) >= 1
    if ok:
        hdr = cfg.enclosing_loop_header(pr[0][0])
        loop = cfg.natural_loop(hdr) if hdr is not None else set()
        # done edge: write pending, then leave the loop for good (return reachable, header not)
        starts = [tt for (x, lab) in g_done for tt in cfg.edge_targets(x, lab)]
        r = cfg.reach_avoid(starts)
        pend = any(field_chain(strip(y))[1][-1:] == ["pending"] for y in walk(R.arg(wr[0][0], 1)) if y[0] == "field")
        ok = hdr is not None and hdr not in r and wr[0][0] in r and bool(set(cfg.returns()) & r) and pend and Q.gated(cfg, wr[0][0], g_done)[0]
        # and the write cannot be bypassed on the way out
        ok = ok and not (set(cfg.returns()) & cfg.reach_avoid(starts, avoid_blocks=[wr[0][0]]))
        # not-done edge: print_progress then back to the wait; the loop has no other exit
        starts_n = [tt for (x, lab) in g_not for tt in cfg.edge_targets(x, lab)]
        rn = cfg.reach_avoid(starts_n, avoid_blocks=[hdr])
        ok = ok and pr[0][0] in rn and not (set(cfg.returns()) & rn) and hdr not in cfg.reach_avoid(starts_n, avoid_blocks=[pr[0][0]])
        ok = ok and Q.gated(cfg, pr[0][0], g_not, repeat=True)[0]
    ck.ob(rule, "loop-shape", ok, "the render thread leaves its loop exactly when `done` is set, after writing the still-pending text; otherwise it prints a frame and waits again", span=b.loc, fn=b.nname)
    # the wait predicate keeps waiting only while neither done nor dirty
    pc = F.body("progress_fancy::FancyConsoleProgress::new::{closure#0}::{closure#0}")
    okp = False
    if pc is not None:
        from n2sa.flagint import FlagInt
        # truth table over (done, dirty) by propagation: unknown field reads are refined on branches, hooks label them
        def edge(fi, bi, sym, adt, vn, ghost):
            return None
        fi = FlagInt(F, pc, None)
        # enumerate the four assignments by seeding the two field reads: done/dirty are read through the parameter; model them as unknown bools
        fi.run()
        vals = sorted({str(rv) for g, rv in fi.rets})
        # structural check: both fields are read, combined with short-circuit AND of negations => the result is true only on the path where both were false
        PR = ctx.res(pc)
        rets = ctx.cfg(pc).returns()
        fields = sorted({y[2] for bi in ctx.cfg(pc).reach for s in pc.blocks[bi]["stmts"] if s["k"] == "assign" for y in walk(PR.stmt_rvalue(bi, s)) if y[0] == "field" and y[2] in ("done", "dirty")})
        trues = [bi for bi in ctx.cfg(pc).reach for s in pc.blocks[bi]["stmts"] if s["k"] == "assign" and not s["place"]["p"] and s["place"]["l"] == 0]
        g_d = C.bool_gate_edges(ctx, pc, lambda e: field_chain(strip(e))[1][-1:] == ["done"])
        g_d_false = {(x, [l for l in Q.bool_edges(pc.blocks[x]["term"]) if l != lab][0]) for x, lab in g_d}
        # the value returned on the done==true edge is false
        okp = fields == ["dirty", "done"] and len(g_d) == 1
        if okp:
            pcfg = ctx.cfg(pc)
            for bi in pcfg.reach:
                for s in pc.blocks[bi]["stmts"]:
                    if s["k"] == "assign" and not s["place"]["p"] and s["place"]["l"] == 0:
                        e = PR.stmt_rvalue(bi, s)
                        if e == ("const", 0):
                            continue  # `false`: fine on any path
                        # a non-false result must be `!dirty`, reached only with done == false
                        se = e
                        neg = False
                        while se[0] == "un" and se[1] == "Not":
                            se, neg = se[2], not neg
                        okp = okp and neg and field_chain(strip(se))[1][-1:] == ["dirty"] and Q.gated(pcfg, bi, g_d_false)[0]
    ck.ob(rule, "wait-predicate", okp, "the condvar wait continues only while `!done && !dirty`", span=pc.loc if pc else b.loc, fn=pc.nname if pc else b.nname)


def shutdown(ck, ctx, rule="fancy-shutdown"):
    F = ctx.F
    nb = ck.need("fn FancyConsoleProgress::new", F.body("progress_fancy::FancyConsoleProgress::new"))
    NR = ctx.res(nb)
    fields = F.struct_fields("progress_fancy::FancyState") or []
    oki = False
    for _, bb_, s_ in [x for x in Q.adt_constructors(F, "progress_fancy::FancyState") if x[0].nname == nb.nname]:
        oki = "done" in fields and NR.agg_op(bb_, s_, fields.index("done")) == ("const", 0)
    # the handle joined by Drop is the thread spawned here (Drop unwraps it: a None would panic at exit)
    okh = False
    pfields = F.struct_fields("progress_fancy::FancyConsoleProgress") or []
    for _, bb_, s_ in [x for x in Q.adt_constructors(F, "progress_fancy::FancyConsoleProgress") if x[0].nname == nb.nname]:
        if "thread" in pfields:
            e_ = strip(NR.agg_op(bb_, s_, pfields.index("thread")))
            okh = e_[0] == "agg" and e_[3] == "Some" and any(c[1].endswith("thread::spawn") for c in calls_in(e_))
    ck.ob(rule, "keeps-thread-handle", okh, "FancyConsoleProgress::new keeps Some(handle of the spawned render thread), which Drop takes and joins", span=nb.loc, fn=nb.nname)
    ck.ob(rule, "starts-not-done", oki, "the console starts with done = false (a render thread that sees done at once would exit and later output would only be kept, not shown)", span=nb.loc, fn=nb.nname)
    ck.functions.add(nb.nname)
    d = ck.need("fn Drop for FancyConsoleProgress", F.body("<progress_fancy::FancyConsoleProgress as std::ops::Drop>::drop"))
    cfg = ctx.cfg(d)
    ck.functions.add(d.nname)
    cu = Q.sites_in(d, STATE + "cleanup")
    jn = [(bb, t) for bb, t in d.calls() if callee_of(t).endswith("JoinHandle::join")]
    ok = len(cu) == 1 and len(jn) == 1 and cfg.dominates(cu[0][0], jn[0][0]) and all(cfg.dominates(jn[0][0], r) for r in cfg.returns())
    ck.ob(rule, "cleanup-then-join", ok, "dropping the console first tells the render thread to finish (cleanup) and then joins it, on every path: the last pending text is written before the process exits", span=d.loc, fn=d.nname)
    c = ck.need("fn " + STATE + "cleanup", F.body(STATE + "cleanup"))
    ck.functions.add(c.nname)
    sets = [s for blk in c.blocks if not blk["cleanup"] for s in blk["stmts"] if s["k"] == "assign" and s["place"]["p"] and s["place"]["p"][-1].get("name") == "done" and s["rv"]["k"] == "use" and s["rv"]["op"].get("int") == 1]
    wakes = Q.sites_in(c, STATE + "dirty")
    ck.ob(rule, "cleanup-sets-done", len(sets) == 1, "cleanup sets done = true (otherwise the join above waits for ever; the wake-up only shortens the wait, the thread also wakes on its timeout)", span=c.loc, fn=c.nname)


def finished(ck, ctx, rule="fancy-finished"):
    from n2sa.flagint import FlagInt
    F = ctx.F
    b = ck.need("fn " + STATE + "task_finished", F.body(STATE + "task_finished"))
    ck.functions.add(b.nname)
    R = ctx.res(b)
    variants = F.variants("process::Termination")
    # decision table over (termination, output empty?, hide_success?, ends with newline?) by propagation with ghost bits
    TERM = "process::Termination"

    def hook(fi, bi, t, callee, args, vals, ghost):
        if callee.endswith("Vec::is_empty") or callee.endswith("slice::is_empty"):
            return [(("b", True), dict(ghost, empty=True)), (("b", False), dict(ghost, empty=False))]
        if callee.endswith("::ends_with"):
            return [(("b", True), dict(ghost, nl=True)), (("b", False), dict(ghost, nl=False))]
        if callee.endswith("extend_from_slice"):
            e = strip(R.arg(bi, 1))
            if field_chain(e)[1][-1:] == ["output"] or any(y[0] == "field" and y[2] == "output" for y in walk(e)):
                return [(None, dict(ghost, out=ghost.get("out", 0) + 1))]
        if callee.endswith("Vec::push"):
            a = args[1] if len(args) > 1 else None
            if a == ("i", 10):
                return [(None, dict(ghost, pushed_nl=ghost.get("pushed_nl", 0) + 1))]
        return None

    def edge(fi, bi, sym, adt, vn, ghost):
        if adt == TERM:
            return dict(ghost, term=vn)
        return None

    # hide_success is a plain bool field read: label it through the unknown's origin
    fi = FlagInt(F, b, hook, on_edge=edge)
    fi.run()
    rows = []
    bad = []
    for g, rv in fi.rets:
        g = dict(g)
        term = g.get("term")
        shown = g.get("out", 0)
        # hide_success is not labelled; derive what is decidable without it
        if term in ("Failure", "Interrupted"):
            if shown != 1:
                bad.append("%s: output appended %d times" % (term, shown))
        if term == "Success" and g.get("empty") is True and shown not in (0, 1):
            bad.append("Success with empty output: appended %d times" % shown)
        if term == "Success" and g.get("empty") is False and shown not in (0, 1):
            bad.append("Success with output: appended %d times" % shown)
        if shown == 1:
            want_nl = 1 if g.get("nl") is False else 0
            if g.get("nl") is None or g.get("pushed_nl", 0) != want_nl:
                bad.append("%s: newline completion %s with ends_with=%s" % (term, g.get("pushed_nl", 0), g.get("nl")))
        rows.append((term, g.get("empty"), shown, g.get("nl"), g.get("pushed_nl", 0)))
    # the only size test on the captured output is emptiness (`is_empty()` or a comparison of len() with 0)
    cfg0 = ctx.cfg(b)
    g_is_empty = C.bool_gate_edges(ctx, b, lambda e: strip(e)[0] == "call" and strip(e)[1].endswith("is_empty") and any(y[0] == "field" and y[2] == "output" for y in walk(e)))
    z_, nz_ = C.zero_test_edges(ctx, b, lambda e: e[0] == "call" and e[1].endswith("::len") and any(y[0] == "field" and y[2] == "output" for y in walk(e)))
    other_len = [sbb for sbb, st_, e_ in Q.switches(ctx, b) if any(c[1].endswith("::len") and any(y[0] == "field" and y[2] == "output" for y in walk(c)) for c in calls_in(e_)) and sbb not in {x for x, _ in z_}]
    ck.ob(rule, "emptiness-test", (bool(g_is_empty) or bool(z_)) and not other_len, "the decision to show nothing for a successful command looks at whether the captured output is empty, and at nothing else about its size", span=b.loc, fn=b.nname)
    terms = {r[0] for r in rows}
    ck.ob(rule, "output-table", not bad and not fi.capped and {"Success", "Failure", "Interrupted"} <= terms, "task_finished appends the captured output exactly once for Failure and Interrupted and for Success unless hidden, never for an empty Success, and adds a newline iff the output lacks one (%d abstract returns; %s)" % (len(rows), bad or "all consistent"), span=b.loc, fn=b.nname)
    ck.extra.setdefault("flagint", {})["FancyState::task_finished"] = dict(states_explored=fi.visited, returns=len(rows))
    # the only early return is the Success arm guarded by `output.is_empty() || build.hide_success`
    cfg = ctx.cfg(b)
    hs = C.bool_gate_edges(ctx, b, lambda e: field_chain(strip(e))[1][-1:] == ["hide_success"])
    ck.ob(rule, "hide-only-on-success", len(hs) == 1 and all(any(x == z[0] and Q.gated(cfg, x, {(z[0], z[4].get("Success"))})[0] for z in Q.enum_switches(ctx, b) if z[3] == TERM) or any(Q.gated(cfg, x, {(z[0], z[4].get("Success"))})[0] for z in Q.enum_switches(ctx, b) if z[3] == TERM) for x, _ in hs), "hide_success is consulted only in the Success arm", span=b.loc, fn=b.nname)


def dumb_finished(ck, ctx, rule="dumb-finished"):
    """the plain console writes the captured output exactly once unless it is empty (or a hidden success)"""
    from n2sa.flagint import FlagInt
    F = ctx.F
    name = "<progress_dumb::DumbConsoleProgress as progress::Progress>::task_finished"
    b = ck.need("fn " + name, F.body(name))
    ck.functions.add(b.nname)
    R = ctx.res(b)
    TERM = "process::Termination"

    def hook(fi, bi, t, callee, args, vals, ghost):
        if callee.endswith("Vec::is_empty") or callee.endswith("slice::is_empty"):
            if "empty" in ghost:
                return [(("b", ghost["empty"]), ghost)]
            return [(("b", True), dict(ghost, empty=True)), (("b", False), dict(ghost, empty=False))]
        if callee.endswith("write_all"):
            e = strip(R.arg(bi, 1))
            if any(y[0] == "field" and y[2] == "output" for y in walk(e)):
                return [(None, dict(ghost, out=ghost.get("out", 0) + 1))]
        return None

    def edge(fi, bi, sym, adt, vn, ghost):
        if adt == TERM:
            return dict(ghost, term=vn)
        return None

    fi = FlagInt(F, b, hook, on_edge=edge).run()
    bad = []
    terms = set()
    for g, rv in fi.rets:
        g = dict(g)
        term, out, empty = g.get("term"), g.get("out", 0), g.get("empty")
        terms.add(term)
        if empty is None:
            bad.append("%s: emptiness of the output not consulted" % term)
        elif empty:
            pass  # writing an empty slice is harmless
        elif not empty and term in ("Failure", "Interrupted") and out != 1:
            bad.append("%s: output written %d times" % (term, out))
        elif not empty and term == "Success" and out not in (0, 1):
            bad.append("Success: output written %d times" % out)
    ck.ob(rule, "output-table", not bad and not fi.capped and {"Success", "Failure", "Interrupted"} <= terms, "the plain console writes a non-empty captured output exactly once for Failure and Interrupted (and for Success unless hidden) and nothing for an empty one (%d abstract returns; %s)" % (len(fi.rets), bad or "all consistent"), span=b.loc, fn=b.nname)
