"""C06 — every invocation terminates with a decision for every wanted step (structural clauses)."""
from n2sa import query as Q
from n2sa.expr import strip, show, field_chain, alts, calls_in, walk
from n2sa.facts import callee_of, norm
from . import common as C
from . import statemachine as SM
from . import runloop as RL
from . import C01 as R01
from . import accessors as ACC

EXPLANATION = (
    "Static conformance of the structural preconditions of termination and cycle handling on rustc MIR of the current tree: (cycle-first) in want_file the "
    "scan of the visit stack for the file dominates both stack.push and the recursive want_build, and its hit edge returns Err built from the "
    "`dependency cycle: ` literal without visiting anything; (stack-paired) on every non-error path the push is followed by exactly one pop; (validation) "
    "want_build visits validation inputs only after set() fixed the step's state, with a fresh Vec::new() stack created inside the loop, and the answer is "
    "discarded (never feeds the readiness flag or the state); (pending-paired) total_pending is +1 exactly out of Unknown and -1 exactly into Done/Failed "
    "(exhaustive 98-input table) and Done/Failed have no outgoing transition; (loop-shape) Work::run's loop test is total_pending > 0, Runner::wait is "
    "called only under is_running() == true (so it cannot block with nothing running), is_running is running > 0, the `BUG:` panic and the break are "
    "reachable only when no progress was made and nothing runs, the break only under tasks_failed > 0; settling a ready build sets made_progress (after Runner::start a command runs, so the wait is harmless); the pool slot taken at Running is given back on every transition out of Running (a slot leaked on failure would leave the rest of its pool undecided); "
    "(worker-always-reports) the spawned task closure sends exactly one Done message on every path. Decides these clauses; termination for all "
    "schedules and absence of the `BUG:` panic are liveness properties that are NOT decided."
)
ASSUMPTIONS = [
    "termination itself (liveness) and absence of the internal `BUG:` panic for all schedules are not decided by any rule here",
    "std::sync::mpsc delivers every sent message; a spawned command terminates or is interrupted",
]
THOROUGH_CONFIGS = ["nodefault"]
WF = "work::BuildStates::want_file"
WB = "work::BuildStates::want_build"


def cycle_first(ck, ctx):
    F = ctx.F
    b = ck.need("fn " + WF, F.body(WF))
    cfg = ctx.cfg(b)
    R = ctx.res(b)
    ck.functions.add(b.nname)
    # the scan: a switch on Option from Iterator::position over the stack parameter comparing with the id parameter
    scans = []
    for x, t, scrut, adt, vmap in Q.enum_switches(ctx, b):
        s = strip(scrut)
        if adt == "std::option::Option" and s[0] == "call" and (s[1].endswith("Iterator>::position") or s[1].endswith("::contains") or s[1].endswith("Iterator>::any")):
            if any(y[0] == "param" and y[2] == "stack" for y in walk(s)):
                scans.append((x, t, s, vmap))
    # bool form (`stack.contains(&id)`)
    ck.floor("stack scan in want_file", len(scans), 1)
    pushes = [(bb, t) for bb, t in b.calls() if callee_of(t).endswith("Vec::push") and any(y[0] == "param" and y[2] == "stack" for y in walk(R.arg(bb, 0)))]
    pops = [(bb, t) for bb, t in b.calls() if callee_of(t).endswith("Vec::pop") and any(y[0] == "param" and y[2] == "stack" for y in walk(R.arg(bb, 0)))]
    recs = Q.sites_in(b, WB)
    ck.floor("stack.push in want_file", len(pushes), 1)
    ck.floor("recursive want_build in want_file", len(recs), 1)
    for x, t, s, vmap in scans:
        # closure compares with the id parameter
        clo = [y for y in walk(s) if y[0] == "agg" and y[1] == "closure"]
        cmp_id = False
        for c in clo:
            cb = F.body(c[2])
            if cb is not None:
                for cbb, ct in cb.calls():
                    if callee_of(ct).endswith("PartialEq>::eq") and "FileId" in callee_of(ct):
                        cmp_id = True
            cmp_id = cmp_id and any(y[0] == "param" and y[2] == "id" for y in walk(c))
        ck.ob("cycle-first", "scan-compares-id", cmp_id, "the stack scan compares each entry with the visited file id", span=t.get("loc"), fn=b.nname)
        miss = vmap.get("None")
        hit = vmap.get("Some")
        for k, (bb, tt) in enumerate(pushes + recs):
            ok, _ = Q.gated(cfg, bb, {(x, miss)})
            ck.ob("cycle-first", "scan-dominates#%d" % k, ok, "%s is reached only through the scan's miss edge" % callee_of(tt).split("::")[-1], span=tt["loc"], fn=b.nname)
        # hit edge: returns Err, no push / recursion
        r = cfg.reach_avoid(cfg.edge_targets(x, hit))
        bad = [callee_of(b.blocks[y]["term"]) for y in r if b.blocks[y]["term"] and b.blocks[y]["term"]["k"] == "call" and callee_of(b.blocks[y]["term"]) in (WB, WF, "work::BuildStates::set")]
        errs = [y for y in r for s_ in b.blocks[y]["stmts"] if s_["k"] == "assign" and s_["place"]["l"] == 0 and s_["rv"]["k"] == "agg" and s_["rv"]["variant"] == "Err"]
        oks = [y for y in r for s_ in b.blocks[y]["stmts"] if s_["k"] == "assign" and s_["place"]["l"] == 0 and s_["rv"]["k"] == "agg" and s_["rv"]["variant"] == "Ok"]
        strs = Q.body_strings(F, b)
        ck.ob("cycle-first", "hit-returns-err", bool(errs) and not oks and not bad and any("dependency cycle: " in s_ for s_ in strs), "a hit returns Err(\"dependency cycle: ...\") without visiting or marking anything", span=t.get("loc"), fn=b.nname)
    # the pushed value is the visited id
    for k, (bb, t) in enumerate(pushes):
        e = strip(R.arg(bb, 1))
        ck.ob("cycle-first", "push-id#%d" % k, e[0] == "param" and e[2] == "id", "stack.push(%s) pushes the visited file" % show(e), span=t["loc"], fn=b.nname)
    # stack-paired: from push, every path to an Ok return passes exactly one pop; Err paths (`?`) may skip it
    tries = C.try_err_edges(ctx, b)
    brk_edges = {(tb, brk) for tb, (cont, brk, ope) in tries.items()}
    for k, (bb, t) in enumerate(pushes):
        nxt = [y for y, _ in cfg.succ[bb]]
        r = cfg.reach_avoid(nxt, avoid_blocks=[p for p, _ in pops], avoid_edges=brk_edges)
        rets = set(cfg.returns())
        ok1 = not (r & rets)
        # no second pop reachable after the first
        ok2 = True
        for p, _ in pops:
            r2 = cfg.reach_avoid([y for y, _ in cfg.succ[p]])
            if any(q in r2 for q, _ in pops):
                ok2 = False
        # pops only after a push
        ok3 = all(cfg.dominates(bb, p) for p, _ in pops)
        ck.ob("stack-paired", "push#%d" % k, ok1 and ok2 and ok3 and len(pops) >= 1, "every non-error path from stack.push to return passes exactly one stack.pop (pops %s)" % [p for p, _ in pops], span=t["loc"], fn=b.nname)
    # want_build passes the same stack down
    for k, (bb, t) in enumerate(recs):
        e = strip(R.arg(bb, 2))
        ck.ob("cycle-first", "recursion-shares-stack#%d" % k, e[0] == "param" and e[2] == "stack", "the recursive want_build receives the caller's stack (%s)" % show(e), span=t["loc"], fn=b.nname)


def validation(ck, ctx):
    F = ctx.F
    b = ck.need("fn " + WB, F.body(WB))
    cfg = ctx.cfg(b)
    R = ctx.res(b)
    ck.functions.add(b.nname)
    sets = Q.sites_in(b, SM.SET)
    val_sites = []
    ord_sites = []
    for bb, t in Q.sites_in(b, WF):
        src = {c[1] for c in calls_in(R.arg(bb, 3))}
        if "graph::Build::validation_ins" in src:
            val_sites.append((bb, t))
        elif "graph::Build::ordering_ins" in src:
            ord_sites.append((bb, t))
    ck.floor("want_file over validation_ins in want_build", len(val_sites), 1)
    for i, (bb, t) in enumerate(val_sites):
        ok_after = bool(sets) and all(cfg.dominates(s, bb) for s, _ in sets)
        ck.ob("validation", "after-set#%d" % i, ok_after, "validation inputs are visited only after set() fixed this step's state", span=t["loc"], fn=b.nname)
        e = strip(R.arg(bb, 2))
        fresh = e[0] == "call" and (e[1].endswith("Vec::new") or e[1].endswith("Vec::with_capacity") or e[1].endswith("Default>::default"))
        hdr = cfg.enclosing_loop_header(bb)
        in_loop = fresh and hdr is not None and e[3] in cfg.natural_loop(hdr)
        ck.ob("validation", "fresh-stack#%d" % i, fresh and in_loop, "validation visit uses a fresh stack created per iteration (%s)" % show(e, 2), span=t["loc"], fn=b.nname)
        # the answer is discarded: the Continue payload is not branched on and does not flow into the returned state
        sw = RL.bool_switch_on_payload(ctx, b, bb)
        tr = RL.try_of_call(ctx, b, bb)
        ck.ob("validation", "answer-unused#%d" % i, sw is None and tr is not None, "the bool answer of the validation visit is not branched on; only its error is propagated", span=t["loc"], fn=b.nname)
        # same build's validation_ins
        okb = False
        for c in calls_in(R.arg(bb, 3)):
            if c[1] == "graph::Build::validation_ins":
                be = strip(c[2][0])
                okb = be[0] == "call" and be[1].endswith("Index<K>>::index") and strip(be[2][1])[0] == "param"
        whole, bad_ad = C.iter_is_whole(R.arg(bb, 3))
        ck.ob("validation", "all-validation-inputs#%d" % i, whole, "every validation input is visited (no limiting iterator adapter: %s)" % bad_ad, span=t["loc"], fn=b.nname)
        ck.ob("validation", "own-build#%d" % i, okb, "the loop iterates validation_ins of graph.builds[<id param>]", span=t["loc"], fn=b.nname)
    # ordering visits use the caller's stack (cycle detection covers them)
    for i, (bb, t) in enumerate(ord_sites):
        e = strip(R.arg(bb, 2))
        ck.ob("validation", "ordering-shares-stack#%d" % i, e[0] == "param" and e[2] == "stack", "ordering inputs are visited on the caller's stack (%s)" % show(e), span=t["loc"], fn=b.nname)
    # returned state is the one set
    for bbr, s in Q.ret_assignments(b):
        if "rv" in s and s["rv"]["k"] == "agg" and s["rv"]["variant"] == "Ok":
            e = R.agg_op(bbr, s, 0)
            vs = R01.new_states(e)
            good = vs <= {"Want", "Ready"} or (len(alts(e)) == 1 and strip(e)[0] == "call" and strip(e)[1] == "work::BuildStates::get")
            ck.ob("validation", "returns-state@%s" % ("visited" if good and vs <= {"Want", "Ready"} else "revisit"), good, "want_build returns Ok(%s)" % show(e, 2), span=s.get("loc"), fn=b.nname)
    ACC.accessors(ck, ctx, only=["graph::Build::ordering_ins", "graph::Build::validation_ins"])


def loop_shape(ck, ctx):
    F = ctx.F
    b = ck.need("fn " + RL.RUN, F.body(RL.RUN))
    cfg = ctx.cfg(b)
    R = ctx.res(b)
    ck.functions.add(b.nname)
    # unfinished / is_running definitions
    for fn, fld in (("work::BuildStates::unfinished", "total_pending"), ("task::Runner::is_running", "running")):
        fb = ck.need("fn " + fn, F.body(fn))
        FR = ctx.res(fb)
        e = FR.local(0, FR.term_at(ctx.cfg(fb).returns()[0]))
        ok = all((a[0] == "bin" and ((a[1] == "Gt" and a[3] == ("const", 0)) or (a[1] == "Ne" and a[3] == ("const", 0))) and field_chain(strip(a[2]))[1][-1:] == [fld]) for a in alts(e))
        ck.ob("loop-shape", fn, ok, "%s returns %s (need self.%s > 0)" % (fn, show(e, 2), fld), span=fb.loc, fn=fn)
    waits = Q.sites_in(b, "task::Runner::wait")
    ck.floor("Runner::wait in Work::run", len(waits), 1)

    def pred_running(e):
        e = strip(e)
        return e[0] == "call" and e[1] == "task::Runner::is_running"

    g_run = C.bool_gate_edges(ctx, b, pred_running)
    for i, (bb, t) in enumerate(waits):
        ok, _ = Q.gated(cfg, bb, g_run, repeat=True)
        ck.ob("loop-shape", "wait-only-if-running#%d" % i, ok, "Runner::wait is called only on a fresh true edge of runner.is_running() (gates %s)" % sorted(g_run), span=t["loc"], fn=b.nname)
        same = all(strip(R.arg(bb, 0)) == strip(R.arg(x, 0)) for x, tt in b.calls() if callee_of(tt) == "task::Runner::is_running")
        ck.ob("loop-shape", "same-runner#%d" % i, same, "is_running and wait are asked of the same runner", span=t["loc"], fn=b.nname)
    # the outer loop test
    hdrs = cfg.loop_headers()
    outer = None
    for h in hdrs:
        l = cfg.natural_loop(h)
        if all(w in l for w, _ in waits) and (outer is None or len(l) > len(cfg.natural_loop(outer))):
            outer = h
    unf = [(bb, t) for bb, t in b.calls() if callee_of(t) == "work::BuildStates::unfinished"]
    ok_test = outer is not None and len(unf) == 1 and (unf[0][0] == outer or cfg.dominates(outer, unf[0][0]))
    ck.ob("loop-shape", "loop-test", ok_test, "the run loop is `while build_states.unfinished()` (header bb%s)" % outer, span=b.loc, fn=b.nname)
    # made_progress: starting a task or popping a ready build sets it; the wait is reached only with it false
    mp = None
    for l, nm in b.names.items():
        if nm == "made_progress":
            mp = l
    if mp is None:
        bools = [l for l, nm in b.names.items() if b.local_ty(l) == "bool"]
        mp = bools[0] if len(bools) == 1 else None
    ck.ob("anchor", "run progress flag", mp is not None, "a single progress flag local exists in Work::run", nontrivial=False)
    if mp is None:
        return
    set_true = [bi for bi in cfg.reach for s in b.blocks[bi]["stmts"] if s["k"] == "assign" and not s["place"]["p"] and s["place"]["l"] == mp and s["rv"]["k"] == "use" and s["rv"]["op"]["k"] == "const" and s["rv"]["op"]["int"] == 1]
    # (only the pop_ready side is load-bearing: after Runner::start a command is running, so falling through to the wait is harmless;
    # after settling ready builds without starting anything the wait/`BUG` test must not be reached)
    for callee, label in (("work::BuildStates::pop_ready", "pop_ready-some"),):
        for i, (bb, t) in enumerate(Q.sites_in(b, callee)):
            starts = [y for y, _ in cfg.succ[bb]]
            if callee.endswith("pop_ready"):
                starts = []
                for x, tt, scrut, adt, vmap in Q.enum_switches(ctx, b):
                    if adt == "std::option::Option" and any(c[1] == callee and c[3] == bb for c in calls_in(strip(scrut))):
                        starts += cfg.edge_targets(x, vmap.get("Some"))
            tries = C.try_err_edges(ctx, b)
            brk = {(tb, v[1]) for tb, v in tries.items()}
            r = cfg.reach_avoid(starts, avoid_blocks=set_true, avoid_edges=brk)
            bad = [w for w, _ in waits if w in r] + ([outer] if outer in r else [])
            ck.ob("loop-shape", "progress-flag|%s#%d" % (label, i), bool(starts) and not bad, "after %s the wait / next outer iteration is reached only through `made_progress = true`" % label, span=t["loc"], fn=b.nname)

    def pred_flag(e):
        # switch on the progress flag (copied into a temp)
        return False

    flag_edges = set()
    for sbb, st, e in Q.switches(ctx, b):
        d = st["discr"]
        if d["k"] in ("copy", "move") and not d["place"]["p"]:
            src = R01._copy_source(b, sbb, d["place"]["l"])
            if src == mp:
                tl, fl = Q.bool_edges(st)
                flag_edges.add((sbb, fl))
    for i, (bb, t) in enumerate(waits):
        ok, _ = Q.gated(cfg, bb, flag_edges, repeat=True)
        ck.ob("loop-shape", "wait-only-without-progress#%d" % i, ok, "wait is reached only when the iteration made no progress (edges %s)" % sorted(flag_edges), span=t["loc"], fn=b.nname)
    # BUG panic and break: only under !made_progress && !is_running; break only under tasks_failed > 0
    panics = [bi for bi in cfg.reach if b.blocks[bi]["term"] and b.blocks[bi]["term"]["k"] == "call" and b.blocks[bi]["term"]["target"] < 0 and callee_of(b.blocks[bi]["term"]).startswith(("std::rt::panic", "core::panicking"))]
    not_running = {(x, Q.bool_edges(b.blocks[x]["term"])[1]) for (x, tl) in g_run}
    for i, p in enumerate(panics):
        ok1, _ = Q.gated(cfg, p, not_running)
        ok2, _ = Q.gated(cfg, p, flag_edges)
        ck.ob("loop-shape", "internal-panic-guard#%d" % i, ok1 and ok2, "the internal-error panic is reachable only when nothing runs and no progress was made", span=b.loc, fn=b.nname)
    ck.extra["explicit_panics_in_run"] = len(panics)
    # the normal epilogue (computed return value) is reached only through the loop test's false edge or
    # through `tasks_failed > 0` tested when nothing runs and no progress was made
    finals = []
    for bbr, s_ in Q.ret_assignments(b):
        if "rv" in s_ and s_["rv"]["k"] == "agg" and s_["rv"]["variant"] == "Ok":
            if R.agg_op(bbr, s_, 0)[0] != "const":
                finals.append(bbr)
    G = set()
    brks = []
    for sbb, st, e in Q.switches(ctx, b):
        e_ = strip(e)
        tl, fl = Q.bool_edges(st)
        if e_[0] == "call" and e_[1] == "work::BuildStates::unfinished":
            G.add((sbb, fl))
        elif e_[0] == "bin" and e_[1] == "Gt" and e_[3] == ("const", 0) and Q.gated(cfg, sbb, not_running)[0] and Q.gated(cfg, sbb, flag_edges)[0]:
            G.add((sbb, tl))
            brks.append(sbb)
    # and conversely: with nothing running, no progress and a failure on record, the loop is left for the epilogue at once
    # (looping again would spin for ever, falling through would hit the internal-error panic)
    okl = bool(brks)
    for sbb in brks:
        tl_, fl_ = Q.bool_edges(b.blocks[sbb]["term"])
        st_ = cfg.edge_targets(sbb, tl_)
        r_ = cfg.reach_avoid(st_, avoid_blocks=finals)
        okl = okl and outer not in r_ and not any(p_ in r_ for p_ in panics) and not any(w in r_ for w, _ in waits) and any(f in cfg.reach_avoid(st_) for f in finals)
    ck.ob("loop-shape", "stuck-after-failure-leaves-loop", okl, "when nothing runs, nothing progressed and a task has failed, control goes straight to the epilogue: not back to the loop test, not to the wait, not to the internal-error panic", span=b.loc, fn=b.nname)
    okb = bool(finals) and all(Q.gated(cfg, f, G)[0] for f in finals)
    ck.ob("loop-shape", "break-only-after-failure", okb, "the normal epilogue is reached only when unfinished() is false, or by `tasks_failed > 0` with nothing running and no progress (break tests %s)" % brks, span=b.loc, fn=b.nname)


# unwrap()/expect() sites in the modules that run on a task's worker thread, confirmed by reading: none of them is on data that comes from the
# command (its output, its depfile): a panic there kills the thread before it reports, and Runner::wait then blocks for ever
WORKER_UNWRAPS = {
    "process_posix::check_posix_spawn": ["Result::unwrap"],      # strerror text of a libc constant
    "process_posix::check_ret_errno": ["Option::unwrap", "Result::unwrap"],
    "process_posix::run_command": ["Result::unwrap"],          # CString::new(cmdline): a NUL in the command line (manifest text, not command output)
    "task::Runner::start": ["Option::unwrap"],                 # build.cmdline (main thread)
    "task::Runner::wait": ["Result::unwrap"],                  # recv() (main thread)
}


def worker_panics(ck, ctx, rule="worker-reports"):
    F = ctx.F
    seen = {}
    for b in F.view_bodies():
        if b.expn or not b.nname.startswith(("task::", "process_posix::", "depfile::")):
            continue
        us = []
        for bb, t in b.calls():
            c = callee_of(t)
            if c.endswith(("Option::unwrap", "Result::unwrap", "Option::expect", "Result::expect", "Result::unwrap_err", "Result::expect_err")):
                us.append("::".join(c.split("::")[-2:]))
        explicit = [1 for blk in b.blocks if not blk["cleanup"] and blk["term"] and blk["term"]["k"] == "call" and blk["term"]["target"] < 0 and callee_of(blk["term"]).startswith(("std::rt::panic", "core::panicking", "std::panicking", "std::rt::begin_panic"))]
        if us or explicit:
            seen[F.owner(b.nname)] = sorted(seen.get(F.owner(b.nname), []) + us + ["panic!"] * len(explicit))
    bad = {k: v for k, v in seen.items() if v != sorted(WORKER_UNWRAPS.get(k, []))}
    ck.ob(rule, "no-new-panic-on-worker-thread", not bad, "unwrap()/expect()/panic! in task.rs, process_posix.rs and depfile.rs appear only at the sites confirmed by reading (none handles command output): unexpected %s" % (bad or "none"), span="task::run_task")


def cycle_error_reaches_exit(ck, ctx, rule="cycle-first"):
    """the `dependency cycle` error raised while marking targets wanted is not dropped on the way out: every want_file /
    want_every_file call of run::build and of Work::want_every_file is propagated with `?`"""
    F = ctx.F
    n = 0
    for fn, callees in (("run::build", ("work::Work::want_file", "work::Work::want_every_file")), ("work::Work::want_every_file", ("work::Work::want_file",)), ("work::Work::want_file", ("work::BuildStates::want_file",))):
        b = F.body(fn)
        if b is None:
            ck.ob("anchor", "fn " + fn, False, "anchor-missing: %s" % fn, nontrivial=False)
            continue
        for bb, t in b.calls():
            if callee_of(t) in callees:
                n += 1
                ok = RL.try_of_call(ctx, b, bb) is not None or (not t["dest"]["p"] and t["dest"]["l"] == 0)
                ck.ob(rule, "%s->%s#bb-order%d|propagated" % (fn, callee_of(t).split("::")[-1], n), ok, "%s propagates the Result of %s (a dependency cycle found there must end the invocation)" % (fn, callee_of(t)), span=t["loc"], fn=fn)
    ck.floor("want_* call sites whose error must be propagated", n, 5)


def worker_reports(ck, ctx):
    F = ctx.F
    worker_panics(ck, ctx)
    cycle_error_reaches_exit(ck, ctx)
    clo = ck.need("closure task::Runner::start::{closure#0}", F.body("task::Runner::start::{closure#0}"))
    cfg = ctx.cfg(clo)
    R = ctx.res(clo)
    ck.functions.add(clo.nname)
    sends = [(bb, t) for bb, t in clo.calls() if callee_of(t).endswith("Sender::send")]
    done = []
    for bb, t in sends:
        e = strip(R.arg(bb, 1))
        if e[0] == "agg" and e[3] == "Done":
            done.append(bb)
    ok = len(done) == 1 and all(cfg.dominates(done[0], r) for r in cfg.returns())
    ck.ob("worker-reports", "done-sent-once", ok, "the task thread sends Message::Done exactly once on every path (%s)" % done, span=clo.loc, fn=clo.nname)
    # run_task errors are folded into a result, not propagated out of the thread
    uo = [(bb, t) for bb, t in clo.calls() if callee_of(t).endswith("Result::unwrap_or_else")]
    rt = [(bb, t) for bb, t in clo.calls() if callee_of(t) == "task::run_task"]
    ck.ob("worker-reports", "errors-folded", len(uo) == 1 and len(rt) == 1, "run_task's Err is folded with unwrap_or_else into a TaskResult", span=clo.loc, fn=clo.nname)
    # Runner::wait returns on Done
    wb = ck.need("fn task::Runner::wait", F.body("task::Runner::wait"))
    wcfg = ctx.cfg(wb)
    okw = False
    for x, t, scrut, adt, vmap in Q.enum_switches(ctx, wb):
        if adt == "task::Message":
            r = wcfg.reach_avoid(wcfg.edge_targets(x, vmap.get("Done")), avoid_blocks=[wcfg.enclosing_loop_header(x)])
            okw = okw or bool(set(wcfg.returns()) & r)
    ck.ob("worker-reports", "wait-returns-on-done", okw, "Runner::wait returns when it receives Message::Done", span=wb.loc, fn=wb.nname)


def run(ck, ctx):
    C.adapter_census(ck, ctx, "loop-shape", ("work::", "task::"))
    # every dependent of a finished step is re-examined: one that is skipped is never promoted and the run ends in the `BUG:` panic
    C.loops_complete(ck, ctx, "loop-shape", [("work::Work::ready_dependents", "work::Work::recheck_ready", "the dependents of a finished step"), ("work::Work::ready_dependents", "std::collections::HashSet::insert", "the outputs' dependents")])
    cycle_first(ck, ctx)
    validation(ck, ctx)
    # a slot that is not given back when a build leaves Running (for Done *or* Failed) strands the rest of its pool: they are never decided
    SM.eff_table(ck, ctx, ["pending+", "pending-", "running+", "running-"])
    ck.extra["exhaustive_subrule"] = "table: all 98 abstract inputs of BuildStates::set enumerated"
    C.single_writer(ck, ctx, "pending-paired", "work::BuildStates", "total_pending", [SM.SET])
    R01.sites(ck, ctx)
    rel = ck.extra.get("transition_relation", [])
    ck.ob("pending-paired", "terminal-states", not any(p in ("Failed", "Done") for p, n in rel), "Done and Failed have no outgoing transition (relation %s)" % rel, span=SM.SET)
    loop_shape(ck, ctx)
    worker_reports(ck, ctx)
    # a queued step of a pool with a free slot is always handed out (a gate stricter than the bound would strand it)
    from . import C04 as R04
    R04.pool_gate(ck, ctx)
    from . import fancy as FY
    FY.shutdown(ck, ctx)
    FY.thread(ck, ctx)


def run_config(ck, ctx):
    run(ck, ctx)
