"""Rules over db.rs (append-only build log) shared by C07, C08, C09."""
import re
from n2sa import query as Q
from n2sa.expr import strip, show, field_chain, alts, calls_in, walk
from n2sa.facts import callee_of, norm
from . import common as C

WB = "db::Writer::write_build"
WP = "db::Writer::write_path"
FIN = "db::RecordWriter::finish"
RB = "db::Reader::read_build"
RF = "db::Reader::read_file"
OPEN = "db::open"
TAG = 32768


# ------------------------------------------------------------------------------------------------
# C07


def single_write(ck, ctx, rule="single-write"):
    F = ctx.F
    # every io::Write call inside module db
    sites = {}
    for b in F.all_bodies():
        if not b.nname.startswith("db::") and "db::" not in b.nname.split(" as ")[0]:
            continue
        for bb, t in b.calls():
            c = callee_of(t)
            if "std::io::Write" in c or c.startswith("std::fs::write") or c.endswith("File::set_len") or c.endswith("File::sync_all") or c.endswith("File::sync_data"):
                sites.setdefault(b.nname, []).append(c.split("::")[-1])
    allowed = {FIN: ["write_all"], "db::Writer::write_signature": ["write_all", "write_all"], OPEN: ["set_len"]}
    for fn, calls in sorted(sites.items()):
        ck.ob(rule, "writes-in|%s" % fn, fn in allowed and sorted(calls) == sorted(allowed[fn]), "%s performs file writes %s (allowed: finish = one write_all; write_signature; open = set_len repair)" % (fn, calls), span=F.body(fn).loc, fn=fn)
    ck.floor("db functions performing file writes", len(sites), 2)
    fb = ck.need("fn " + FIN, F.body(FIN))
    R = ctx.res(fb)
    for bb, t in fb.calls():
        if "Write" in callee_of(t):
            e = strip(R.arg(bb, 1))
            base, names = field_chain(e)
            ck.ob(rule, "finish|whole-buffer", names == ["0"] and strip(base)[0] == "param", "RecordWriter::finish writes the whole assembled buffer (%s) with one write_all" % show(e, 2), span=t["loc"], fn=FIN)
    # per record function: one finish, after every RecordWriter::write*, returned as the result
    for fn in (WB, WP):
        b = ck.need("fn " + fn, F.body(fn))
        cfg = ctx.cfg(b)
        Rb = ctx.res(b)
        fins = Q.sites_in(b, FIN)
        ws = [(bb, t) for bb, t in b.calls() if callee_of(t).startswith("db::RecordWriter::write")]
        ok = len(fins) == 1 and bool(ws)
        if ok:
            fbb = fins[0][0]
            after = cfg.reach_avoid([y for y, _ in cfg.succ[fbb]])
            ok = all(x not in after for x, _ in ws) and all(cfg.dominates(x, fbb) or cfg.enclosing_loop_header(x) is not None and cfg.dominates(cfg.enclosing_loop_header(x), fbb) for x, _ in ws)
            # same record: finish's receiver is the RecordWriter the writes went to
            recv = strip(Rb.arg(fbb, 0))
            ok = ok and all(strip(Rb.arg(x, 0)) == recv for x, _ in ws)
            tgt = strip(Rb.arg(fbb, 1))
            ok = ok and field_chain(tgt)[1][-1:] == ["w"]
        ck.ob(rule, "%s|assembled-then-one-finish" % fn, ok, "%s assembles its record in one RecordWriter and hands it to a single finish(&mut self.w) after the last field" % fn, span=b.loc, fn=fn)
        # every Ok return passes finish (a record is never silently dropped half-way)
        if fins:
            r = cfg.reach_avoid([0], avoid_blocks=[fins[0][0]])
            oks = [bb for bb, s, e in C.ok_return_blocks(ctx, b)]
            ck.ob(rule, "%s|ok-implies-written" % fn, not any(x in r for x in oks), "%s cannot return Ok without having written the record" % fn, span=b.loc, fn=fn)
    # nested path records are complete records of their own, written before the build record is finished
    b = F.body(WB)
    cfg = ctx.cfg(b)
    fins = Q.sites_in(b, FIN)
    eids = Q.sites_in(b, "db::Writer::ensure_id")
    if fins:
        after = cfg.reach_avoid([y for y, _ in cfg.succ[fins[0][0]]])
        ck.ob(rule, "write_build|paths-before-build-record", bool(eids) and not any(x in after for x, _ in eids), "ensure_id (which may append path records) is never called after the build record was written", span=b.loc, fn=WB)
    C.callers_exact(ck, ctx, rule, WP, ["db::Writer::ensure_id"], floor=1)


def sole_writer(ck, ctx, rule="sole-writer"):
    """who opens files for writing anywhere in the crate; how the log is opened"""
    F = ctx.F
    openers = {}
    for b in F.all_bodies():
        for bb, t in b.calls():
            c = callee_of(t)
            if c in ("std::fs::File::create", "std::fs::OpenOptions::open", "std::fs::write", "std::fs::File::create_new", "std::fs::File::options", "std::fs::remove_file", "std::fs::rename", "std::fs::copy", "std::fs::File::open"):
                openers.setdefault((b.nname, c.split("::")[-1] if not c.endswith("File::open") else "File::open"), 0)
                openers[(b.nname, c.split("::")[-1] if not c.endswith("File::open") else "File::open")] += 1
    expected = {
        (OPEN, "open"): "the log, read+append",
        ("db::Writer::create", "create"): "the log, first creation",
        ("trace::Trace::new", "create"): "trace.json",
        ("trace::open", "create"): "trace.json",
        ("task::write_rspfile", "write"): "response files",
        ("scanner::read_file_with_nul", "File::open"): "read-only input",
    }
    for k, n in sorted(openers.items()):
        ck.ob(rule, "opener|%s|%s" % k, k in expected, "%s calls fs %s (%s)" % (k[0], k[1], expected.get(k, "UNEXPECTED file opener/creator")), span=F.body(k[0]).loc, fn=k[0])
    ck.floor("file-opening call sites in the crate", len(openers), 4)
    C.single_writer(ck, ctx, rule, "db::Writer", "w", [WB, WP, "db::Writer::write_signature"])
    b = ck.need("fn " + OPEN, F.body(OPEN))
    cfg = ctx.cfg(b)
    R = ctx.res(b)
    opts = {}
    for bb, t in b.calls():
        c = callee_of(t)
        if c.startswith("std::fs::OpenOptions::") and c.split("::")[-1] not in ("new", "open"):
            opts[c.split("::")[-1]] = R.arg(bb, 1)
    ck.ob(rule, "open|options", opts == {"read": ("const", 1), "append": ("const", 1)}, "the log is opened with exactly read(true).append(true): %s" % {k: show(v) for k, v in opts.items()}, span=b.loc, fn=OPEN)
    # create only when the open failed with NotFound
    def pred_nf(e):
        e = strip(e)
        if e[0] == "call" and e[1].endswith("ErrorKind as std::cmp::PartialEq>::eq"):
            return any(y[0] == "promoted" and y[2] == ("enum", "std::io::ErrorKind", "NotFound") for y in e[2])
        return False
    g_nf = C.bool_gate_edges(ctx, b, pred_nf)
    for bb, t in Q.sites_in(b, "db::Writer::create"):
        ck.ob(rule, "open|create-only-if-missing", Q.gated(cfg, bb, g_nf)[0], "Writer::create (truncating create) is reached only when opening failed with NotFound", span=t["loc"], fn=OPEN)
    # same path for both
    for bb, t in Q.sites_in(b, "db::Writer::create"):
        e = strip(R.arg(bb, 0))
        ck.ob(rule, "open|same-path", e[0] == "param" and e[2] == "path", "create uses the same path parameter", span=t["loc"], fn=OPEN)
    # load::read: the log path is .n2_db under builddir
    lb = F.body("load::read::{closure#1}")
    if lb is not None:
        strs = Q.body_strings(F, lb)
        ck.ob(rule, "log-name", any(".n2_db" in s for s in strs), "the log file is `.n2_db` (under builddir when set)", span=lb.loc, fn=lb.nname)


def torn_read(ck, ctx, rule="torn-read"):
    """every short read inside the record loop / signature is classified by ErrorKind::UnexpectedEof before any Err return"""
    F = ctx.F
    b = ck.need("fn " + RF, F.body(RF))
    cfg = ctx.cfg(b)
    R = ctx.res(b)
    ck.functions.add(b.nname)
    readers = [(bb, t) for bb, t in b.calls() if callee_of(t).startswith("db::Reader::read_")]
    ck.floor("record-level reads in read_file", len(readers), 2)

    def pred_eof(e):
        e = strip(e)
        if e[0] == "call" and e[1].endswith("ErrorKind as std::cmp::PartialEq>::eq"):
            if any(y[0] == "promoted" and y[2] == ("enum", "std::io::ErrorKind", "UnexpectedEof") for y in e[2]):
                return True
        if e[0] == "call" and e[1].endswith("::ne") and any(y[0] == "promoted" and y[2] == ("enum", "std::io::ErrorKind", "UnexpectedEof") for y in map(strip, e[2])):
            return "neg"
        if e[0] == "call" and e[1] == "db::is_unexpected_eof":
            return True
        return False

    g_eof = C.bool_gate_edges(ctx, b, pred_eof)
    g_not_eof = {(x, [l for l in Q.bool_edges(b.blocks[x]["term"]) if l != lab][0]) for x, lab in g_eof}
    tries = C.try_err_edges(ctx, b)
    err_rets = [bb for bb, s in C.err_return_blocks(ctx, b)]
    resid = [bb for bb, t in b.calls() if "from_residual" in callee_of(t)]
    for i, (bb, t) in enumerate(readers):
        cal = callee_of(t)
        # Err edges of this call's result: `?` Break edge or the Err arm of a match on it
        starts = []
        for tb, (cont, brk, ope) in tries.items():
            if ope is not None and any(c[3] == bb for c in calls_in(ope)) and strip(ope)[0] == "call" and strip(ope)[3] == bb:
                starts += cfg.edge_targets(tb, brk)
        for x, t_, scrut, adt, vmap in Q.enum_switches(ctx, b):
            s = strip(scrut)
            if adt == "std::result::Result" and s[0] == "call" and s[3] == bb:
                starts += cfg.edge_targets(x, vmap.get("Err"))
        r = cfg.reach_avoid(starts, avoid_edges=g_eof)  # paths that never take the `is EOF` edge...
        # ...must have tested: an Err return / from_residual reachable without crossing *any* EOF test is a violation
        untested = cfg.reach_avoid(starts, avoid_blocks=[x for x, _ in g_eof])
        bad = [y for y in untested if y in err_rets or y in resid]
        ck.ob(rule, "%s#%d|classified" % (cal.split("::")[-1], i), bool(starts) and not bad, "an error from %s is tested against UnexpectedEof before it can be returned as a load failure%s" % (cal, "" if not bad else " — untested Err path via bb%s" % bad), span=t["loc"], fn=b.nname)
        # and the EOF edge ends the load normally (Ok), not with Err
        eof_t = [tt for (x, lab) in g_eof for tt in cfg.edge_targets(x, lab)]
        r_eof = cfg.reach_avoid(eof_t)
        ck.ob(rule, "%s#%d|eof-is-clean-end" % (cal.split("::")[-1], i), bool(eof_t) and not any(y in err_rets or y in resid for y in r_eof), "the UnexpectedEof edge ends the load with Ok", span=t["loc"], fn=b.nname)
    # a helper that classifies the error must be exact: true iff the error is an io::Error of kind UnexpectedEof
    hb = F.body("db::is_unexpected_eof")
    if hb is not None and any(callee_of(t) == "db::is_unexpected_eof" for _, t in b.calls()):
        from n2sa.flagint import FlagInt, OPTION

        def is_eof_const(v):
            v = v[1] if v is not None and v[0] == "cref" else v
            return v is not None and v[0] == "en" and v[1] == "std::io::ErrorKind" and v[2] == "UnexpectedEof"

        def hook(fi, bi, t, callee, args, vals, ghost):
            if callee.endswith("downcast_ref"):
                io = "std::io::Error" in " ".join(t["callee"].get("generics") or [])
                return [(("en", OPTION, "None", ()), dict(ghost, not_io=True)), (("en", OPTION, "Some", None), dict(ghost, io=io))]
            if callee.endswith("ErrorKind as std::cmp::PartialEq>::eq") or callee.endswith("ErrorKind as std::cmp::PartialEq>::ne") or (callee == "std::cmp::PartialEq::ne" and len(args) == 2):
                if not any(is_eof_const(a) for a in args):
                    return [(("b", True), dict(ghost, unknown_cmp=True)), (("b", False), dict(ghost, unknown_cmp=True))]
                ne = callee.endswith("ne")
                return [(("b", not ne), dict(ghost, eof=True)), (("b", ne), dict(ghost, other=True))]
            return None

        fi = FlagInt(F, hb, hook).run()
        bad = []
        for g, rv in fi.rets:
            g = dict(g)
            want = bool(g.get("eof")) and g.get("io", False) and not g.get("unknown_cmp")
            if rv != ("b", want):
                bad.append("%s -> %s" % (sorted(k for k, v in g.items() if v), rv[1] if rv and rv[0] == "b" else "undetermined"))
        ck.ob(rule, "is_unexpected_eof|exact", len(fi.rets) >= 3 and not bad and not fi.capped, "is_unexpected_eof answers true exactly for an io::Error whose kind is UnexpectedEof (%d abstract returns; %s)" % (len(fi.rets), bad or "all consistent"), span=hb.loc, fn=hb.nname)
        ck.functions.add(hb.nname)
    # the EOF tests examine the error of the read they follow
    # inner readers preserve the io::Error kind (return io::Result, propagate with `?`)
    for fn in sorted(n for n in F.bodies if n.startswith("db::Reader::read_") and F.bodies[n].kind != "promoted"):
        fb = F.body(fn)
        if fn in (RF, "db::Reader::read", "db::Reader::read_signature"):
            continue
        ty = fb.locals[0]["s"]
        ck.ob(rule, "%s|io-result" % fn, ty.startswith("std::result::Result<") and ty.endswith("std::io::Error>"), "%s returns %s (the ErrorKind of a short read must reach read_file)" % (fn, ty), span=fb.loc, fn=fn)
        # no error conversion inside
        conv = [callee_of(t) for _, t in fb.calls() if callee_of(t).endswith("map_err") or "anyhow" in callee_of(t)]
        ck.ob(rule, "%s|no-conversion" % fn, not conv, "%s does not convert errors (%s)" % (fn, conv), span=fb.loc, fn=fn)
    # reads use read_exact (short read => UnexpectedEof), never plain read()
    prims = {}
    for fn in sorted(n for n in F.bodies if n.startswith("db::Reader::")):
        fb = F.body(fn)
        for bb, t in fb.calls():
            c = callee_of(t)
            if "std::io::Read" in c:
                prims.setdefault(c.split("::")[-1], set()).add(fn)
    # ... and no short read goes unnoticed: the Result of every read_exact is propagated with `?` (or returned)
    for fn in sorted(n for n in F.bodies if n.startswith("db::Reader::") and F.bodies[n].kind != "promoted"):
        fb = F.body(fn)
        k_ = 0
        for bb, t in fb.calls():
            if "std::io::Read" in callee_of(t) and callee_of(t).endswith("read_exact"):
                tr_ = C.try_of(ctx, fb, bb)
                direct_ret = not t["dest"]["p"] and t["dest"]["l"] == 0
                ck.ob(rule, "%s|read_exact#%d|propagated" % (fn, k_), tr_ is not None or direct_ret, "the outcome of read_exact in %s is propagated (a short read must surface as UnexpectedEof, not be decoded as data)" % fn, span=t["loc"], fn=fn)
                k_ += 1
    ck.ob(rule, "read-primitive", set(prims) == {"read_exact"}, "db::Reader reads only with read_exact: %s" % {k: sorted(v) for k, v in prims.items()}, span="db::Reader")
    # partial records have no effect: in read_build / read_path the graph/hash mutations come after the last read
    for fn, muts in ((RB, ("graph::Build::set_discovered_ins", "graph::Hashes::set")), ("db::Reader::read_path", ("graph::GraphFiles::id_from_canonical", "densemap::DenseMap::push", "std::collections::HashMap::insert"))):
        fb = ck.need("fn " + fn, F.body(fn))
        fcfg = ctx.cfg(fb)
        rd = [bb for bb, t in fb.calls() if callee_of(t).startswith("db::Reader::read_")]
        mu = [bb for bb, t in fb.calls() if callee_of(t) in muts]
        ok = bool(mu) and bool(rd)
        for m in mu:
            after = fcfg.reach_avoid([y for y, _ in fcfg.succ[m]])
            if any(x in after for x in rd):
                ok = False
        ck.ob(rule, "%s|effects-after-last-read" % fn, ok, "%s applies its effects only after every field of the record was read (a torn record leaves no trace)" % fn, span=fb.loc, fn=fn)


def repair_before_append(ck, ctx, rule="repair-before-append"):
    F = ctx.F
    b = ck.need("fn " + OPEN, F.body(OPEN))
    cfg = ctx.cfg(b)
    R = ctx.res(b)
    fo = Q.sites_in(b, "db::Writer::from_opened")
    sl = [(bb, t) for bb, t in b.calls() if callee_of(t).endswith("File::set_len")]
    ck.floor("Writer::from_opened in db::open", len(fo), 1)
    for i, (bb, t) in enumerate(fo):
        ok = bool(sl) and any(cfg.dominates(x, bb) for x, _ in sl)
        ck.ob(rule, "open|set_len-dominates-reuse#%d" % i, ok, "the file is cut back (File::set_len) before it is reused for appending", span=t["loc"], fn=OPEN)
        # the set_len result is checked
        for x, tt in sl:
            tr = None
            for tb, (cont, brk, ope) in C.try_err_edges(ctx, b).items():
                if ope is not None and strip(ope)[0] == "call" and strip(ope)[3] == x:
                    tr = (tb, cont)
            ck.ob(rule, "open|set_len-checked#%d" % i, tr is not None and Q.gated(cfg, bb, {tr})[0], "a failing set_len aborts the open (`?`)", span=tt["loc"], fn=OPEN)
            v = R.arg(x, 1)
            ok_v = any(c[1] == "db::Reader::read" for c in calls_in(v))
            ck.ob(rule, "open|length-from-reader#%d" % i, ok_v, "the new length is the valid-prefix length computed by the reader (%s)" % show(strip(v), 3), span=tt["loc"], fn=OPEN)
            same = strip(R.arg(x, 0)) == strip(R.arg(bb, 1)) or field_chain(strip(R.arg(x, 0)))[0] == field_chain(strip(R.arg(bb, 1)))[0]
            ck.ob(rule, "open|same-file#%d" % i, same, "the truncated file is the one handed to the writer", span=tt["loc"], fn=OPEN)
    # the valid length is a record boundary: read_file returns the stream position sampled before each record
    rb = ck.need("fn " + RF, F.body(RF))
    rcfg = ctx.cfg(rb)
    RR = ctx.res(rb)
    sp = [(bb, t) for bb, t in rb.calls() if callee_of(t).endswith("stream_position")]
    recs = [(bb, t) for bb, t in rb.calls() if callee_of(t) in ("db::Reader::read_record", "db::Reader::read_u16")]
    oks = C.ok_return_blocks(ctx, rb)
    good = bool(sp) and bool(recs)
    for bb, s, e in oks:
        for a in alts(e):
            a = strip(a)
            if a == ("const", 0):
                continue
            if not any(c[1].endswith("stream_position") for c in calls_in(a)):
                good = False
    # the position is sampled in every iteration before the record read
    for bb, t in recs:
        hdr = rcfg.enclosing_loop_header(bb)
        if hdr is None or not any(rcfg.enclosing_loop_header(x) == hdr and rcfg.dominates(x, bb) for x, _ in sp):
            good = False
    ck.ob(rule, "read_file|valid-length-is-record-boundary", good, "read_file returns the stream position sampled immediately before the record whose read hit EOF (or 0 for a short signature)", span=rb.loc, fn=RF)
    # a zero-length valid prefix gets a fresh signature
    ws = Q.sites_in(b, "db::Writer::write_signature")
    def pred_zero(e):
        e = strip(e)
        return e[0] == "bin" and e[1] == "Eq" and e[3] == ("const", 0) and any(c[1] == "db::Reader::read" for c in calls_in(e[2]))
    g_z = C.bool_gate_edges(ctx, b, pred_zero)
    okz = bool(ws) and all(Q.gated(cfg, x, g_z)[0] for x, _ in ws)
    if okz:
        starts = [tt for (x, lab) in g_z for tt in cfg.edge_targets(x, lab)]
        r = cfg.reach_avoid(starts, avoid_blocks=[x for x, _ in ws])
        okz = not any(bb in r for bb, s, e in C.ok_return_blocks(ctx, b))
    ck.ob(rule, "open|empty-log-resigned", okz, "when nothing valid remains (torn create) the signature is rewritten before the writer is returned", span=b.loc, fn=OPEN)
    cb = ck.need("fn db::Writer::create", F.body("db::Writer::create"))
    ccfg = ctx.cfg(cb)
    wsc = Q.sites_in(cb, "db::Writer::write_signature")
    ck.ob(rule, "create|signs", len(wsc) == 1 and all(ccfg.dominates(wsc[0][0], bb) for bb, s, e in C.ok_return_blocks(ctx, cb)), "Writer::create writes the signature before returning Ok", span=cb.loc, fn=cb.nname)


# ------------------------------------------------------------------------------------------------
# C08 codec


def _rpo(cfg):
    seen, order = set(), []

    def dfs(x):
        seen.add(x)
        for t, _ in cfg.succ[x]:
            if t not in seen:
                dfs(t)
        order.append(x)

    dfs(0)
    return list(reversed(order))


def shape(ctx, body, prim_of):
    """[(prim, loop_header or None, bb)] in reverse post-order"""
    cfg = ctx.cfg(body)
    out = []
    for x in _rpo(cfg):
        t = body.blocks[x]["term"]
        if t and t["k"] == "call":
            p = prim_of(callee_of(t))
            if p:
                out.append((p, cfg.enclosing_loop_header(x), x))
    return out


def _wprim(c):
    m = {"db::RecordWriter::write_u16": "u16", "db::RecordWriter::write_id": "id", "db::RecordWriter::write_u64": "u64", "db::RecordWriter::write_str": "str", "db::RecordWriter::write_u24": "u24", "db::RecordWriter::write": "bytes"}
    return m.get(c)


def _rprim(c):
    m = {"db::Reader::read_u16": "u16", "db::Reader::read_id": "id", "db::Reader::read_u64": "u64", "db::Reader::read_str": "bytes", "db::Reader::read_u24": "u24"}
    return m.get(c)


def _pattern(sh):
    """collapse to a regular pattern string: prims in a loop become `(p)*`"""
    out = []
    cur = None
    for p, h, bb in sh:
        if h is None:
            out.append(p)
            cur = None
        else:
            if cur == h:
                out[-1] = out[-1][:-2] + " " + p + ")*"
            else:
                out.append("(" + p + ")*")
                cur = h
    return " ".join(out)


def _width_writer(ctx, F, fn):
    b = F.body(fn)
    if b is None:
        return None
    R = ctx.res(b)
    for bb, t in b.calls():
        if callee_of(t) == "db::RecordWriter::write":
            e = strip(R.arg(bb, 1))
            k = None
            if e[0] == "call" and (e[1].endswith("array::index") or e[1].endswith("Index<I>>::index")):
                rng = strip(e[2][1])
                if rng[0] == "agg" and rng[2] == "std::ops::RangeTo":
                    k = rng[4][0][1] if rng[4][0][0] == "const" else None
                e = strip(e[2][0])
            if e[0] == "call" and e[1].endswith("to_le_bytes"):
                a = e[2][0]
                ty = None
                for y in walk(a):
                    if y[0] == "param":
                        ty = b.local_ty(y[1])
                full = {"u16": 2, "u32": 4, "u64": 8, "u8": 1}.get(ty)
                return k if k is not None else full
    return None


def _width_reader(ctx, F, fn):
    b = F.body(fn)
    if b is None:
        return None
    R = ctx.res(b)
    for bb, t in b.calls():
        if callee_of(t).endswith("Read>::read_exact"):
            e = strip(R.arg(bb, 1))
            n_arr = None
            for i, l in enumerate(b.locals):
                m = re.match(r"\[u8; (\d+)\]$", l["s"])
                if m and b.local_name(i) == "buf":
                    n_arr = int(m.group(1))
            if e[0] == "call" and (e[1].endswith("index_mut") or e[1].endswith("index")):
                rng = strip(e[2][1])
                if rng[0] == "agg" and rng[2] == "std::ops::RangeTo" and rng[4][0][0] == "const":
                    return rng[4][0][1], n_arr
                if rng[0] == "agg" and rng[2] == "std::ops::RangeFull":
                    return n_arr, n_arr
            return n_arr, n_arr
    return None


def codec(ck, ctx, rule="codec"):
    F = ctx.F
    wb = ck.need("fn " + WB, F.body(WB))
    rb = ck.need("fn " + RB, F.body(RB))
    # the dispatch function: the db::Reader function calling both read_path and read_build
    rr = None
    for n in sorted(F.bodies):
        bd = F.bodies[n]
        if n.startswith("db::Reader::") and bd.kind != "promoted":
            cs = {callee_of(t) for _, t in bd.calls()}
            if {"db::Reader::read_path", RB} <= cs:
                rr = bd
    ck.need("record dispatch fn", rr)
    wsh = shape(ctx, wb, _wprim)
    # prims of the dispatcher are taken relative to the loop that iterates over records (if it is in this function)
    dcfg = ctx.cfg(rr)
    rec_loop = None
    for bb_, t_ in rr.calls():
        if callee_of(t_) == RB:
            rec_loop = dcfg.enclosing_loop_header(bb_)
    rsh = [(p, None if h == rec_loop else h, bb_) for p, h, bb_ in shape(ctx, rr, _rprim)] + shape(ctx, rb, _rprim)
    wp, rp = _pattern(wsh), _pattern(rsh)
    ck.ob(rule, "build-record|same-language", wp == rp, "build record: writer emits `%s`, reader consumes `%s`" % (wp, rp), span=wb.loc, fn=WB)
    ck.functions.update([WB, RB, rr.nname])
    # path record
    ws = ck.need("fn db::RecordWriter::write_str", F.body("db::RecordWriter::write_str"))
    wps = _pattern(shape(ctx, ws, _wprim))
    rpb = F.body("db::Reader::read_path")
    rps = "u16 " + _pattern(shape(ctx, rpb, _rprim)) if rpb is not None else "?"
    ck.ob(rule, "path-record|same-language", wps == rps == "u16 bytes", "path record: writer `%s`, reader `%s`" % (wps, rps), span=ws.loc, fn=ws.nname)
    # widths
    for name, wfn, rfn, want in (("u16", "db::RecordWriter::write_u16", "db::Reader::read_u16", 2), ("u24", "db::RecordWriter::write_u24", "db::Reader::read_u24", 3), ("u64", "db::RecordWriter::write_u64", "db::Reader::read_u64", 8)):
        w = _width_writer(ctx, F, wfn)
        r = _width_reader(ctx, F, rfn)
        ck.ob(rule, "width|%s" % name, w == want and r is not None and r[0] == want, "%s: writer moves %s bytes, reader moves %s bytes (buffer %s)" % (name, w, r[0] if r else None, r[1] if r else None), span=wfn, fn=wfn)
    # u24 reader: the 4-byte buffer is zero-initialised so the unread high byte is 0
    r24 = F.body("db::Reader::read_u24")
    if r24 is not None:
        zero = any(s["k"] == "assign" and s["rv"]["k"] == "other" and "const 0_u8; 4" in s["rv"].get("d", "") for blk in r24.blocks for s in blk["stmts"])
        ck.ob(rule, "width|u24-high-byte-zero", zero, "read_u24 decodes from a zero-initialised [u8; 4]", span=r24.loc, fn=r24.nname)
    # id = u24 on both sides
    wi = F.body("db::RecordWriter::write_id")
    ri = F.body("db::Reader::read_id")
    okid = wi is not None and ri is not None and any(callee_of(t) == "db::RecordWriter::write_u24" for _, t in wi.calls()) and any(callee_of(t) == "db::Reader::read_u24" for _, t in ri.calls())
    ck.ob(rule, "width|id-is-u24", okid, "ids are written with write_u24 and read with read_u24", span="db::RecordWriter::write_id")
    # tag bit
    consts = {}
    for fn in (WB, WP, rr.nname):
        b = F.body(fn)
        vals = set()
        for blk in b.blocks:
            for s in blk["stmts"]:
                if s["k"] == "assign":
                    for o in ([s["rv"].get("op")] if s["rv"]["k"] in ("use", "cast") else [s["rv"].get("a"), s["rv"].get("b")] if s["rv"]["k"] == "bin" else []):
                        if o and o["k"] == "const" and o["int"] is not None and o["int"] >= 256:
                            vals.add(o["int"])
        consts[fn] = vals
    ck.ob(rule, "tag-bit", all(v == {TAG} for v in consts.values()), "the record tag bit is the same constant 0x8000 in write_build (mark), write_path (length guard) and the reader (mask): %s" % {k: sorted(v) for k, v in consts.items()}, span=WB)
    # reader dispatch: tag clear -> path(len), tag set -> build(len & !mask)
    R = ctx.res(rr)
    okd = False
    cfg = ctx.cfg(rr)

    def is_tag_test(e):
        return e[0] == "bin" and e[1] == "BitAnd" and (e[3] == ("const", TAG) or e[2] == ("const", TAG) or any(y == ("const", TAG) for y in walk(e)))

    z_edges, nz_edges = C.zero_test_edges(ctx, rr, is_tag_test)
    for sbb in sorted({x for x, _ in z_edges}):
        hdr_ = [cfg.enclosing_loop_header(sbb)] if cfg.enclosing_loop_header(sbb) is not None else []
        rt = cfg.reach_avoid([t_ for (x, lab) in z_edges if x == sbb for t_ in cfg.edge_targets(x, lab)], avoid_blocks=hdr_)
        rf = cfg.reach_avoid([t_ for (x, lab) in nz_edges if x == sbb for t_ in cfg.edge_targets(x, lab)], avoid_blocks=hdr_)

        def calls_to(r, callee):
            return [x for x in r if rr.blocks[x]["term"] and rr.blocks[x]["term"]["k"] == "call" and callee_of(rr.blocks[x]["term"]) == callee]

        pt, bf = calls_to(rt, "db::Reader::read_path"), calls_to(rf, RB)
        pf, bt = calls_to(rf, "db::Reader::read_path"), calls_to(rt, RB)
        okd = bool(pt) and bool(bf) and not pf and not bt
        if okd:
            le = strip(R.arg(bf[0], 1))
            # the count handed to read_build has the tag bit cleared: `x & !mask` or `x & 0x7fff`
            okd = any(y[0] == "bin" and y[1] == "BitAnd" and (any(z[0] == "un" and z[1] == "Not" for z in walk(y)) or any(z == ("const", 0xFFFF ^ TAG) for z in walk(y))) for y in walk(le))
            pe = strip(R.arg(pt[0], 1))
            okd = okd and not any(y[0] == "bin" and y[1] in ("BitAnd", "BitOr", "BitXor", "Shl", "Shr") for y in walk(pe))
    ck.ob(rule, "dispatch", okd, "tag clear => read_path(len); tag set => read_build(len & !mask)", span=rr.loc, fn=rr.nname)


def prefix_agrees(ck, ctx, rule="prefix-agrees"):
    F = ctx.F
    wb = F.body(WB)
    R = ctx.res(wb)
    cfg = ctx.cfg(wb)
    sh = shape(ctx, wb, _wprim)
    # each `(id)*` loop iterates slice S; the u16 written just before it is S.len() (| tag for the first)
    loops = []
    last_u16 = None
    for p, h, bb in sh:
        if p == "u16" and h is None:
            last_u16 = bb
        if p == "id" and h is not None:
            loops.append((h, bb, last_u16))
    ck.floor("id loops in write_build", len(loops), 2)
    for i, (h, bb, ubb) in enumerate(loops):
        ide = R.arg(bb, 1)
        src = None
        for c in calls_in(ide):
            if c[1] == "db::Writer::ensure_id":
                for cc in calls_in(c[2][2]):
                    if cc[1].startswith("graph::Build::"):
                        src = cc
        cnt = strip(R.arg(ubb, 1)) if ubb is not None else None
        ok = False
        if src is not None and cnt is not None:
            lens = [c for c in calls_in(cnt) if c[1] in ("core::slice::len", "std::vec::Vec::len")]
            ok = len(lens) == 1 and any(cc == src for cc in calls_in(lens[0][2][0])) or (len(lens) == 1 and strip(lens[0][2][0]) == src)
        ck.ob(rule, "write_build|count#%d" % i, ok, "the count written before id loop #%d is .len() of the slice that loop iterates (%s)" % (i, src[1] if src else None), span=wb.blocks[bb]["term"]["loc"], fn=WB)
        bad = C.loop_no_early_exit(ctx, wb, bb)
        ck.ob(rule, "write_build|loop-complete#%d" % i, bad == [], "id loop #%d writes every element (no early exit other than `?`)" % i, span=wb.blocks[bb]["term"]["loc"], fn=WB)
    # sources are outs() then discovered_ins() of builds[id]
    srcs = []
    for h, bb, ubb in loops:
        for c in calls_in(R.arg(bb, 1)):
            if c[1].startswith("graph::Build::"):
                srcs.append(c[1])
    ck.ob(rule, "write_build|fields", srcs == ["graph::Build::outs", "graph::Build::discovered_ins"], "the build record lists outs() then discovered_ins(): %s" % srcs, span=wb.loc, fn=WB)
    # hash field is the hash parameter
    for p, h, bb in sh:
        if p == "u64":
            e = strip(R.arg(bb, 1))
            ck.ob(rule, "write_build|hash-field", field_chain(e)[1] == ["0"] and strip(field_chain(e)[0])[0] == "param", "the u64 field is the BuildHash parameter (%s)" % show(e, 2), span=wb.blocks[bb]["term"]["loc"], fn=WB)
    # reader: loop bounds are the counts just read
    rb = F.body(RB)
    RR = ctx.res(rb)
    rcfg = ctx.cfg(rb)
    rsh = shape(ctx, rb, _rprim)
    rl = []
    last = "param:len"
    for p, h, bb in rsh:
        if p == "u16" and h is None:
            last = bb
        if p == "id" and h is not None and (not rl or rl[-1][0] != h):
            rl.append((h, bb, last))
    for i, (h, bb, src) in enumerate(rl):
        # iterator of the loop: Range{0, n}
        ok = False
        for x, t_, scrut, adt, vmap in Q.enum_switches(ctx, rb):
            if adt == "std::option::Option" and rcfg.enclosing_loop_header(x) == h or x == h:
                s = strip(scrut)
                for y in walk(s):
                    if y[0] == "agg" and y[2] == "std::ops::Range" and y[4][0] == ("const", 0):
                        n = strip(y[4][1])
                        if src == "param:len":
                            ok = ok or (n[0] == "param" and n[2] == "len")
                        else:
                            ok = ok or any(c[1] == "db::Reader::read_u16" and c[3] == src for c in calls_in(n))
        ck.ob(rule, "read_build|bound#%d" % i, ok, "reader id loop #%d runs 0..n where n is the count read just before it" % i, span=rb.blocks[bb]["term"]["loc"], fn=RB)
    # path: write_str length is s.len() of the same s
    ws = F.body("db::RecordWriter::write_str")
    WR = ctx.res(ws)
    oks = False
    args = {}
    for bb, t in ws.calls():
        if callee_of(t) == "db::RecordWriter::write_u16":
            args["len"] = strip(WR.arg(bb, 1))
        if callee_of(t) == "db::RecordWriter::write":
            args["bytes"] = strip(WR.arg(bb, 1))
    if "len" in args and "bytes" in args:
        l = [c for c in calls_in(args["len"]) if c[1].endswith("str::len")]
        by = [c for c in calls_in(args["bytes"]) if c[1].endswith("as_bytes")]
        oks = len(l) == 1 and len(by) == 1 and strip(l[0][2][0]) == strip(by[0][2][0]) and strip(l[0][2][0])[0] == "param"
    ck.ob(rule, "write_str|length-of-same-string", oks, "write_str writes s.len() followed by s.as_bytes() of the same s", span=ws.loc, fn=ws.nname)
    # read_path: read_str(len) with len from the dispatcher; read_str allocates exactly len
    rs = F.body("db::Reader::read_str")
    RS = ctx.res(rs)
    okr = False
    for bb, t in rs.calls():
        if callee_of(t).endswith("Read>::read_exact"):
            e = RS.arg(bb, 1)
            okr = any(c[1].endswith("from_elem") and strip(c[2][1])[0] == "param" for c in calls_in(e))
    ck.ob(rule, "read_str|exact-length", okr, "read_str reads exactly `len` bytes", span=rs.loc, fn=rs.nname)


def narrowing(ck, ctx, rule="narrowing"):
    """GUARD: every narrowing integer cast in the db writers is dominated by a bound that makes it lossless"""
    F = ctx.F
    found = 0
    for fn in sorted(n for n in F.bodies if (n.startswith("db::Writer::") or n.startswith("db::RecordWriter::")) and F.bodies[n].kind != "promoted"):
        b = F.body(fn)
        cfg = ctx.cfg(b)
        R = ctx.res(b)
        k = 0
        for bi in sorted(cfg.reach):
            for si, s in enumerate(b.blocks[bi]["stmts"]):
                if s["k"] != "assign" or s["rv"]["k"] != "cast" or "IntToInt" not in s["rv"]["ck"]:
                    continue
                frm, to = s["rv"]["from"]["s"], s["rv"]["to"]["s"]
                bits = {"u8": 8, "u16": 16, "u32": 32, "u64": 64, "usize": 64, "i32": 32, "isize": 64}
                if bits.get(to, 64) >= bits.get(frm, 64):
                    continue
                if s["rv"]["op"]["k"] == "const":
                    continue
                found += 1
                src = strip(R.operand(s["rv"]["op"], (bi, si)))
                what = show(src, 2)
                lim = 1 << bits[to]
                ok, why = _bounded(ctx, F, b, bi, src, lim)
                tag = "len(%s)" % ("outs" if "outs" in repr(src) else "discovered_ins" if "discovered_ins" in repr(src) else "str" if "str::len" in repr(src) else "?")
                ck.ob(rule, "%s|cast#%d:%s->%s:%s" % (fn, k, frm, to, tag), ok, "`%s as %s` in %s %s" % (what, to, fn, "is bounded: " + why if ok else "has no dominating bound < %d: values wrap silently" % lim), span=s.get("loc"), fn=fn)
                if tag == "len(str)":
                    # the length word of a path record doubles as the record tag: the length itself must stay below the tag bit
                    ok2, why2 = _bounded(ctx, F, b, bi, src, TAG)
                    ck.ob(rule, "%s|path-length-below-tag" % fn, ok2, "a path record's length word never has the tag bit 0x8000 set: %s" % (why2 if ok2 else "no dominating guard implies len < 0x8000 (a path of exactly 32768 bytes would be read back as a build record)"), span=s.get("loc"), fn=fn)
                k += 1
    ck.floor("narrowing casts in db writers", found, 3)
    # write_id bound must be exactly the 3-byte capacity
    wi = ck.need("fn db::RecordWriter::write_id", F.body("db::RecordWriter::write_id"))
    R = ctx.res(wi)
    cfg = ctx.cfg(wi)
    okb = False
    desc = ""
    for sbb, st, e in Q.switches(ctx, wi):
        e_ = strip(e)
        if e_[0] == "bin" and e_[1] in ("Ge", "Gt", "Lt", "Le"):
            rhs = strip(e_[3])
            val = None
            if rhs[0] == "bin" and rhs[1] == "Shl" and rhs[2] == ("const", 1) and rhs[3][0] == "const":
                val = 1 << rhs[3][1]
            elif rhs[0] == "const":
                val = rhs[1]
            desc = "%s %s" % (e_[1], val)
            tl, fl = Q.bool_edges(st)
            w24 = [bb for bb, t in wi.calls() if callee_of(t) == "db::RecordWriter::write_u24"]
            if e_[1] == "Ge" and val == 1 << 24:
                okb = all(Q.gated(cfg, x, {(sbb, fl)})[0] for x in w24)
            elif e_[1] == "Gt" and val == (1 << 24) - 1:
                okb = all(Q.gated(cfg, x, {(sbb, fl)})[0] for x in w24)
            elif e_[1] == "Lt" and val == 1 << 24:
                okb = all(Q.gated(cfg, x, {(sbb, tl)})[0] for x in w24)
    ck.ob(rule, "write_id|bound", okb, "write_id reaches write_u24 only for id < 2^24 (test found: id %s)" % desc, span=wi.loc, fn=wi.nname)


def _bounded(ctx, F, b, bi, src, lim):
    """is `src` (a len() expression) dominated by a guard implying src < lim — in this function or, for a parameter, at every caller"""
    cfg = ctx.cfg(b)
    R = ctx.res(b)

    def guards(body, at_bb, target):
        c2 = ctx.cfg(body)
        for sbb, st, e in Q.switches(ctx, body):
            e_ = strip(e)
            if e_[0] == "bin" and e_[1] in ("Ge", "Gt") and strip(e_[2]) == target and strip(e_[3])[0] == "const":
                v = strip(e_[3])[1] + (1 if e_[1] == "Gt" else 0)
                tl, fl = Q.bool_edges(st)
                if v <= lim and Q.gated(c2, at_bb, {(sbb, fl)})[0]:
                    return "guard `%s %s %d` false edge" % (show(target, 1), e_[1], strip(e_[3])[1])
            if e_[0] == "bin" and e_[1] in ("Lt", "Le") and strip(e_[2]) == target and strip(e_[3])[0] == "const":
                v = strip(e_[3])[1] + (1 if e_[1] == "Le" else 0)
                tl, fl = Q.bool_edges(st)
                if v <= lim and Q.gated(c2, at_bb, {(sbb, tl)})[0]:
                    return "guard `%s %s %d` true edge" % (show(target, 1), e_[1], strip(e_[3])[1])
        return None

    g = guards(b, bi, src)
    if g:
        return True, g
    # len of a parameter string: look at every caller
    if src[0] == "call" and src[1].endswith("::len") and strip(src[2][0])[0] == "param":
        pidx = strip(src[2][0])[1] - 1
        sites = ctx.F.call_sites(b.nname)
        if not sites:
            return False, ""
        whys = []
        for cb, cbb, ct in sites:
            CR = ctx.res(cb)
            ae = strip(CR.arg(cbb, pidx))
            tgt = ("call", src[1], (ae,), None)
            found = None
            for sbb, st, e in Q.switches(ctx, cb):
                e_ = strip(e)
                if e_[0] == "bin" and e_[1] in ("Ge", "Gt") and strip(e_[3])[0] == "const":
                    l = strip(e_[2])
                    if l[0] == "call" and l[1] == src[1] and strip(l[2][0]) == ae or (l[0] == "call" and l[1] == src[1] and strip(strip(l[2][0])) == strip(ae)):
                        v = strip(e_[3])[1] + (1 if e_[1] == "Gt" else 0)
                        tl, fl = Q.bool_edges(st)
                        if v <= lim and Q.gated(ctx.cfg(cb), cbb, {(sbb, fl)})[0]:
                            found = "caller %s guards len %s %d" % (cb.nname, e_[1], strip(e_[3])[1])
            if not found:
                return False, ""
            whys.append(found)
        return True, "; ".join(whys)
    return False, ""


def attribution(ck, ctx, rule="attribution"):
    """read_build applies a record only to the unique current producer of all its outputs"""
    F = ctx.F
    b = ck.need("fn " + RB, F.body(RB))
    cfg = ctx.cfg(b)
    R = ctx.res(b)
    ck.functions.add(RB)
    applies = [(bb, t) for bb, t in b.calls() if callee_of(t) in ("graph::Build::set_discovered_ins", "graph::Hashes::set")]
    ck.floor("record application calls in read_build", len(applies), 2)
    # acceptance table, by path-sensitive propagation with ghost bits (independent of how the accumulator / obsolete flag are spelled):
    #   some = an output with a producer was seen, np = an output without producer was seen, mm = two outputs' producers compared unequal
    from n2sa.flagint import FlagInt
    APPLY = {"graph::Build::set_discovered_ins": "deps", "graph::Hashes::set": "hash"}

    def hook(fi, bi, t, callee, args, vals, ghost):
        if callee in APPLY:
            fi.observe("apply", bi, callee, ghost)
            return [(None, dict(ghost, **{"applied_" + APPLY[callee]: True}))]
        if callee.endswith("BuildId as std::cmp::PartialEq>::eq") or callee.endswith("BuildId as std::cmp::PartialEq>::ne") or (callee == "std::cmp::PartialEq::ne" and "BuildId" in ((t["args"][0].get("place") or {}).get("ty") or {}).get("s", "")):
            a0, a1 = (fi._deref(vals, a) if a is not None and a[0] in ("ref", "cref") else a for a in args[:2])
            same = (args[0] is not None and args[0] == args[1]) or (a0 is not None and a0 == a1)
            is_ne = callee.endswith("ne")
            if same:
                # a value compared with itself: the answer is fixed, no mismatch can ever be seen here
                return [(("b", not is_ne), ghost)]
            return [(("b", not is_ne), ghost), (("b", is_ne), dict(ghost, mm=True))]
        if False:
            return [(("b", True), ghost), (("b", False), dict(ghost, mm=True))]
        if callee.endswith("BuildId as std::cmp::PartialEq>::ne") or (callee == "std::cmp::PartialEq::ne" and "BuildId" in ((t["args"][0].get("place") or {}).get("ty") or {}).get("s", "")):
            return [(("b", False), ghost), (("b", True), dict(ghost, mm=True))]
        return None

    def edge(fi, bi, sym, adt, vn, ghost):
        if adt == "std::option::Option" and len(sym[1]) >= 4 and sym[1][2] == "fld" and sym[1][3] == "input":
            return dict(ghost, np=True) if vn == "None" else dict(ghost, some=True)
        return None

    fi = FlagInt(F, b, hook, on_edge=edge).run()
    ck.extra.setdefault("flagint", {})["read_build"] = dict(states_explored=fi.visited, apply_observations=len(fi.obs), returns=len(fi.rets))
    ok_tab = not fi.capped
    for i, (bb, t) in enumerate(applies):
        obs = [dict(o[3]) for o in fi.obs if o[0] == "apply" and o[1] == bb]
        bad = [g for g in obs if not g.get("some") or g.get("np") or g.get("mm")]
        ck.ob(rule, "apply#%d|only-with-unique-producer" % i, ok_tab and bool(obs) and not bad, "%s is reached only when every output seen had a producer and no two producers differed (%d abstract paths; offending %s)" % (callee_of(t).split("::")[-1], len(obs), bad), span=t["loc"], fn=RB)
    oks = [dict(g) for g, rv in fi.rets if rv is not None and rv[0] == "en" and rv[2] == "Ok"]
    clean = [g for g in oks if g.get("some") and not g.get("np") and not g.get("mm")]
    for cal in ("graph::Build::set_discovered_ins", "graph::Hashes::set"):
        key = "applied_" + APPLY[cal]
        ck.ob(rule, "accepted=>%s" % cal.split("::")[-1], ok_tab and bool(clean) and all(g.get(key) for g in clean), "a record whose outputs all have the same current producer always reaches %s before read_build returns Ok (deps and hash are replaced together; the latest record wins)" % cal, span=b.loc, fn=RB)
    for kind, bit in (("no-producer", "np"), ("other-producer", "mm")):
        rej = [g for g in oks if g.get(bit)]
        ck.ob(rule, "reject|%s" % kind, ok_tab and bool(rej) and not any(g.get("applied_deps") or g.get("applied_hash") for g in rej), "a record with an output that has %s is parsed through and never applied (%d abstract returns)" % (kind.replace("-", " "), len(rej)), span=b.loc, fn=RB)
    empty = [g for g in oks if not g.get("some") and not g.get("np")]
    ck.ob(rule, "reject|no-outputs", ok_tab and not any(g.get("applied_deps") or g.get("applied_hash") for g in empty), "a record without outputs applies nothing", span=b.loc, fn=RB)
    # applied to the producer found, with the deps/hash read from this record
    for bb, t in applies:
        if callee_of(t) == "graph::Hashes::set":
            ide = strip(R.arg(bb, 1))
            he = strip(R.arg(bb, 2))
            ok = any(y[0] == "field" and y[2] == "input" for y in walk(ide)) and any(c[1] == "db::Reader::read_u64" for c in calls_in(he))
            ck.ob(rule, "apply|hash-of-this-record", ok, "Hashes::set(id, hash): id is the producer (`file.input`) of the record's outputs, hash is the u64 just read", span=t["loc"], fn=RB)
        else:
            be = strip(R.arg(bb, 0))
            ok = any(c[1].endswith("IndexMut<K>>::index_mut") and any(y[0] == "field" and y[2] == "input" for y in walk(c[2][1])) for c in calls_in(be))
            ck.ob(rule, "apply|deps-on-accepted-build", ok, "set_discovered_ins is applied to builds[<producer of the record's outputs>]", span=t["loc"], fn=RB)
    # every id of the record is consumed even when obsolete
    ids = [bb for bb, t in b.calls() if callee_of(t) == "db::Reader::read_id"]
    for i, bb in enumerate(ids):
        hdr = cfg.enclosing_loop_header(bb)
        it_none, it_some = C.option_edges(ctx, b, lambda s: s[0] == "call" and (s[1].endswith("range::next") or s[1].endswith("Iterator>::next")))
        starts = [tt for (x, lab) in it_some if cfg.enclosing_loop_header(x) == hdr or x == hdr for tt in cfg.edge_targets(x, lab)]
        r = cfg.reach_avoid(starts, avoid_blocks=[bb])
        ck.ob(rule, "parse-through#%d" % i, hdr is not None and hdr not in r, "every iteration reads its id (records are parsed through even when unusable)", span=b.blocks[bb]["term"]["loc"], fn=RB)
    # and no iteration is skipped: the id loops end only at exhaustion or by `?` (a `break` would leave the rest of the record unread
    # and every later record misaligned)
    for i, bb in enumerate(ids):
        bad = C.loop_no_early_exit(ctx, b, bb)
        ck.ob(rule, "parse-through#%d|loop-complete" % i, bad == [], "the id loop is left only when its range is exhausted or by `?` (other exits %s)" % bad, span=b.blocks[bb]["term"]["loc"], fn=RB)
    # ids map through the table built from path records
    C.single_writer(ck, ctx, rule, "db::IdMap", "fileids", ["db::Reader::read_path", "db::Writer::ensure_id"])
    C.single_writer(ck, ctx, rule, "db::IdMap", "db_ids", ["db::Reader::read_path", "db::Writer::ensure_id"])
