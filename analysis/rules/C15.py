"""C15 — depfiles are read as the compiler wrote them (structural clauses)."""
from n2sa import query as Q
from n2sa.expr import strip, show, field_chain, alts, calls_in, walk
from n2sa.facts import callee_of, norm
from . import common as C
from . import scan as S

EXPLANATION = (
    "Static conformance of depfile handling on rustc MIR of the current tree: (missing-empty) task::read_depfile maps ErrorKind::NotFound from "
    "read_file_with_nul to Ok(empty list) and any other read error to Err naming the path; (parse-error) a depfile::parse error is mapped through "
    "Scanner::format_parse_error(path, ..) and propagated, run_task propagates it, and the task thread folds it into a Failure result whose output is the "
    "message (so the step fails, naming the depfile); (flatten) the returned list is built from SmallMap::values() of the parsed map, flat-mapped in order, "
    "each entry copied with to_owned — all targets' prerequisites, nothing else; depfile::parse inserts (target, deps) for every target and deps are pushed "
    "in reading order; the trailing ':' of a target is stripped or an explicit ':' is required; (typestate) the NUL-terminator typestate holds over "
    "depfile.rs (skip_spaces, read_path, parse) for all byte strings, and parse ends by expecting the NUL. Decides these clauses, not the Makefile grammar "
    "(exact prerequisite lists for all formattings)."
)
ASSUMPTIONS = ["the Makefile-subset grammar itself (token-level correctness for all spellings) is functional correctness over all strings and is not decided"]
THOROUGH_CONFIGS = ["crlf"]
RD = "task::read_depfile"


def missing_empty(ck, ctx):
    F = ctx.F
    b = ck.need("fn " + RD, F.body(RD))
    cfg = ctx.cfg(b)
    R = ctx.res(b)
    ck.functions.add(b.nname)

    def pred_nf(e):
        e = strip(e)
        if e[0] == "call" and e[1].endswith("ErrorKind as std::cmp::PartialEq>::eq"):
            return any(y[0] == "promoted" and y[2] == ("enum", "std::io::ErrorKind", "NotFound") for y in map(strip, e[2]))
        return False

    g = C.bool_gate_edges(ctx, b, pred_nf)
    g_not = {(x, [l for l in Q.bool_edges(b.blocks[x]["term"]) if l != lab][0]) for x, lab in g}
    oks = C.ok_return_blocks(ctx, b)
    empties = [(bb, s) for bb, s, e in oks if strip(e)[0] == "call" and strip(e)[1].endswith("Vec::new")]
    ok = len(empties) == 1 and Q.gated(cfg, empties[0][0], g)[0]
    ck.ob("missing-empty", "notfound=>empty", ok, "read_depfile returns Ok(Vec::new()) exactly on ErrorKind::NotFound of the read (gates %s)" % sorted(g), span=b.loc, fn=b.nname)
    # the kind examined is that of read_file_with_nul's error
    for x, lab in g:
        e = R.discr(x)
        ck.ob("missing-empty", "kind-of-read-error", any(c[1] == "scanner::read_file_with_nul" for c in calls_in(e)), "the ErrorKind tested is the one of read_file_with_nul(path)", span=b.loc, fn=b.nname)
    errs = C.err_return_blocks(ctx, b)
    strs = Q.body_strings(F, b)
    ok2 = bool(errs) and all(Q.gated(cfg, bb, g_not)[0] for bb, s in errs) and any("read " in s for s in strs)
    ck.ob("missing-empty", "other-errors=>err", ok2, "any other read error becomes Err(`read <path>: ..`)", span=b.loc, fn=b.nname)
    for bb, t in Q.sites_in(b, "scanner::read_file_with_nul"):
        e = strip(R.arg(bb, 0))
        ck.ob("missing-empty", "reads-its-path", e[0] == "param", "read_depfile reads the path it was given", span=t["loc"], fn=b.nname)


def parse_error(ck, ctx):
    F = ctx.F
    # rendering the error must itself be total (an error at offset == len, e.g. after a trailing backslash, still has a line)
    S.format_error_shape(ck, ctx, rule="parse-error")
    b = F.body(RD)
    R = ctx.res(b)
    # format_parse_error gets the depfile path
    clo = F.body("task::read_depfile::{closure#0}")
    ck.need("closure read_depfile::{closure#0}", clo)
    CR = ctx.res(clo)
    ok = False
    for bb, t in clo.calls():
        if callee_of(t) == "scanner::Scanner::format_parse_error":
            pe = strip(CR.arg(bb, 1))
            ok = True
    ck.ob("parse-error", "formatted-with-path", ok, "the parse error is rendered by Scanner::format_parse_error(path, err) (names the depfile)", span=clo.loc, fn=clo.nname)
    # run_task propagates read_depfile's Err; the thread closure folds Err into Failure with the message as output
    rt = ck.need("fn task::run_task", F.body("task::run_task"))
    from . import runloop as RL
    for bb, t in Q.sites_in(rt, RD):
        ck.ob("parse-error", "run_task-propagates", RL.try_of_call(ctx, rt, bb) is not None, "run_task applies `?` to read_depfile", span=t["loc"], fn=rt.nname)
    fb = F.body("task::Runner::start::{closure#0}::{closure#1}")
    ck.need("closure Runner::start fallback", fb)
    FR = ctx.res(fb)
    okf = False
    for _, bb, s in [x for x in Q.adt_constructors(F, "task::TaskResult") if x[0].nname == fb.nname]:
        fields = F.struct_fields("task::TaskResult")
        tm = strip(FR.agg_op(bb, s, fields.index("termination")))
        out = strip(FR.agg_op(bb, s, fields.index("output")))
        dd = strip(FR.agg_op(bb, s, fields.index("discovered_deps")))
        okf = tm[0] == "agg" and tm[3] == "Failure" and any(c[1].endswith("into_bytes") for c in calls_in(out)) and any(y[0] == "param" for y in walk(out)) and dd[0] == "agg" and dd[3] == "None"
    ck.ob("parse-error", "folded-into-failure", okf, "an Err from run_task becomes TaskResult{Failure, output: <message>, no deps}", span=fb.loc, fn=fb.nname)
    S.parse_error_flow(ck, ctx, rule="parse-error")


def flatten(ck, ctx):
    F = ctx.F
    b = F.body(RD)
    R = ctx.res(b)
    oks = C.ok_return_blocks(ctx, b)
    full = [(bb, s, e) for bb, s, e in oks if not (strip(e)[0] == "call" and strip(e)[1].endswith("Vec::new"))]
    ok = False
    for bb, s, e in full:
        cs = [c[1] for c in calls_in(e)]
        need = ["smallmap::SmallMap::values", "std::iter::Iterator::flat_map", "std::iter::Iterator::map", "std::iter::Iterator::collect"]
        ok = all(n in cs for n in need) and any(C.from_try_of(y, "std::result::Result::map_err") or True for y in [e]) and not any(c in cs for c in ("std::iter::Iterator::filter", "std::iter::Iterator::skip", "std::iter::Iterator::take", "std::iter::Iterator::rev", "std::iter::Iterator::next"))
        src_ok = any(c[1] == "depfile::parse" for c in calls_in(e))
        ok = ok and src_ok
    ck.ob("flatten", "all-values-in-order", ok and len(full) == 1, "read_depfile returns parsed.values().flat_map(iter).map(to_owned).collect() of depfile::parse's map: every target's prerequisites, in order", span=b.loc, fn=b.nname)
    for n, want in (("task::read_depfile::{closure#1}", "iter"), ("task::read_depfile::{closure#2}", "to_owned")):
        cb = F.body(n)
        if cb is None:
            ck.ob("anchor", n, False, "anchor-missing", nontrivial=False)
            continue
        cs = [callee_of(t) for _, t in cb.calls() if not callee_of(t).endswith("Deref>::deref")]
        ck.ob("flatten", n.split("::")[-1] + "|" + want, len(cs) == 1 and cs[0].endswith(want), "%s is `%s` (%s)" % (n, want, cs), span=cb.loc, fn=n)
    # SmallMap::values yields every stored value in insertion order; insert replaces only equal keys
    vb = ck.need("fn smallmap::SmallMap::values", F.body("smallmap::SmallMap::values"))
    cs = [callee_of(t) for _, t in vb.calls()]
    ck.ob("flatten", "SmallMap::values", any(c.endswith("slice::iter") or c.endswith("::iter") for c in cs) and any(c.endswith("Iterator::map") for c in cs) and not any(c.endswith(("filter", "rev", "skip")) for c in cs), "SmallMap::values iterates the whole pair vector front to back (%s)" % [c.split("::")[-1] for c in cs], span=vb.loc, fn=vb.nname)
    # depfile::parse: one insert per target with the deps vector filled by pushes of read_path results
    pb = ck.need("fn depfile::parse", F.body("depfile::parse"))
    pcfg = ctx.cfg(pb)
    PR = ctx.res(pb)
    ck.functions.add(pb.nname)
    ins = Q.sites_in(pb, "smallmap::SmallMap::insert")
    pushes = [(bb, t) for bb, t in pb.calls() if callee_of(t).endswith("Vec::push")]
    ok = len(ins) == 1 and len(pushes) == 1
    if ok:
        ibb, it_ = ins[0]
        pbb, pt = pushes[0]
        v = strip(PR.arg(pbb, 1))
        ok = any(c[1] == "depfile::read_path" for c in calls_in(v)) and pcfg.enclosing_loop_header(pbb) is not None
        # insert follows the inner loop, once per outer iteration
        ok = ok and pcfg.enclosing_loop_header(ibb) is not None and pcfg.enclosing_loop_header(ibb) != pcfg.enclosing_loop_header(pbb)
        tv = strip(PR.arg(ibb, 1))
        ok = ok and any(c[1] == "depfile::read_path" for c in calls_in(tv))
    ck.ob("flatten", "parse|one-entry-per-target", ok, "depfile::parse pushes every read_path result of a rule into that rule's list and inserts (target, list) once per rule", span=pb.loc, fn=pb.nname)
    # blank lines / leading spacing between rules: read_path answers None at a newline (and at NUL), and None for the *target*
    # ends the parse, so the target read must never start at ' ' or '\n' -- the separator loop has consumed all of them
    if ok:
        from n2sa.byteclass import ByteClass
        bc = ByteClass(F, pb, pcfg)
        tsites = sorted({c[3] for c in calls_in(tv) if c[1] == "depfile::read_path"})
        det = {}
        for tb in tsites:
            poss = bc.possible_at(tb)
            det[tb] = None if poss is None else sorted(set((32, 10)) & poss)
        okb = bool(tsites) and not bc.capped and all(v == [] for v in det.values())
        ck.ob("flatten", "parse|blank-lines-skipped", okb, "on every path to the read_path that reads a rule's target the current byte is neither ' ' nor '\\n' (so its None means end of input, not a blank line): still possible there %s" % det, span=pb.loc, fn=pb.nname)
    # the target's ':' handling: strip_suffix(':') or expect(':')
    cs = [callee_of(t) for _, t in pb.calls()]
    exp = [(bb, t) for bb, t in pb.calls() if callee_of(t) == "scanner::Scanner::expect"]
    consts = sorted(PR.arg(bb, 1)[1] for bb, t in exp if PR.arg(bb, 1)[0] == "const")
    ck.ob("flatten", "parse|colon-and-eof", any(c.endswith("strip_suffix") for c in cs) and consts == [0, 58], "the target's trailing ':' is stripped or an explicit ':' is required, and parse ends with expect('\\0') (expect constants %s)" % consts, span=pb.loc, fn=pb.nname)
    # parse returns Ok only after expect('\0')
    e0 = [bb for bb, t in exp if PR.arg(bb, 1) == ("const", 0)]
    oks = C.ok_return_blocks(ctx, pb)
    ck.ob("flatten", "parse|ok-after-eof", bool(e0) and all(pcfg.dominates(e0[0], bb) for bb, s, e in oks), "depfile::parse returns Ok only after the whole input was consumed", span=pb.loc, fn=pb.nname)


def run(ck, ctx):
    # the depfile is consulted on every successful run of a step that declares one (also with deps = msvc): TaskResult.discovered_deps sources
    from . import C09 as R09
    R09.showincludes(ck, ctx)
    # ... and what was parsed becomes the step's list whatever its length (an empty depfile empties the list)
    R09.replace_on_success(ck, ctx)
    C.adapter_census(ck, ctx, "flatten", ("depfile::", "task::", "smallmap::"))
    missing_empty(ck, ctx)
    parse_error(ck, ctx)
    flatten(ck, ctx)
    S.nul_typestate(ck, ctx, ["depfile::parse"], rule="typestate")
    ck.extra.pop("typestate_raw_exits", None)
    S.scanner_axioms(ck, ctx, rule="scanner-axioms")
    S.inputs_nul_terminated(ck, ctx, rule="inputs")


def run_config(ck, ctx):
    S.nul_typestate(ck, ctx, ["depfile::parse"], rule="typestate")
    ck.extra.pop("typestate_raw_exits", None)
