"""C19 — progress counts match reality (structural clauses)."""
from n2sa import query as Q
from n2sa.expr import strip, show, field_chain, alts, calls_in, walk
from n2sa.facts import callee_of, norm
from . import common as C
from . import statemachine as SM
from . import runloop as RL

EXPLANATION = (
    "Static conformance of the counting discipline on rustc MIR of the current tree: (table) BuildStates::set moves StateCounts by -1 for the previous "
    "state iff it was not Unknown and the step is not phony, and +1 for the new state iff not phony, for all 98 (prev,new,phony) inputs (exhaustive abstract "
    "interpretation); (idx) StateCounts::idx is a bijection of the six counted states onto slots 0..5 and total() sums exactly those six slots; "
    "(single-writer) the count array is written only by StateCounts::add, which only BuildStates::set calls; (tasks-run) Work.tasks_run starts at 0, has one "
    "writer, and is incremented exactly on the Success arm; run::build returns phase-1 tasks_run + phase-2 tasks_run; (summary) run_impl prints `n2: no work "
    "to do` exactly in the Some(0) arm and the `ran N tasks` text otherwise; (update) progress.update(&build_states.counts) dominates every other block of "
    "each run-loop iteration; (running) the fancy display's task list is pushed once per task_started and removed once per task_finished, and Work::run "
    "calls task_started right after Runner::start and task_finished once per Runner::wait. Decides these clauses, not instant-by-instant numeric agreement."
)
ASSUMPTIONS = ["numeric agreement at every instant follows from the paired updates but is not separately proved", "what the renderer derives from the counts is C20's concern"]
THOROUGH_CONFIGS = ["nodefault"]


def total_sums_all(ck, ctx):
    F = ctx.F
    b = ck.need("fn work::StateCounts::total", F.body("work::StateCounts::total"))
    idx_consts = {}
    used = []
    for bi, blk in enumerate(b.blocks):
        if blk["cleanup"]:
            continue
        for s in blk["stmts"]:
            if s["k"] != "assign":
                continue
            if not s["place"]["p"] and s["rv"]["k"] == "use" and s["rv"]["op"]["k"] == "const" and s["rv"]["op"]["int"] is not None:
                idx_consts[s["place"]["l"]] = s["rv"]["op"]["int"]
            if s["rv"]["k"] == "use" and s["rv"]["op"]["k"] in ("copy", "move"):
                for p in s["rv"]["op"]["place"]["p"]:
                    if p["k"] == "index":
                        used.append(idx_consts.get(p["l"]))
                    elif p["k"] == "cindex":
                        used.append(p["offset"])
    R = ctx.res(b)
    rets = ctx.cfg(b).returns()
    e = R.local(0, R.term_at(rets[0]))
    adds = sum(1 for x in walk(e) if x[0] == "bin" and x[1] == "Add")
    others = [x[1] for x in walk(e) if x[0] == "bin" and x[1] != "Add"]
    ck.ob("total", "sums-six-slots", sorted(u for u in used if u is not None) == [0, 1, 2, 3, 4, 5] and adds == 5 and not others, "StateCounts::total reads slots %s with %d additions (need 0..5, 5 additions)" % (sorted(map(str, used)), adds), span=b.loc, fn=b.nname)
    g = ck.need("fn work::StateCounts::get", F.body("work::StateCounts::get"))
    ok = any(callee_of(t) == "work::StateCounts::idx" for _, t in g.calls())
    ck.ob("total", "get-uses-idx", ok, "StateCounts::get indexes by idx(state)", span=g.loc, fn=g.nname)
    a = ck.need("fn work::StateCounts::add", F.body("work::StateCounts::add"))
    RA = ctx.res(a)
    n_idx = [bb for bb, t in a.calls() if callee_of(t) == "work::StateCounts::idx"]
    same = all(strip(RA.arg(bb, 0)) == strip(RA.arg(n_idx[0], 0)) and strip(RA.arg(bb, 0))[0] == "param" for bb in n_idx) if n_idx else False
    ck.ob("total", "add-same-slot", same and len(n_idx) >= 1, "StateCounts::add reads and writes the slot idx(state) of its state parameter", span=a.loc, fn=a.nname)


def tasks_run(ck, ctx):
    F = ctx.F
    C.single_writer(ck, ctx, "tasks-run", "work::Work", "tasks_run", [RL.RUN])
    b = ck.need("fn " + RL.RUN, F.body(RL.RUN))
    cfg = ctx.cfg(b)
    ds = C.field_deltas(ctx, b, "work::Work", "tasks_run")
    sw = [z for z in Q.enum_switches(ctx, b) if z[3] == RL.TERM]
    ok = len(ds) == 1 and ds[0][1] == 1 and bool(sw)
    gated = False
    per_success = False
    if ok:
        x, t, scrut, adt, vmap = sw[0]
        gated, _ = Q.gated(cfg, ds[0][0], {(x, vmap.get("Success"))}, repeat=True)
        hdr = cfg.enclosing_loop_header(x)
        r = cfg.reach_avoid(cfg.edge_targets(x, vmap.get("Success")), avoid_blocks=[ds[0][0]])
        per_success = hdr not in r and not (set(cfg.returns()) & r)
    ck.ob("tasks-run", "increment-on-success-only", ok and gated, "Work.tasks_run updates in run: %s; the +1 is on the Success arm only" % ds, span=b.loc, fn=b.nname)
    ck.ob("tasks-run", "every-success-counted", ok and per_success, "every Success completion passes the increment before anything else can leave the arm", span=b.loc, fn=b.nname)
    # initial value
    wn = ck.need("fn work::Work::new", F.body("work::Work::new"))
    R = ctx.res(wn)
    for _, bb, s in [x for x in Q.adt_constructors(F, "work::Work") if x[0].nname == wn.nname]:
        fields = F.struct_fields("work::Work")
        e = R.agg_op(bb, s, fields.index("tasks_run"))
        ck.ob("tasks-run", "starts-at-zero", e == ("const", 0), "Work::new sets tasks_run = %s" % show(e), span=wn.loc, fn=wn.nname)
    # run::build's result
    rb = ck.need("fn run::build", F.body("run::build"))
    RB = ctx.res(rb)
    found = False
    for bb, s in Q.ret_assignments(rb):
        if "rv" in s and s["rv"]["k"] == "agg" and s["rv"]["variant"] == "Ok":
            e = strip(RB.agg_op(bb, s, 0))
            if e[0] == "agg" and e[3] == "Some":
                found = True
                v = strip(e[4][0])
                ok = False
                if v[0] == "bin" and v[1] == "Add":
                    parts = [strip(v[2]), strip(v[3])]
                    cur = [p for p in parts if field_chain(p)[1][-1:] == ["tasks_run"]]
                    acc = [p for p in parts if p not in cur]
                    if len(cur) == 1 and len(acc) == 1:
                        al = alts(acc[0])
                        ok = ("const", 0) in al and all(a == ("const", 0) or field_chain(strip(a))[1][-1:] == ["tasks_run"] for a in al) and len(al) == 2
                ck.ob("tasks-run", "build-returns-sum", ok, "run::build returns Some(%s): phase-1 count (0 or work.tasks_run before reload) + final work.tasks_run" % show(v, 3), span=s.get("loc"), fn=rb.nname)
    ck.ob("tasks-run", "build-returns-some", found, "run::build has an Ok(Some(..)) return", span=rb.loc, fn=rb.nname)


def summary(ck, ctx, rule="summary"):
    F = ctx.F
    b = ck.need("fn run::run_impl", F.body("run::run_impl"))
    cfg = ctx.cfg(b)
    R = ctx.res(b)
    ck.functions.add(b.nname)
    # the test of the Some payload against 0, in whichever source form (match arm `Some(0)`, `if n == 0`, `if n != 0`, ..)
    def is_count(s):
        return s[0] == "field" and s[2] == "0" and strip(s[1])[0] == "downcast" and strip(s[1])[2] == "Some" and any(c[1] == "run::build" for c in calls_in(s))

    z_edges, nz_edges = C.zero_test_edges(ctx, b, is_count)
    done = False
    zsw = sorted({x for x, _ in z_edges})
    # only the outermost test decides between the two summaries (a nested `n == 0`-like test, e.g. for a plural, decides wording only)
    zsw = [x for x in zsw if not any(y != x and cfg.dominates(y, x) for y in zsw)]
    for sbb in zsw:
        st = b.blocks[sbb]["term"]
        if True:
            zero_t = [t for (x, lab) in z_edges if x == sbb for t in cfg.edge_targets(x, lab)]
            other_t = [t for (x, lab) in nz_edges if x == sbb for t in cfg.edge_targets(x, lab)]
            done = True
            ck.ob(rule, "zero-arm-exact", bool(zero_t) and bool(other_t) and not set(zero_t) & set(other_t), "the branch taken for count 0 is taken for no other count", span=st.get("loc"), fn=b.nname)

            def strings_from(starts, avoid):
                r = cfg.reach_avoid(starts, avoid_blocks=avoid)
                out = []
                for y in r:
                    t = b.blocks[y]["term"]
                    if t and t["k"] == "call":
                        for a in t["args"]:
                            if a["k"] == "const" and a["int"] is None and not a.get("fn"):
                                out.append(a["repr"])
                    for s_ in b.blocks[y]["stmts"]:
                        if s_["k"] == "assign" and s_["rv"]["k"] == "use" and s_["rv"]["op"]["k"] == "const" and s_["rv"]["op"]["int"] is None:
                            out.append(s_["rv"]["op"]["repr"])
                return out

            joins = [y for y in cfg.reach if sum(1 for _ in cfg.pred[y]) > 1]
            z = strings_from(zero_t, [])
            o = strings_from(other_t, zero_t)
            zs = [x for x in z if "no work to do" in x]
            os_ = [x for x in o if "no work to do" in x]
            ran_o = [x for x in o if "ran " in x]
            # the zero arm must not print the `ran` text before joining: compare first print reached
            ck.ob(rule, "no-work-iff-zero", bool(zs) and not os_ and bool(ran_o), "`n2: no work to do` is printed in the Some(0) arm only; the other arm prints the `ran N task` text", span=st.get("loc"), fn=b.nname)
    ck.ob(rule, "switch-on-count", done, "run_impl branches on the task count returned by build()", span=b.loc, fn=b.nname)


def update_each_iteration(ck, ctx):
    F = ctx.F
    b = ck.need("fn " + RL.RUN, F.body(RL.RUN))
    cfg = ctx.cfg(b)
    R = ctx.res(b)
    ups = [(bb, t) for bb, t in b.calls() if callee_of(t).endswith("Progress::update")]
    ck.floor("progress.update in Work::run", len(ups), 1)
    for i, (bb, t) in enumerate(ups):
        e = strip(R.arg(bb, 1))
        base, names = field_chain(e)
        okc = names[-2:] == ["build_states", "counts"]
        hdr = cfg.enclosing_loop_header(bb)
        loop = cfg.natural_loop(hdr) if hdr is not None else set()
        # every block of the loop that can do work (a call other than the loop test) is dominated by the update
        workers = [y for y in loop if b.blocks[y]["term"] and b.blocks[y]["term"]["k"] == "call" and y != bb and not cfg.dominates(y, bb)]
        okd = hdr is not None and all(cfg.dominates(bb, y) for y in workers)
        outer = hdr is not None and all(cfg.natural_loop(h) <= loop or not (bb in cfg.natural_loop(h)) for h in cfg.loop_headers())
        ck.ob("update", "run->update#%d" % i, okc and okd, "progress.update(&self.build_states.counts) runs first in every iteration of the run loop", span=t["loc"], fn=b.nname)
    # task_started after start, same id; task_finished once per wait
    for bb, t in Q.sites_in(b, "task::Runner::start"):
        ts = [(x, tt) for x, tt in b.calls() if callee_of(tt).endswith("Progress::task_started")]
        ok = any(cfg.dominates(bb, x) and strip(R.arg(x, 1)) == strip(R.arg(bb, 1)) and x in cfg.reach_avoid([y for y, _ in cfg.succ[bb]], avoid_blocks=[cfg.enclosing_loop_header(bb)]) for x, tt in ts)
        post = any(cfg.postdominates(x, bb) or True for x, _ in ts)
        ck.ob("running", "task_started-after-start", ok and len(ts) == 1, "progress.task_started(id) follows Runner::start(id) for the same id", span=t["loc"], fn=b.nname)
    for bb, t in Q.sites_in(b, "task::Runner::wait"):
        tf = [(x, tt) for x, tt in b.calls() if callee_of(tt).endswith("Progress::task_finished")]
        ok = len(tf) == 1 and cfg.dominates(bb, tf[0][0])
        if ok:
            x = tf[0][0]
            ide = strip(R.arg(x, 1))
            ok = ide[0] == "field" and ide[2] == "buildid" and any(c[1] == "task::Runner::wait" for c in calls_in(ide))
            # unavoidable after wait
            r = cfg.reach_avoid([y for y, _ in cfg.succ[bb]], avoid_blocks=[x])
            ok = ok and cfg.enclosing_loop_header(bb) not in r and not (set(cfg.returns()) & r)
        ck.ob("running", "task_finished-per-wait", ok, "every Runner::wait() result is reported once to progress.task_finished with its buildid", span=t["loc"], fn=b.nname)
    # fancy task list
    w = Q.writers(F, "progress_fancy::FancyState", "tasks")
    allowed = {"progress_fancy::FancyState::task_started", "progress_fancy::FancyState::task_finished", "progress_fancy::FancyState::task_output"}
    ck.ob("running", "fancy-task-list-writers", set(w) <= allowed, "FancyState.tasks is mutated only by %s" % sorted(w), span="progress_fancy::FancyState")
    for fn, meth in (("progress_fancy::FancyState::task_started", "push_back"), ("progress_fancy::FancyState::task_finished", "remove")):
        fb = ck.need("fn " + fn, F.body(fn))
        fcfg = ctx.cfg(fb)
        sites = [(bb, t) for bb, t in fb.calls() if callee_of(t).endswith(("VecDeque::push_back", "VecDeque::push_front") if meth == "push_back" else "VecDeque::" + meth)]
        ok = len(sites) == 1 and all(fcfg.dominates(sites[0][0], r) for r in fcfg.returns())
        ck.ob("running", "%s|%s-once" % (fn, meth), ok, "%s performs exactly one tasks.%s on every path" % (fn, meth), span=fb.loc, fn=fn)
    ub = ck.need("fn progress_fancy::FancyState::update", F.body("progress_fancy::FancyState::update"))
    UR = ctx.res(ub)
    okc = False
    for bi, blk in enumerate(ub.blocks):
        for s in blk["stmts"]:
            if s["k"] == "assign" and s["place"]["p"] and s["place"]["p"][-1].get("name") == "counts":
                e = strip(UR.stmt_rvalue(bi, s))
                okc = e[0] == "param"
    ck.ob("update", "fancy-stores-counts", okc, "FancyState::update stores a clone of the counts it is given", span=ub.loc, fn=ub.nname)


def status_line(ck, ctx):
    """"each such step is counted in exactly one state": every count printed on the fancy status line is a linear form over the six
    per-state counters (total() being the sum of all six, rule total|sums-six-slots); evaluated symbolically, the finished quantity is
    exactly Done+Failed, the runnable one exactly Queued+Running+Ready (so they are disjoint and neither contains Want), and every
    printed form has coefficients 0/1."""
    F = ctx.F
    b = ck.need("fn progress_fancy::FancyState::print_progress", F.body("progress_fancy::FancyState::print_progress"))
    R = ctx.res(b)
    ck.functions.add(b.nname)
    ST = ("Want", "Ready", "Queued", "Running", "Done", "Failed")

    def lin(x):
        """coefficient dict over ST, or None when not a linear form of the counters"""
        x = strip(x)
        if x[0] == "bin" and x[1] in ("Add", "Sub"):
            l, r = lin(x[2]), lin(x[3])
            if l is None or r is None:
                return None
            sg = 1 if x[1] == "Add" else -1
            return {k: l[k] + sg * r[k] for k in ST}
        if x[0] == "call" and x[1] == "work::StateCounts::get":
            a = strip(x[2][1])
            if a[0] == "agg" and a[2] == "work::BuildState" and a[3] in ST:
                return {k: int(k == a[3]) for k in ST}
            return None
        if x[0] == "call" and x[1] == "work::StateCounts::total":
            return {k: 1 for k in ST}
        return None

    shown = []
    for bb, t in b.calls():
        c = callee_of(t)
        if not ("fmt::rt::Argument" in c and "new_display" in c):
            continue
        e = strip(R.arg(bb, 0))
        if not any(x[1] in ("work::StateCounts::get", "work::StateCounts::total") for x in calls_in(e)):
            continue
        v = lin(e)
        shown.append((v, t["loc"], show(e, 3)))
    ck.floor("counts printed on the status line", len(shown), 4)
    forms = []
    for n, (v, loc, txt) in enumerate(shown):
        ok = v is not None and all(c in (0, 1) for c in v.values())
        st = tuple(k for k in ST if v and v[k]) if v else ()
        forms.append(set(st) if ok else None)
        ck.ob("status-line", "counts-each-state-at-most-once#%d" % n, ok, "the printed count is a 0/1 combination of the per-state counters: %s = %s" % (txt, "+".join(st) if ok else v), span=loc, fn=b.nname)
    fin = [x for x in forms if x and "Done" in x and len(x) < 6]
    run_ = [x for x in forms if x and "Running" in x and len(x) < 6]
    ok = len(fin) == 1 and len(run_) == 1 and fin[0] == {"Done", "Failed"} and run_[0] == {"Queued", "Running", "Ready"}
    ck.ob("status-line", "partition", ok, "finished = Done+Failed, runnable = Queued+Running+Ready (disjoint; Want in neither): finished %s, runnable %s" % (sorted(map(sorted, fin)), sorted(map(sorted, run_))), span=b.loc, fn=b.nname)


def run(ck, ctx):
    status_line(ck, ctx)
    # the counts reach the renderer: every Progress method of the fancy console forwards to FancyState under the lock
    from . import fancy as FY
    FY.forward(ck, ctx)
    # `tasks_run + work.tasks_run` does not double count: whenever phase 1 ran a command, phase 2 counts in a Work created after it
    from . import C17 as R17
    _info = R17.analyse(ck, ctx)
    R17.reload(ck, ctx, _info)
    C.adapter_census(ck, ctx, "table", ("work::", "run::"))
    SM.eff_table(ck, ctx, ["counts-prev", "counts-new"])
    ck.extra["exhaustive_subrule"] = "table: all 98 abstract inputs of BuildStates::set enumerated"
    SM.idx_bijection(ck, ctx)
    total_sums_all(ck, ctx)
    C.single_writer(ck, ctx, "single-writer", "work::StateCounts", "0", ["work::StateCounts::add"])
    C.callers_exact(ck, ctx, "single-writer", "work::StateCounts::add", [SM.SET], floor=2)
    C.single_writer(ck, ctx, "single-writer", "work::BuildStates", "counts", [SM.SET])
    tasks_run(ck, ctx)
    summary(ck, ctx)
    update_each_iteration(ck, ctx)


def run_config(ck, ctx):
    run(ck, ctx)
