"""NUL-terminator typestate over extracted MIR (interprocedural, with callee summaries).

Ghost state of the scanner:  SAFE  (ofs < len: the byte under the cursor exists)
                             PAST  (a NUL was consumed and not given back: ofs == len)
                             PEND(sym)  the last read returned `sym` whose zero-ness is not yet known
Axioms (guarded by shape rules on scanner.rs, see rules/C12.py):
  read / peek  require SAFE;  read returning c != 0 => SAFE, c == 0 => PAST;  peek keeps SAFE
  back         => SAFE;       slice / parse_error / format_parse_error need nothing
Two precision devices: peek/read coupling (peek binds the symbol the next read returns) and
constant-argument calling contexts (expect(ch) / skip(ch) summarised per constant ch).
Everything is lattice values over the CFG; loops close by state equality; no execution.
"""
import collections

from .facts import callee_of, norm

READ = "scanner::Scanner::read"
PEEK = "scanner::Scanner::peek"
BACK = "scanner::Scanner::back"
NOOPS = {"scanner::Scanner::slice", "scanner::Scanner::parse_error", "scanner::Scanner::format_parse_error", "parse::Parser::format_parse_error"}
ALWAYS_ERR = {"scanner::Scanner::parse_error"}


class Recursion(Exception):
    pass


ADV_TOP = 4  # `>= 4` (inexact)
ADV_BOT = -3  # below this nothing is known


def adv_add(a, d):
    """a = (lo, exact); d = int or (lo, exact)"""
    if isinstance(d, tuple):
        lo, ex = a[0] + d[0], a[1] and d[1]
    else:
        lo, ex = a[0] + d, a[1]
    if lo >= ADV_TOP:
        return (ADV_TOP, False)
    if lo <= ADV_BOT:
        return (ADV_BOT, False)
    return (lo, ex)


def adv_cmp(op, a, b):
    """compare two offsets given as advances relative to the same origin; returns bool or None"""
    (la, ea), (lb, eb) = a, b
    if la <= ADV_BOT or lb <= ADV_BOT:
        return None
    if ea and eb:
        return {"Gt": la > lb, "Ge": la >= lb, "Lt": la < lb, "Le": la <= lb, "Eq": la == lb, "Ne": la != lb}[op]
    if eb and not ea:  # a >= la
        if op in ("Gt",) and la > lb:
            return True
        if op in ("Ge",) and la >= lb:
            return True
        if op in ("Le", "Lt", "Eq") and la > lb:
            return False
        if op == "Ne" and la > lb:
            return True
    if ea and not eb:  # b >= lb
        if op in ("Lt",) and lb > la:
            return True
        if op in ("Le",) and lb >= la:
            return True
        if op in ("Gt", "Ge", "Eq") and lb > la:
            return False
        if op == "Ne" and lb > la:
            return True
    return None


class St:
    __slots__ = ("ghost", "peeked", "nz", "vals", "nsym", "adv", "since", "ebuf", "snap")

    def __init__(s, ghost=("SAFE",), peeked=None, nz=None, vals=None, nsym=0, adv=(0, True), since=None, ebuf="U", snap=None):
        s.ghost = ghost
        s.peeked = peeked
        s.nz = dict(nz or {})
        s.vals = dict(vals or {})
        s.nsym = nsym
        s.adv = adv  # net bytes consumed since function entry: (lower bound, exact?)
        s.since = dict(since or {})  # loop header -> lower bound of net advance since its last visit
        s.ebuf = ebuf  # emptiness of the parser's scratch vector: E / N / U
        # offset snapshots: local -> (lo, hi, delta): the local holds `scanner.ofs as of the snapshot` + delta and the scanner has
        # moved by a net amount in [lo, hi] since (hi None = unbounded)
        s.snap = dict(snap or {})

    def copy(s):
        return St(s.ghost, s.peeked, s.nz, s.vals, s.nsym, s.adv, s.since, s.ebuf, s.snap)

    def move(s, d):
        s.adv = adv_add(s.adv, d)
        lo = d[0] if isinstance(d, tuple) else d
        for h in list(s.since):
            v = s.since[h] + lo
            s.since[h] = max(ADV_BOT, min(2, v))
        exact = not isinstance(d, tuple) or d[1]
        for l in list(s.snap):
            slo, shi, dl = s.snap[l]
            slo = max(-6, min(6, slo + lo))
            shi = None if shi is None or not exact or shi + lo > 6 else shi + lo
            s.snap[l] = (slo, shi, dl)

    def norm(s):
        if s.ghost[0] == "PEND":
            n = s.nz.get(s.ghost[1], "U")
            if n == "NZ":
                s.ghost = ("SAFE",)
            elif n == "Z":
                s.ghost = ("PAST",)
        return s

    def key(s):
        order = {}

        def ren(x):
            if isinstance(x, tuple) and x and x[0] == "sym":
                if x not in order:
                    order[x] = ("sym", len(order))
                return order[x]
            if isinstance(x, tuple):
                return tuple(ren(y) for y in x)
            return x

        g = ren(s.ghost)
        p = ren(s.peeked)
        items = tuple(sorted((k, ren(v)) for k, v in s.vals.items()))
        nz = tuple(sorted((order[k], v) for k, v in s.nz.items() if k in order))
        return (g, p, nz, items, s.adv, tuple(sorted(s.since.items())), s.ebuf, tuple(sorted(s.snap.items())))

    def fresh(s, nz="U"):
        s.nsym += 1
        sym = ("sym", s.nsym)
        s.nz[sym] = nz
        return sym


def _opval(st, op):
    if op["k"] in ("copy", "move"):
        pl = op["place"]
        if not pl["p"]:
            return st.vals.get(pl["l"])
        last = pl["p"][-1]
        if last["k"] == "field" and last.get("name") == "ofs" and norm(last.get("of", "")) == "scanner::Scanner":
            return ("ofs", st.adv)
        if len(pl["p"]) == 1 and last["k"] == "field":
            v = st.vals.get(pl["l"])
            if v and v[0] == "pair":
                return v[1] if (last.get("name") or str(last.get("i"))) == "0" else ("bool", False)
        if len(pl["p"]) == 2 and pl["p"][0]["k"] == "downcast" and last["k"] == "field":
            v = st.vals.get(pl["l"])
            if v and v[0] in ("res", "cf") and len(v) > 2 and v[1] == pl["p"][0]["variant"]:
                return v[2]
        return None
    if op["k"] == "const" and op["int"] is not None:
        ty = op["ty"]["s"]
        if ty == "char":
            return ("cchar", op["int"])
        if ty == "bool":
            return ("bool", bool(op["int"]))
        return ("int", op["int"])
    return None


def _is_ofs_place(pl):
    last = pl["p"][-1] if pl["p"] else None
    return bool(last) and last["k"] == "field" and last.get("name") == "ofs" and norm(last.get("of", "")) == "scanner::Scanner"


def _snap_of_operand(st, op):
    """(lo, hi, delta) describing an operand as `scanner offset at some earlier moment + delta`, or None"""
    if op["k"] not in ("copy", "move"):
        return None
    pl = op["place"]
    if not pl["p"]:
        return st.snap.get(pl["l"])
    if _is_ofs_place(pl):
        return (0, 0, 0)
    # `.0` of a checked-arithmetic pair held in a local
    if len(pl["p"]) == 1 and pl["p"][0]["k"] == "field" and (pl["p"][0].get("name") or str(pl["p"][0].get("i"))) == "0":
        return st.snap.get(pl["l"])
    return None


def _snap_of_rvalue(st, rv):
    if rv["k"] in ("use", "cast"):
        return _snap_of_operand(st, rv["op"])
    if rv["k"] == "bin" and rv["op"] in ("Add", "Sub", "AddWithOverflow", "SubWithOverflow"):
        a, b = rv["a"], rv["b"]
        sa = _snap_of_operand(st, a)
        if sa is not None and b["k"] == "const" and b.get("int") is not None:
            d = b["int"] if rv["op"].startswith("Add") else -b["int"]
            return (sa[0], sa[1], sa[2] + d)
    return None


def _set(st, place, val):
    if place["p"]:
        return
    if val is None:
        st.vals.pop(place["l"], None)
    else:
        st.vals[place["l"]] = val


def _refine(st, pred, truth):
    if pred[0] == "not":
        return _refine(st, pred[1], not truth)
    if pred[0] != "pred":
        return True
    _, kind, sym, K = pred
    cur = st.nz.get(sym, "U")

    def setnz(v):
        if cur != "U" and cur != v:
            return False
        st.nz[sym] = v
        return True

    if kind == "ge_c":
        if truth and K > 0:
            return setnz("NZ")
    elif kind == "le_c":
        if not truth:
            return setnz("NZ")
        if truth and K == 0:
            return setnz("Z")
    elif kind == "eq":
        if truth:
            return setnz("NZ" if K != 0 else "Z")
        if not truth and K == 0:
            return setnz("NZ")
    elif kind == "ne":
        if not truth:
            return setnz("NZ" if K != 0 else "Z")
        if truth and K == 0:
            return setnz("NZ")
    return True


def _mkpred(op, a, b):
    if a and b and a[0] == "ofs" and b[0] == "ofs" and op in ("Gt", "Ge", "Lt", "Le", "Eq", "Ne"):
        r = adv_cmp(op, a[1], b[1])
        return ("bool", r) if r is not None else None
    if a and b and a[0] == "ofs" and b[0] == "int" and op in ("Sub", "SubWithOverflow", "Add", "AddWithOverflow"):
        v = ("ofs", adv_add(a[1], b[1] if op.startswith("Add") else -b[1]))
        return ("pair", v) if op.endswith("Overflow") else v

    def symk(x, y):
        return x is not None and y is not None and x[0] == "char" and y[0] == "cchar"

    if a and b and a[0] == "cchar" and b[0] == "cchar" and op in ("Le", "Lt", "Ge", "Gt", "Eq", "Ne"):
        x, y = a[1], b[1]
        return ("bool", {"Le": x <= y, "Lt": x < y, "Ge": x >= y, "Gt": x > y, "Eq": x == y, "Ne": x != y}[op])
    if op == "Le":
        if symk(b, a):
            return ("pred", "ge_c", b[1], a[1])
        if symk(a, b):
            return ("pred", "le_c", a[1], b[1])
    if op == "Ge":
        if symk(a, b):
            return ("pred", "ge_c", a[1], b[1])
        if symk(b, a):
            return ("pred", "le_c", b[1], a[1])
    if op == "Lt":
        if symk(a, b) and b[1] > 0:
            return ("pred", "le_c", a[1], b[1] - 1)
        if symk(b, a):
            return ("pred", "ge_c", b[1], a[1] + 1)
    if op == "Gt":
        if symk(a, b):
            return ("pred", "ge_c", a[1], b[1] + 1)
        if symk(b, a) and a[1] > 0:
            return ("pred", "le_c", b[1], a[1] - 1)
    if op in ("Eq", "Ne"):
        kind = "eq" if op == "Eq" else "ne"
        if symk(a, b):
            return ("pred", kind, a[1], b[1])
        if symk(b, a):
            return ("pred", kind, b[1], a[1])
    return None


class Typestate:
    def __init__(self, F, scanner_types=("scanner::Scanner", "parse::Parser")):
        self.F = F
        self.scanner_types = scanner_types
        self.memo = {}
        self.stack = []  # frames: [fname, entry_ghost, current call-site key]
        self.viol = collections.OrderedDict()
        self.sites = 0
        self.site_keys = set()
        self.noadv = collections.OrderedDict()  # (fn, loop ordinal) -> info: a cycle that may not consume input
        self.slices = collections.OrderedDict()  # site key -> {ok, why}: ordering of the two offsets handed to Scanner::slice
        self.loops_checked = set()
        self._loops = {}

    def is_scanner_fn(self, name):
        b = self.F.bodies.get(name)
        if not b or b.kind == "promoted":
            return False
        for t in b.locals[1 : 1 + b.argc]:
            if norm(t["adt"] or "") in self.scanner_types and t["s"].startswith("&mut"):
                return True
        return False

    def _site_key(self, body, bb, callee):
        k = 0
        for x, t in body.calls():
            if callee_of(t) == callee:
                if x == bb:
                    break
                k += 1
        return "%s->%s#%d" % (body.nname, callee, k)

    def _violation(self, body, bb, callee, what, ghost, loc):
        # attribute to the innermost frame that was entered SAFE (where the discipline was broken)
        frame = None
        for f in reversed(self.stack):
            if f[1] == "SAFE":
                frame = f
                break
        if frame is None:
            frame = self.stack[0]
        if frame[0] == body.nname:
            key = self._site_key(body, bb, callee)
        else:
            key = frame[2]
        chain = [f[0] for f in self.stack]
        self.viol.setdefault(key, dict(key=key, what=what, ghost=ghost, loc=loc if frame[0] == body.nname else frame[3], deepest="%s -> %s @%s" % (body.nname, callee, loc), chain=chain))

    def loops_of(self, fname):
        r = self._loops.get(fname)
        if r is None:
            from .cfg import CFG

            c = CFG(self.F.bodies[fname])
            hs = c.loop_headers()
            r = self._loops[fname] = (hs, {h: c.natural_loop(h) for h in hs})
        return r

    def analyze(self, fname, entry_ghost="SAFE", entry_peek_nz=None, const_args=()):
        mk = (fname, entry_ghost, entry_peek_nz, const_args)
        if mk in self.memo:
            return self.memo[mk]
        if any(f[4] == mk for f in self.stack):
            raise Recursion(fname)
        body = self.F.bodies[fname]
        frame = [fname, entry_ghost, None, None, mk]
        self.stack.append(frame)
        st0 = St()
        st0.ghost = (entry_ghost,) if entry_ghost != "PENDX" else ("PEND", st0.fresh("U"))
        if entry_peek_nz is not None:
            st0.peeked = st0.fresh(entry_peek_nz)
        for i, c in enumerate(const_args):
            if c is not None:
                st0.vals[i + 1] = c
        exits = set()
        seen = set()
        work = [(0, st0)]
        while work:
            bb, st = work.pop()
            st.norm()
            k = (bb, st.key())
            if k in seen:
                continue
            seen.add(k)
            blk = body.blocks[bb]
            st = st.copy()
            hs, nat = self.loops_of(fname)
            for h in list(st.since):
                if bb not in nat[h]:
                    del st.since[h]
            if bb in nat:
                self.loops_checked.add((fname, hs.index(bb)))
                if bb in st.since and st.since[bb] < 1:
                    key = "%s|loop#%d" % (fname, hs.index(bb))
                    self.noadv.setdefault(key, dict(key=key, fn=fname, header=bb, lb=st.since[bb], chain=[f[0] for f in self.stack], loc=body.blocks[bb]["term"].get("loc") if body.blocks[bb]["term"] else body.loc))
                st.since[bb] = 0
            for s in blk["stmts"]:
                if s["k"] == "dead":
                    st.vals.pop(s["l"], None)
                    st.snap.pop(s["l"], None)
                elif s["k"] == "assign":
                    rv = s["rv"]
                    val = None
                    if not s["place"]["p"]:
                        sn = _snap_of_rvalue(st, rv)
                        if sn is None:
                            st.snap.pop(s["place"]["l"], None)
                        else:
                            st.snap[s["place"]["l"]] = sn
                    if rv["k"] == "use":
                        val = _opval(st, rv["op"])
                    elif rv["k"] == "bin":
                        val = _mkpred(rv["op"], _opval(st, rv["a"]), _opval(st, rv["b"]))
                    elif rv["k"] == "un" and rv["op"] == "Not":
                        a = _opval(st, rv["a"])
                        if a and a[0] == "bool":
                            val = ("bool", not a[1])
                        elif a and a[0] in ("pred", "not"):
                            val = ("not", a)
                    elif rv["k"] == "discr":
                        pl = rv["place"]
                        if not pl["p"]:
                            v = st.vals.get(pl["l"])
                            if v and v[0] == "res":
                                val = ("int", 0 if v[1] == "Ok" else 1)
                            elif v and v[0] == "cf":
                                val = ("int", 0 if v[1] == "Continue" else 1)
                            elif v and v[0] == "opt":
                                val = ("int", 0 if v[1] == "None" else 1)
                    elif rv["k"] == "agg" and rv["ak"] == "adt" and norm(rv["name"]) == "std::result::Result":
                        pay = _opval(st, rv["ops"][0]) if rv["ops"] else None
                        val = ("res", rv["variant"], pay) if pay and pay[0] == "opt" else ("res", rv["variant"])
                    elif rv["k"] == "agg" and rv["ak"] == "adt" and norm(rv["name"]) == "std::option::Option":
                        val = ("opt", rv["variant"])
                    elif rv["k"] == "cast":
                        val = _opval(st, rv["op"])
                    _set(st, s["place"], val)
            t = blk["term"]

            def go(target, st2):
                work.append((target, st2))

            if t is None or t["k"] in ("unreachable", "resume"):
                continue
            tk = t["k"]
            if tk in ("goto", "drop", "assert"):
                go(t["target"], st)
            elif tk == "return":
                g = st.ghost[0]
                if g == "PEND":
                    g = "PENDX"
                rv = st.vals.get(0)
                if rv is not None and rv[0] not in ("res", "bool", "opt"):
                    rv = None
                at_nul = st.peeked is not None and st.nz.get(st.peeked) == "Z"
                exits.add((g, rv, st.adv, at_nul))
            elif tk == "switch":
                self._switch(st, t, go)
            elif tk == "call":
                self._call(body, bb, st, t, go, frame)
        self.stack.pop()
        self.memo[mk] = frozenset(exits)
        return self.memo[mk]

    def _switch(self, st, t, go):
        d = _opval(st, t["discr"])
        arms = t["arms"]
        other = t["otherwise"]
        if d and d[0] in ("int", "cchar"):
            tgt = other
            for v, b in arms:
                if v == d[1]:
                    tgt = b
            go(tgt, st)
        elif d and d[0] == "bool":
            tgt = other
            for v, b in arms:
                if v == int(d[1]):
                    tgt = b
            go(tgt, st)
        elif d and d[0] in ("pred", "not"):
            for v, b in arms:
                s2 = st.copy()
                if _refine(s2, d, bool(v)):
                    go(b, s2)
            s2 = st.copy()
            # `otherwise` is the complement of the listed bool values
            listed = {v for v, _ in arms}
            other_truth = (1 not in listed) if 0 in listed else False
            if _refine(s2, d, other_truth):
                go(other, s2)
        elif d and d[0] == "char":
            sym = d[1]
            cur = st.nz.get(sym, "U")
            vals = [v for v, _ in arms]
            for v, b in arms:
                want = "Z" if v == 0 else "NZ"
                if cur != "U" and cur != want:
                    continue
                s2 = st.copy()
                s2.nz[sym] = want
                go(b, s2)
            s2 = st.copy()
            if 0 in vals:
                if cur != "Z":
                    s2.nz[sym] = "NZ"
                    go(other, s2)
            else:
                go(other, s2)
        else:
            for v, b in arms:
                go(b, st.copy())
            go(other, st.copy())

    def _call(self, body, bb, st, t, go, frame):
        callee = callee_of(t)
        dest = t["dest"]
        tgt = t["target"]
        if tgt < 0:
            return
        frame[2] = self._site_key(body, bb, callee)
        frame[3] = t["loc"]

        def need_safe(what):
            self.sites += 1
            self.site_keys.add((body.nname, bb, self.stack[-1][4][1:]))
            g = st.ghost
            if g[0] in ("PAST", "PEND"):
                self._violation(body, bb, callee, what, g[0], t["loc"])

        if callee == READ:
            need_safe("read")
            s2 = st.copy()
            sym = s2.peeked if s2.peeked is not None else s2.fresh()
            s2.peeked = None
            s2.ghost = ("PEND", sym)
            s2.move(1)
            _set(s2, dest, ("char", sym))
            go(tgt, s2)
        elif callee == PEEK:
            need_safe("peek")
            s2 = st.copy()
            if s2.ghost[0] != "SAFE":
                s2.ghost = ("SAFE",)
            sym = s2.peeked if s2.peeked is not None else s2.fresh()
            s2.peeked = sym
            _set(s2, dest, ("char", sym))
            go(tgt, s2)
        elif callee == BACK:
            s2 = st.copy()
            s2.ghost = ("SAFE",)
            s2.peeked = None
            s2.move(-1)
            _set(s2, dest, None)
            go(tgt, s2)
        elif callee in NOOPS:
            if callee == "scanner::Scanner::slice" and len(t["args"]) == 3:
                self._slice_check(body, bb, st, t)
            s2 = st.copy()
            _set(s2, dest, ("res", "Err") if callee in ALWAYS_ERR else None)
            go(tgt, s2)
        elif callee.endswith("::branch") and "Try" in callee:
            s2 = st.copy()
            a = _opval(st, t["args"][0])
            _set(s2, dest, (("cf", "Continue" if a[1] == "Ok" else "Break") + tuple(a[2:3])) if a and a[0] == "res" else None)
            go(tgt, s2)
        elif "FromResidual" in callee:
            s2 = st.copy()
            _set(s2, dest, ("res", "Err"))
            go(tgt, s2)
        elif self.is_scanner_fn(callee):
            g = st.ghost[0]
            if g == "PEND":
                g = "PENDX"
            pk = st.nz.get(st.peeked, "U") if st.peeked is not None else None
            cargs = []
            for a in t["args"]:
                v = _opval(st, a)
                cargs.append(v if v and v[0] in ("cchar", "bool") else None)
            for g2, rv, cadv, _nul in self.analyze(callee, g, pk, tuple(cargs)):
                s2 = st.copy()
                s2.peeked = None
                s2.ghost = (g2,) if g2 != "PENDX" else ("PEND", s2.fresh("U"))
                s2.move(cadv)
                _set(s2, dest, rv)
                go(tgt, s2)
        elif callee.startswith("std::vec::Vec::") and callee.split("::")[-1] in ("clear", "push", "is_empty") and self._is_scratch(body, bb, t):
            s2 = st.copy()
            m = callee.split("::")[-1]
            if m == "clear":
                s2.ebuf = "E"
                _set(s2, dest, None)
            elif m == "push":
                s2.ebuf = "N"
                _set(s2, dest, None)
            else:
                _set(s2, dest, ("bool", s2.ebuf == "E") if s2.ebuf in ("E", "N") else None)
            go(tgt, s2)
        else:
            s2 = st.copy()
            _set(s2, dest, None)
            go(tgt, s2)

    def _slice_check(self, body, bb, st, t):
        """Scanner::slice(start, end) slices unchecked: on this path start <= end must follow from how the two offsets were obtained"""
        a, b = t["args"][1], t["args"][2]
        key = self._site_key(body, bb, "scanner::Scanner::slice")
        verdict = None
        if a["k"] == "const" and b["k"] == "const" and a.get("int") is not None and b.get("int") is not None:
            verdict = a["int"] <= b["int"]
            why = "constants %d..%d" % (a["int"], b["int"])
        else:
            sa, sb = _snap_of_operand(st, a), _snap_of_operand(st, b)
            if sa is None or sb is None:
                verdict, why = False, "an offset of unknown origin (start %s, end %s)" % ("known" if sa else "unknown", "known" if sb else "unknown")
            elif sb[1] is None:
                verdict, why = False, "the end offset is an old snapshot with unbounded movement since"
            else:
                # position relative to now: start <= delta_a - lo_a ; end >= delta_b - hi_b
                verdict = (sa[2] - sa[0]) <= (sb[2] - sb[1])
                why = "start <= now%+d, end >= now%+d" % (sa[2] - sa[0], sb[2] - sb[1])
        rec = self.slices.setdefault(key, dict(key=key, fn=body.nname, ok=True, why=[], loc=t["loc"]))
        if not verdict:
            rec["ok"] = False
        if why not in rec["why"]:
            rec["why"].append(why)

    def _is_scratch(self, body, bb, t):
        """receiver is `&[mut] (*self).eval_buf` built in this block"""
        a = t["args"][0]
        if a["k"] not in ("copy", "move") or a["place"]["p"]:
            return False
        l = a["place"]["l"]
        for s in body.blocks[bb]["stmts"]:
            if s["k"] == "assign" and not s["place"]["p"] and s["place"]["l"] == l and s["rv"]["k"] == "ref":
                ps = [p for p in s["rv"]["place"]["p"] if p["k"] == "field"]
                return bool(ps) and ps[-1].get("name") == "eval_buf"
        return False
