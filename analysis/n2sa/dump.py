"""Human-readable dump of extracted MIR (debug aid; also used in replay files)."""
from .facts import place_str, op_str, callee_of, norm


def rv_str(body, rv):
    k = rv["k"]
    if k == "use":
        return op_str(body, rv["op"])
    if k == "ref":
        return ("&mut " if rv["mut"] else "&") + place_str(body, rv["place"])
    if k == "rawptr":
        return "&raw " + place_str(body, rv["place"])
    if k == "cast":
        return "%s as %s (%s)" % (op_str(body, rv["op"]), rv["to"]["s"], rv["ck"])
    if k == "bin":
        return "%s(%s, %s)" % (rv["op"], op_str(body, rv["a"]), op_str(body, rv["b"]))
    if k == "un":
        return "%s(%s)" % (rv["op"], op_str(body, rv["a"]))
    if k == "discr":
        return "discriminant(%s)" % place_str(body, rv["place"])
    if k == "agg":
        nm = rv["name"] + ("::" + rv["variant"] if rv["variant"] else "")
        return "%s %s{%s}" % (rv["ak"], nm, ", ".join(op_str(body, o) for o in rv["ops"]))
    return rv.get("d", "?")


def stmt_str(body, s):
    if s["k"] == "assign":
        return "%s = %s" % (place_str(body, s["place"]), rv_str(body, s["rv"]))
    if s["k"] == "setdiscr":
        return "discriminant(%s) = %d" % (place_str(body, s["place"]), s["vi"])
    if s["k"] == "dead":
        return "StorageDead(_%d)" % s["l"]
    return "?"


def term_str(body, t):
    if t is None:
        return "<none>"
    k = t["k"]
    if k == "goto":
        return "goto bb%d" % t["target"]
    if k == "switch":
        return "switchInt(%s) [%s, otherwise: bb%d]" % (
            op_str(body, t["discr"]),
            ", ".join("%s: bb%d" % (v, b) for v, b in t["arms"]),
            t["otherwise"],
        )
    if k == "call":
        return "%s = %s(%s) -> bb%d   @%s" % (
            place_str(body, t["dest"]),
            callee_of(t),
            ", ".join(op_str(body, a) for a in t["args"]),
            t["target"],
            t["loc"],
        )
    if k == "assert":
        return "assert(%s == %s, %s) -> bb%d" % (op_str(body, t["cond"]), t["expected"], t["msg"], t["target"])
    if k == "drop":
        return "drop(%s) -> bb%d" % (place_str(body, t["place"]), t["target"])
    return k


def dump_body(body, out=None):
    lines = []
    lines.append("fn %s  [%s] @%s argc=%d" % (body.nname, body.kind, body.loc, body.argc))
    for i, l in enumerate(body.locals):
        lines.append("    let _%d%s: %s" % (i, " (%s)" % body.names[i] if i in body.names else "", l["s"]))
    for i, b in enumerate(body.blocks):
        if b["cleanup"]:
            continue
        lines.append("  bb%d:" % i)
        for s in b["stmts"]:
            if s["k"] == "dead":
                continue
            lines.append("      " + stmt_str(body, s))
        lines.append("      " + term_str(body, b["term"]))
    return "\n".join(lines)
