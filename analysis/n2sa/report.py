"""Obligation bookkeeping, known-findings protocol, evidence and replay files."""
import hashlib
import json
import os
import sys
import time

from .facts import VERIF

EVIDENCE_DIR = os.environ.get("N2SA_EVIDENCE_DIR") or os.path.join(VERIF, "evidence")
REPLAY_DIR = os.path.join(EVIDENCE_DIR, "replay")
KNOWN = os.path.join(VERIF, "known_findings.json")


class AnchorMissing(Exception):
    pass


def load_known():
    try:
        j = json.load(open(KNOWN))
    except FileNotFoundError:
        return {}
    r = {}
    for e in j.get("findings", []):
        if e.get("status") == "open":
            r[(e["property"], e["key"])] = e
    return r


class Check:
    """One run of one property's rules.

    ob(rule, key, ok, ...) registers a rule instance (an obligation).  Keys are built from def
    paths and ordinals, never from line numbers.  A failing obligation whose exact
    (property, key) is listed as open in known_findings.json prints KNOWN-FINDING and does not
    fail the check; any other failing obligation is a VIOLATION.
    """

    def __init__(self, pid, tier="quick", seed=0, explanation=""):
        self.pid = pid
        self.tier = tier
        self.seed = seed
        self.t0 = time.time()
        self.explanation = explanation
        self.obs = []  # dicts
        self.floors = []
        self.controls = []
        self.functions = set()
        self.configs = []
        self.notes = []
        self.extra = {}
        self.known = load_known()
        self.mutants = None
        self.assumptions = []

    # -- registering -----------------------------------------------------------------------------
    def ob(self, rule, key, ok, detail="", span=None, path=None, nontrivial=True, fn=None, config=None):
        full = "%s.%s|%s" % (self.pid, rule, key)
        if config and config != "default":
            full_cfg = full + "@" + config
        else:
            full_cfg = full
        self.obs.append(
            dict(rule=rule, key=full, cfgkey=full_cfg, ok=bool(ok), detail=detail, span=span, path=path, nontrivial=nontrivial, config=config or "default")
        )
        if fn:
            self.functions.add(fn)
        return bool(ok)

    def floor(self, what, observed, expected_min, exact=False):
        ok = observed == expected_min if exact else observed >= expected_min
        self.floors.append(dict(what=what, observed=observed, expected=("== " if exact else ">= ") + str(expected_min), ok=ok))
        if not ok:
            self.ob("floor", what, False, "instance count %d, confirmed-by-hand floor %s%d: anchor missing / renamed" % (observed, "==" if exact else ">=", expected_min), nontrivial=False)
        return ok

    def need(self, what, obj):
        """fail closed when an anchor (function, field, type) is missing"""
        if obj is None or obj == [] or obj == ():
            self.ob("anchor", what, False, "anchor-missing: %s" % what, nontrivial=False)
            raise AnchorMissing(what)
        return obj

    def control(self, family, fired, expected):
        ok = fired == expected
        self.controls.append(dict(family=family, fired=fired, expected=expected, ok=ok))
        if not ok:
            self.ob("control", family, False, "positive/negative control mismatch for rule family %s: fired %r expected %r" % (family, fired, expected), nontrivial=False)

    def note(self, s):
        self.notes.append(s)

    # -- finishing -------------------------------------------------------------------------------
    def finish(self):
        os.makedirs(REPLAY_DIR, exist_ok=True)
        viol = []
        known_hit = []
        seen = set()
        for o in self.obs:
            if o["ok"]:
                continue
            if o["cfgkey"] in seen:
                continue
            seen.add(o["cfgkey"])
            kf = self.known.get((self.pid, o["key"]))
            if kf is not None:
                known_hit.append((o, kf))
            else:
                viol.append(o)
        for o, kf in known_hit:
            print("KNOWN-FINDING: property=%s %s %s" % (self.pid, o["key"], kf.get("what", "")))
        for o in viol:
            h = hashlib.sha1(o["cfgkey"].encode()).hexdigest()[:12]
            path = os.path.join(REPLAY_DIR, "%s-%s.json" % (self.pid, h))
            json.dump(
                dict(property=self.pid, rule=o["rule"], key=o["key"], config=o["config"], construct=o["span"], detail=o["detail"], path=o["path"], tier=self.tier),
                open(path, "w"),
                indent=1,
            )
            print("VIOLATION property=%s replay=%s" % (self.pid, path))
            print("  rule %s  instance %s" % (o["rule"], o["key"]))
            print("  at %s: %s" % (o["span"], o["detail"]))
            if o["path"]:
                for p in o["path"][:12]:
                    print("    | %s" % (p,))
        n = len(self.obs)
        ok_n = sum(1 for o in self.obs if o["ok"])
        nontriv = len({o["cfgkey"] for o in self.obs if o["nontrivial"]})
        samples = []
        # failing first, then a deterministic spread
        picked = [o for o in self.obs if not o["ok"]][:4]
        rest = [o for o in self.obs if o["ok"] and o["nontrivial"]]
        if rest:
            step = max(1, len(rest) // 8)
            off = self.seed % step if step else 0
            picked += rest[off::step][:8]
        for o in picked:
            samples.append(dict(key=o["cfgkey"], rule=o["rule"], verdict="holds" if o["ok"] else "fails", at=o["span"], detail=o["detail"][:300], path=(o["path"] or [])[:6]))
        ev = dict(
            property_id=self.pid,
            tier=self.tier,
            seed=self.seed,
            level="other",
            coverage=dict(
                explanation=self.explanation,
                obligations=n,
                discharged=ok_n,
                evaluations=n,
                distinct_nontrivial=nontriv,
                rule="one evaluation = one rule instance (obligation) decided on the MIR of /repo's current tree; non-trivial = the verdict depended on at least one analysed site (floors, anchors and controls are counted as trivial)",
                samples=samples,
                exhaustive=False,
                functions_analysed=sorted(self.functions),
                configs=self.configs,
                floors=self.floors,
                positive_controls=self.controls,
                known_findings=[o["key"] for o, _ in known_hit],
                rules=sorted({o["rule"] for o in self.obs}),
                notes=self.notes,
                checker_cmd="./check %s --tier %s" % (self.pid, self.tier),
                trusted_base=[
                    "rustc nightly MIR construction and callee resolution",
                    "extractor engine/n2facts (cross-checked on fixtures)",
                    "std semantics named in DESIGN.md 2.8",
                ],
            ),
            assumptions=self.assumptions,
            wall_s=round(time.time() - self.t0, 3),
            violations=len(viol),
        )
        if self.mutants is not None:
            ev["coverage"]["mutants"] = self.mutants
        ev["coverage"].update(self.extra)
        os.makedirs(EVIDENCE_DIR, exist_ok=True)
        json.dump(ev, open(os.path.join(EVIDENCE_DIR, "%s.json" % self.pid), "w"), indent=1)
        print(
            "%s [%s]: %d obligations, %d discharged, %d known findings, %d violations, %d functions, %.1fs"
            % (self.pid, self.tier, n, ok_n, len(known_hit), len(viol), len(self.functions), time.time() - self.t0)
        )
        sys.stdout.flush()
        return 1 if viol else 0
