"""Path-sensitive "which byte can the scanner be looking at here" analysis for lexer loops.

A forward abstract interpretation over one function's CFG (helper-inlined view).  The abstract state is
  cur   : the set of byte values the scanner's current position may hold (256-bit set, ALL when unknown)
  alias : locals that hold the value of the current byte (results of Scanner::peek not yet invalidated)
  bools : boolean locals with a known value on this path (matches! flags, results of Scanner::skip)
Transfer functions:
  x = peek()            x becomes an alias of cur
  b = skip(c)           forks: b=true -> the scanner advanced (cur = ALL, aliases dropped); b=false -> cur -= {c}
  any other call that receives the scanner                cur = ALL, aliases dropped
  switchInt(alias)      arm v: cur &= {v};  otherwise: cur -= arms;  empty cur prunes the path
  b = const bool / switchInt(b) with b known              only the matching edge is followed
States are kept as a set per block (disjunctive); the domain is finite so the worklist terminates.
`possible_at(bb)` is the union of cur over all states reaching the call terminator of bb.
No input is ever run: the result is a property of the code's shape for every input."""
from .facts import callee_of

ALL = frozenset(range(256))
PEEK = ("scanner::Scanner::peek",)
SKIP = ("scanner::Scanner::skip",)


def _mentions_scanner(t):
    for a in t["args"]:
        if a["k"] in ("copy", "move") and "Scanner" in (a["place"].get("ty") or {}).get("s", ""):
            return True
    return False


class ByteClass:
    def __init__(self, F, body, cfg, entry_cur=ALL, cap=4096):
        self.F, self.b, self.cfg = F, body, cfg
        self.at_term = {}      # bb -> set of states on reaching the terminator
        self.capped = False
        self._run(entry_cur, cap)

    def possible_at(self, bb):
        sts = self.at_term.get(bb)
        if sts is None:
            return None
        r = frozenset()
        for cur, _, _ in sts:
            r |= cur
        return r

    # state = (cur frozenset, aliases frozenset, bools tuple(sorted))
    def _run(self, entry_cur, cap):
        b = self.b
        start = (frozenset(entry_cur), frozenset(), ())
        seen = {0: {start}}
        work = [(0, start)]
        n = 0
        while work:
            bi, st = work.pop()
            n += 1
            if n > cap * 8:
                self.capped = True
                break
            blk = b.blocks[bi]
            if blk["cleanup"]:
                continue
            cur, al, bools = st
            bd = dict(bools)
            al = set(al)
            for s in blk["stmts"]:
                if s["k"] == "dead":
                    bd.pop(s["l"], None)
                    al.discard(s["l"])
                elif s["k"] == "assign":
                    pl = s["place"]
                    if pl["p"]:
                        continue
                    l = pl["l"]
                    rv = s["rv"]
                    bd.pop(l, None)
                    al.discard(l)
                    if rv["k"] == "use":
                        o = rv["op"]
                        if o["k"] == "const" and o["ty"]["s"] == "bool" and o.get("int") is not None:
                            bd[l] = bool(o["int"])
                        elif o["k"] in ("copy", "move") and not o["place"]["p"]:
                            src = o["place"]["l"]
                            if src in bd:
                                bd[l] = bd[src]
                            if src in al:
                                al.add(l)
                    elif rv["k"] == "un" and rv.get("op") == "Not":
                        o = rv.get("a")
                        if o and o["k"] in ("copy", "move") and not o["place"]["p"] and o["place"]["l"] in bd:
                            bd[l] = not bd[o["place"]["l"]]
            self.at_term.setdefault(bi, set()).add((cur, frozenset(al), tuple(sorted(bd.items()))))
            t = blk["term"]
            outs = []
            k = t["k"] if t else None
            if k in ("goto", "drop", "assert"):
                outs.append((t["target"], cur, al, bd))
            elif k == "call":
                if t["target"] >= 0:
                    c = callee_of(t)
                    d = t["dest"]["l"] if not t["dest"]["p"] else None
                    bd2 = dict(bd)
                    al2 = set(al)
                    if d is not None:
                        bd2.pop(d, None)
                        al2.discard(d)
                    if c in PEEK:
                        if d is not None:
                            al2.add(d)
                        outs.append((t["target"], cur, al2, bd2))
                    elif c in SKIP and t["args"][1]["k"] == "const" and t["args"][1].get("int") is not None and d is not None:
                        ch = t["args"][1]["int"]
                        if ch in cur:
                            bt = dict(bd2)
                            bt[d] = True
                            outs.append((t["target"], ALL, set(), bt))
                        rest = cur - {ch}
                        if rest:
                            bf = dict(bd2)
                            bf[d] = False
                            outs.append((t["target"], rest, al2, bf))
                    elif _mentions_scanner(t):
                        outs.append((t["target"], ALL, set(), bd2))
                    else:
                        outs.append((t["target"], cur, al2, bd2))
            elif k == "switch":
                o = t["discr"]
                l = o["place"]["l"] if o["k"] in ("copy", "move") and not o["place"]["p"] else None
                if l is not None and l in bd:
                    v = int(bd[l])
                    tgt = dict((a, x) for a, x in t["arms"]).get(v, t["otherwise"])
                    outs.append((tgt, cur, al, bd))
                elif l is not None and l in al:
                    armv = set()
                    for v, x in t["arms"]:
                        armv.add(v)
                        if v in cur:
                            outs.append((x, frozenset([v]), al, bd))
                    rest = cur - armv
                    if rest:
                        outs.append((t["otherwise"], rest, al, bd))
                else:
                    for v, x in t["arms"]:
                        outs.append((x, cur, al, bd))
                    outs.append((t["otherwise"], cur, al, bd))
            for tgt, c2, a2, b2 in outs:
                ns = (frozenset(c2), frozenset(a2), tuple(sorted(b2.items())))
                ss = seen.setdefault(tgt, set())
                if ns not in ss:
                    if len(ss) >= cap:
                        self.capped = True
                        continue
                    ss.add(ns)
                    work.append((tgt, ns))
