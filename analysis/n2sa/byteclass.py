"""Path-sensitive "which byte can the scanner be looking at here" analysis for lexer loops.

A forward abstract interpretation over one function's CFG (helper-inlined view).  The abstract state is
  cur   : the set of byte values the scanner's current position may hold (256-bit set, ALL when unknown)
  alias : locals that hold the value of the current byte (results of Scanner::peek not yet invalidated)
  bools : boolean locals with a known value on this path (matches! flags, results of Scanner::skip)
Transfer functions:
  x = peek()            x becomes an alias of cur
  b = skip(c)           forks: b=true -> the scanner advanced (cur = ALL, aliases dropped); b=false -> cur -= {c}
  any other call that receives the scanner                cur = ALL, aliases dropped
  switchInt(alias)      arm v: cur &= {v};  otherwise: cur -= arms;  empty cur prunes the path
  b = const bool / switchInt(b) with b known              only the matching edge is followed
  `last` : the set of values the most recently *consumed* byte may have (next(), read(), a successful skip(c)/expect(c));
           back() makes it the current byte again.  Results of Scanner::read are aliases of `last`.
States are kept as a set per block (disjunctive); the domain is finite so the worklist terminates.
`possible_at(bb)` is the union of cur over all states reaching the call terminator of bb.
No input is ever run: the result is a property of the code's shape for every input."""
from .facts import callee_of

ALL = frozenset(range(256))
PEEK = ("scanner::Scanner::peek",)
SKIP = ("scanner::Scanner::skip",)
NEXT = ("scanner::Scanner::next",)
READ = ("scanner::Scanner::read",)
BACK = ("scanner::Scanner::back",)
EXPECT = ("scanner::Scanner::expect",)


def _mentions_scanner(t):
    for a in t["args"]:
        ty = (a["place"].get("ty") or {}).get("s", "") if a["k"] in ("copy", "move") else ""
        if "Scanner" in ty or "parse::Parser" in ty:
            return True
    return False


def _moved(bd, both=False):
    """the scanner advanced: comparison flags about the (old) current byte now speak about the last consumed one, or nothing"""
    r = {}
    for k, v in bd.items():
        if isinstance(v, tuple):
            if v[1] == "cur" and not both:
                r[k] = ("cmp", "last", v[2], v[3])
            continue
        r[k] = v
    return r


class ByteClass:
    def __init__(self, F, body, cfg, entry_cur=ALL, cap=4096):
        self.F, self.b, self.cfg = F, body, cfg
        self.at_term = {}      # bb -> set of states on reaching the terminator
        self.capped = False
        self._run(entry_cur, cap)

    def possible_at(self, bb):
        sts = self.at_term.get(bb)
        if sts is None:
            return None
        r = frozenset()
        for st in sts:
            r |= st[0]
        return r

    def last_at(self, bb):
        """possible values of the most recently consumed byte on reaching the terminator of bb (None: block not reached)"""
        sts = self.at_term.get(bb)
        if sts is None:
            return None
        r = frozenset()
        for st in sts:
            r |= st[3]
        return r

    # state = (cur frozenset, aliases-of-cur frozenset, bools tuple(sorted), last frozenset, aliases-of-last frozenset)
    def _run(self, entry_cur, cap):
        b = self.b
        start = (frozenset(entry_cur), frozenset(), (), ALL, frozenset())
        seen = {0: {start}}
        work = [(0, start)]
        n = 0
        while work:
            bi, st = work.pop()
            n += 1
            if n > cap * 8:
                self.capped = True
                break
            blk = b.blocks[bi]
            if blk["cleanup"]:
                continue
            cur, al, bools, last, la = st
            bd = dict(bools)
            al = set(al)
            la = set(la)
            for s in blk["stmts"]:
                if s["k"] == "dead":
                    bd.pop(s["l"], None)
                    al.discard(s["l"])
                    la.discard(s["l"])
                elif s["k"] == "assign":
                    pl = s["place"]
                    if pl["p"]:
                        continue
                    l = pl["l"]
                    rv = s["rv"]
                    bd.pop(l, None)
                    al.discard(l)
                    la.discard(l)
                    if rv["k"] == "use":
                        o = rv["op"]
                        if o["k"] == "const" and o["ty"]["s"] == "bool" and o.get("int") is not None:
                            bd[l] = bool(o["int"])
                        elif o["k"] in ("copy", "move") and not o["place"]["p"]:
                            src = o["place"]["l"]
                            if src in bd:
                                bd[l] = bd[src]
                            if src in al:
                                al.add(l)
                            if src in la:
                                la.add(l)
                    elif rv["k"] == "un" and rv.get("op") == "Not":
                        o = rv.get("a")
                        if o and o["k"] in ("copy", "move") and not o["place"]["p"] and o["place"]["l"] in bd:
                            x = bd[o["place"]["l"]]
                            bd[l] = (not x) if isinstance(x, bool) else (x[0], x[1], x[2], not x[3])
                    elif rv["k"] == "bin" and rv.get("op") in ("Eq", "Ne"):
                        # `peek() == 'c'` / `read() != 'c'`: remember what the flag means, the branch on it refines cur / last
                        for x, y in ((rv["a"], rv["b"]), (rv["b"], rv["a"])):
                            if x["k"] in ("copy", "move") and not x["place"]["p"] and y["k"] == "const" and y.get("int") is not None:
                                src = x["place"]["l"]
                                which = "cur" if src in al else "last" if src in la else None
                                if which:
                                    bd[l] = ("cmp", which, y["int"], rv["op"] == "Ne")
            self.at_term.setdefault(bi, set()).add((cur, frozenset(al), tuple(sorted(bd.items())), last, frozenset(la)))
            t = blk["term"]
            outs = []   # (target, cur, alias-cur, bools, last, alias-last)
            k = t["k"] if t else None
            if k in ("goto", "drop", "assert"):
                outs.append((t["target"], cur, al, bd, last, la))
            elif k == "call":
                if t["target"] >= 0:
                    c = callee_of(t)
                    d = t["dest"]["l"] if not t["dest"]["p"] else None
                    bd2 = dict(bd)
                    al2 = set(al)
                    la2 = set(la)
                    if d is not None:
                        bd2.pop(d, None)
                        al2.discard(d)
                        la2.discard(d)
                    cst = t["args"][1].get("int") if len(t["args"]) > 1 and t["args"][1]["k"] == "const" else None
                    if c in PEEK:
                        if d is not None:
                            al2.add(d)
                        outs.append((t["target"], cur, al2, bd2, last, la2))
                    elif c in NEXT:
                        outs.append((t["target"], ALL, set(), _moved(bd2), cur, set(al2)))
                    elif c in READ:
                        nl = set(al2)
                        if d is not None:
                            nl.add(d)
                        outs.append((t["target"], ALL, set(), _moved(bd2), cur, nl))
                    elif c in BACK:
                        outs.append((t["target"], last, set(la2), _moved(bd2, True), ALL, set()))
                    elif c in EXPECT and cst is not None:
                        # on success c was consumed; on failure the `?` that follows returns
                        outs.append((t["target"], ALL, set(), _moved(bd2, True), frozenset([cst]), set()))
                    elif c in SKIP and cst is not None and d is not None:
                        ch = cst
                        if ch in cur:
                            bt = _moved(bd2, True)
                            bt[d] = True
                            outs.append((t["target"], ALL, set(), bt, frozenset([ch]), set()))
                        rest = cur - {ch}
                        if rest:
                            bf = dict(bd2)
                            bf[d] = False
                            outs.append((t["target"], rest, al2, bf, last, la2))
                    elif _mentions_scanner(t):
                        outs.append((t["target"], ALL, set(), _moved(bd2, True), ALL, set()))
                    else:
                        outs.append((t["target"], cur, al2, bd2, last, la2))
            elif k == "switch":
                o = t["discr"]
                l = o["place"]["l"] if o["k"] in ("copy", "move") and not o["place"]["p"] else None
                if l is not None and l in bd and isinstance(bd[l], tuple):
                    _, which, ch, neg = bd[l]
                    subj = cur if which == "cur" else last
                    for truth in (True, False):
                        tgt = dict((a, x) for a, x in t["arms"]).get(int(truth), t["otherwise"])
                        eq = truth != neg
                        part = (subj & {ch}) if eq else (subj - {ch})
                        if part:
                            outs.append((tgt, part if which == "cur" else cur, al, bd, last if which == "cur" else part, la))
                elif l is not None and l in bd:
                    v = int(bd[l])
                    tgt = dict((a, x) for a, x in t["arms"]).get(v, t["otherwise"])
                    outs.append((tgt, cur, al, bd, last, la))
                elif l is not None and l in al:
                    armv = set()
                    for v, x in t["arms"]:
                        armv.add(v)
                        if v in cur:
                            outs.append((x, frozenset([v]), al, bd, last, la))
                    rest = cur - armv
                    if rest:
                        outs.append((t["otherwise"], rest, al, bd, last, la))
                elif l is not None and l in la:
                    armv = set()
                    for v, x in t["arms"]:
                        armv.add(v)
                        if v in last:
                            outs.append((x, cur, al, bd, frozenset([v]), la))
                    rest = last - armv
                    if rest:
                        outs.append((t["otherwise"], cur, al, bd, rest, la))
                else:
                    for v, x in t["arms"]:
                        outs.append((x, cur, al, bd, last, la))
                    outs.append((t["otherwise"], cur, al, bd, last, la))
            for tgt, c2, a2, b2, l2, la_2 in outs:
                ns = (frozenset(c2), frozenset(a2), tuple(sorted(b2.items())), frozenset(l2), frozenset(la_2))
                ss = seen.setdefault(tgt, set())
                if ns not in ss:
                    if len(ss) >= cap:
                        self.capped = True
                        continue
                    ss.add(ns)
                    work.append((tgt, ns))
