"""Path-sensitive constant propagation with ghost state, over CFGs *with loops*.

The finite-domain effect tables (pathint.py) enumerate paths of loop-free functions.  Readiness flags, progress flags and
"answer" booleans live in functions with loops (`for input in ordering_ins { if !want_file(..)? { ready = false } }`), and
the same logic can be spelled many ways (`ready = ready && r`, `let state = if ready {Ready} else {Want}`, let-else with an
early `return Ok(true)`, `Ok(state == Done)`).  This engine decides what such code computes without depending on the
spelling: it explores (block, abstract state) pairs to a fixpoint where the abstract state maps locals to
  ('b', bool) | ('i', int) | ('en', adt, variant, payload|None) | ('tup', payload) | ('ref', local) | ('cref', value)
  | ('u', site)            an unknown value named by its defining site (finite, so the exploration terminates)
  | ('disc', value, adt)   the discriminant of an unknown enum value
and carries a small *ghost* dictionary that call hooks update ("some want_file answered false", "want_build returned
Done").  A branch on an unknown value refines it on each edge (and every copy of it), so flag tests written with temps,
`matches!`, `==` on fieldless enums or `&&` all behave.  Rules read the observations hooks make at the calls of interest
(`observe`) and the (ghost, return value) pairs at returns.  Nothing is executed; every concrete run is covered by some
explored abstract path because unknown branches follow all edges."""
from .expr import eval_promoted
from .facts import callee_of, norm

RESULT = "std::result::Result"
OPTION = "std::option::Option"
CF = "std::ops::ControlFlow"


def _contains(v, sym):
    if v is None:
        return False
    if v == sym:
        return True
    if isinstance(v, tuple):
        return any(_contains(x, sym) for x in v if isinstance(x, tuple))
    return False


def _subst(v, sym, new):
    if v is None:
        return None
    if v == sym:
        return new
    if isinstance(v, tuple) and v and v[0] in ("en", "tup", "cref", "disc", "not"):
        return tuple(_subst(x, sym, new) if isinstance(x, tuple) else x for x in v)
    if isinstance(v, tuple) and v and not isinstance(v[0], str):
        # payload tuple
        return tuple(_subst(x, sym, new) if isinstance(x, tuple) else x for x in v)
    return v


class FlagInt:
    def __init__(self, F, body, on_call=None, cap=30000, on_edge=None, on_block=None):
        self.F, self.b = F, body
        self.on_call = on_call
        self.on_block = on_block    # on_block(fi, bb, ghost) -> None | new ghost | False (stop exploring this path), on entering a block
        self.on_edge = on_edge      # on_edge(fi, bb, symbol, adt, variant, ghost) -> new ghost | None, when a branch refines an unknown enum
        self.cap = cap
        self.capped = False
        self.obs = []        # (tag, bb, data, ghost-dict)
        self.rets = []       # (ghost-dict, value of _0)
        self.visited = 0

    # -- helpers ---------------------------------------------------------------------------------
    def observe(self, tag, bb, data, ghost):
        rec = (tag, bb, data, tuple(sorted(ghost.items())))
        if rec not in self.obs:
            self.obs.append(rec)

    def load(self, vals, pl):
        v = vals.get(pl["l"])
        for p in pl["p"]:
            if v is None:
                return None
            k = p["k"]
            if k == "deref":
                if v[0] == "ref":
                    v = vals.get(v[1])
                elif v[0] == "cref":
                    v = v[1]
                else:
                    return None
            elif k == "downcast":
                if v[0] == "en" and v[2] == p["variant"]:
                    continue
                return None
            elif k == "field":
                i = p.get("i")
                if v[0] in ("en",) and v[3] is not None and i is not None and i < len(v[3]):
                    v = v[3][i]
                elif v[0] == "tup" and i is not None and i < len(v[1]):
                    v = v[1][i]
                else:
                    return None
            else:
                return None
        return v

    def opval(self, vals, op):
        k = op["k"]
        if k in ("copy", "move"):
            return self.load(vals, op["place"])
        if k == "const":
            if op.get("promoted", -1) >= 0:
                pb = self.F.promoted(self.b, op["promoted"], op.get("pname"))
                v = eval_promoted(self.F, pb) if pb else None
                if v and v[0] == "enum":
                    return ("cref", ("en", v[1], v[2], ()))
                if v and v[0] == "const":
                    return ("cref", ("i", v[1]))
                return None
            if op.get("int") is not None:
                if op["ty"]["s"] == "bool":
                    return ("b", bool(op["int"]))
                return ("i", op["int"])
        return None

    def _purge(self, vals, sym):
        for l in [l for l, v in vals.items() if _contains(v, sym)]:
            del vals[l]

    def _fresh(self, vals, site):
        sym = ("u", site)
        self._purge(vals, sym)
        return sym

    def _refine(self, vals, sym, new):
        for l in list(vals):
            if _contains(vals[l], sym):
                vals[l] = _subst(vals[l], sym, new)

    def _set(self, vals, pl, v):
        if not pl["p"]:
            if v is None:
                vals.pop(pl["l"], None)
            else:
                vals[pl["l"]] = v
            return
        base = vals.get(pl["l"])
        if base is not None and base[0] == "ref" and len(pl["p"]) == 1 and pl["p"][0]["k"] == "deref":
            if v is None:
                vals.pop(base[1], None)
            else:
                vals[base[1]] = v
            return
        if base is not None and base[0] == "ref":
            vals.pop(base[1], None)
            return
        vals.pop(pl["l"], None)

    # -- exploration -----------------------------------------------------------------------------
    def run(self, init_vals=None, ghost=None, start_bb=0):
        b = self.b
        start = (tuple(sorted((init_vals or {}).items(), key=lambda kv: kv[0])), tuple(sorted((ghost or {}).items())))
        seen = {(start_bb, start)}
        work = [(start_bb, start)]
        first = True
        while work:
            bi, (tv, tg) = work.pop()
            self.visited += 1
            if self.visited > self.cap:
                self.capped = True
                break
            blk = b.blocks[bi]
            if blk["cleanup"]:
                continue
            vals = dict(tv)
            ghost = dict(tg)
            if self.on_block and not first:
                g = self.on_block(self, bi, ghost)
                if g is False:
                    continue
                if g is not None:
                    ghost = g
            first = False
            for si, s in enumerate(blk["stmts"]):
                self._stmt(bi, si, s, vals)
            for tgt, v2, g2 in self._term(bi, blk["term"], vals, ghost):
                key = (tgt, (tuple(sorted(v2.items(), key=lambda kv: kv[0])), tuple(sorted(g2.items()))))
                if key not in seen:
                    seen.add(key)
                    work.append(key)
        return self

    def _stmt(self, bi, si, s, vals):
        if s["k"] == "dead":
            vals.pop(s["l"], None)
            return
        if s["k"] != "assign":
            if s["k"] == "setdiscr":
                vals.pop(s["place"]["l"], None)
            return
        rv = s["rv"]
        k = rv["k"]
        v = None
        if k == "use":
            v = self.opval(vals, rv["op"])
            if v is None and rv["op"]["k"] in ("copy", "move") and not rv["op"]["place"]["p"]:
                # name the unknown so that its copies are refined together
                src = rv["op"]["place"]["l"]
                v = self._fresh(vals, (bi, si, "src"))
                vals[src] = v
        elif k == "ref" or k == "rawptr":
            rp = rv["place"]
            if not rp["p"]:
                v = ("ref", rp["l"])
            elif len(rp["p"]) == 1 and rp["p"][0]["k"] == "deref":
                v = vals.get(rp["l"])
                if v is not None and v[0] not in ("ref", "cref"):
                    v = None
            else:
                x = self.load(vals, rp)
                v = ("cref", x) if x is not None else None
        elif k == "discr":
            pl = rv["place"]
            x = self.load(vals, pl)
            adt = norm((pl.get("ty") or {}).get("adt") or "")
            if x is None and not pl["p"]:
                x = self._fresh(vals, (bi, si, "pl"))
                vals[pl["l"]] = x
            elif x is None:
                # an enum read in place (`match file.input {..}`): name it by its last field so that hooks can recognise it
                fl = [p_ for p_ in pl["p"] if p_["k"] == "field"]
                x = self._fresh(vals, (bi, si, "fld", (fl[-1]["name"] or str(fl[-1]["i"])) if fl else "?"))
            if x is not None and x[0] == "en":
                d = self.F.discr(x[1], x[2]) if x[1] in self.F.adts else None
                v = ("i", d) if d is not None else None
            elif x is not None and x[0] == "u" and adt in self.F.adts:
                v = ("disc", x, adt)
        elif k == "bin":
            a = self.opval(vals, rv["a"])
            c = self.opval(vals, rv["b"])
            if a and c and a[0] in ("i", "b") and c[0] in ("i", "b") and rv["op"] in ("Eq", "Ne", "Lt", "Le", "Gt", "Ge"):
                x, y = a[1], c[1]
                v = ("b", {"Eq": x == y, "Ne": x != y, "Lt": x < y, "Le": x <= y, "Gt": x > y, "Ge": x >= y}[rv["op"]])
            elif a and c and a[0] == "b" and c[0] == "b" and rv["op"] in ("BitAnd", "BitOr", "BitXor"):
                v = ("b", {"BitAnd": a[1] and c[1], "BitOr": a[1] or c[1], "BitXor": a[1] != c[1]}[rv["op"]])
            elif rv["op"] == "BitAnd" and ((a and a == ("b", False)) or (c and c == ("b", False))):
                v = ("b", False)
            elif rv["op"] == "BitOr" and ((a and a == ("b", True)) or (c and c == ("b", True))):
                v = ("b", True)
        elif k == "un" and rv["op"] == "Not":
            a = self.opval(vals, rv["a"])
            if a and a[0] == "b":
                v = ("b", not a[1])
            elif a and a[0] == "u":
                v = ("not", a)
        elif k == "cast":
            v = self.opval(vals, rv["op"])
        elif k == "agg":
            ops = tuple(self.opval(vals, o) for o in rv["ops"])
            if rv["ak"] == "adt":
                v = ("en", norm(rv["name"]), rv["variant"], ops)
            elif rv["ak"] == "tuple":
                v = ("tup", ops)
            elif rv["ak"] == "closure":
                v = ("clo", norm(rv["name"]), ops)
        if v is None and not s["place"]["p"]:
            site = (bi, si)
            if k == "use" and rv["op"]["k"] in ("copy", "move"):
                # remember which field an unknown was loaded from (hooks recognise `file.input`, ..)
                fl = [p_ for p_ in rv["op"]["place"]["p"] if p_["k"] == "field"]
                if fl:
                    site = (bi, si, "fld", fl[-1]["name"] or str(fl[-1]["i"]))
            v = self._fresh(vals, site)
        self._set(vals, s["place"], v)

    def _term(self, bi, t, vals, ghost):
        if t is None:
            return
        k = t["k"]
        if k == "return":
            rec = (tuple(sorted(ghost.items())), vals.get(0))
            if rec not in self.rets:
                self.rets.append(rec)
            return
        if k in ("goto", "drop", "assert"):
            yield t["target"], vals, ghost
            return
        if k == "switch":
            yield from self._switch(bi, t, vals, ghost)
            return
        if k == "call":
            yield from self._call(bi, t, vals, ghost)
            return

    def _switch(self, bi, t, vals, ghost):
        d = self.opval(vals, t["discr"])
        arms = t["arms"]
        oth = t["otherwise"]
        is_bool = (t.get("discr_ty") or {}).get("s") == "bool"
        neg = False
        if d is not None and d[0] == "not":
            d, neg = d[1], True
        if d is not None and d[0] in ("i", "b"):
            n = int(d[1])
            if neg:
                n = int(not d[1])
            tgt = oth
            for v, x in arms:
                if v == n:
                    tgt = x
            yield tgt, vals, ghost
            return
        if d is not None and d[0] == "disc" and d[1] is not None and d[1][0] == "en":
            n = self.F.discr(d[1][1], d[1][2])
            tgt = oth
            for v, x in arms:
                if v == n:
                    tgt = x
            yield tgt, vals, ghost
            return
        if d is not None and d[0] == "disc":
            _, sym, adt = d
            names = self.F.variants(adt)
            covered = set()
            def edge_ghost(vn):
                if self.on_edge and vn is not None:
                    g = self.on_edge(self, bi, sym, adt, vn, ghost)
                    if g is not None:
                        return g
                return ghost

            for v, x in arms:
                vn = self.F.variant_of_discr(adt, v)
                covered.add(vn)
                v2 = dict(vals)
                if vn is not None:
                    self._refine(v2, sym, ("en", adt, vn, None))
                yield x, v2, edge_ghost(vn)
            rest = [n for n in names if n not in covered]
            if len(rest) == 1:
                v2 = dict(vals)
                self._refine(v2, sym, ("en", adt, rest[0], None))
                yield oth, v2, edge_ghost(rest[0])
            elif rest:
                yield oth, vals, ghost
            return
        if d is not None and d[0] == "u":
            for v, x in arms:
                v2 = dict(vals)
                val = bool(v) if is_bool else v
                if neg and is_bool:
                    val = not val
                self._refine(v2, d, ("b", val) if is_bool else ("i", v))
                yield x, v2, ghost
            v2 = dict(vals)
            if is_bool and len(arms) == 1:
                val = not bool(arms[0][0])
                if neg:
                    val = not val
                self._refine(v2, d, ("b", val))
            yield oth, v2, ghost
            return
        seen = set()
        for v, x in arms + [["otherwise", oth]]:
            if x not in seen:
                seen.add(x)
                yield x, vals, ghost

    def _deref(self, vals, v):
        if v is None:
            return None
        if v[0] == "ref":
            return vals.get(v[1])
        if v[0] == "cref":
            return v[1]
        return v

    def _call(self, bi, t, vals, ghost):
        callee = callee_of(t)
        args = [self.opval(vals, a) for a in t["args"]]
        tgt = t["target"]
        if tgt < 0:
            return
        dest = t["dest"]

        def out(val, g=None, v0=None):
            v2 = dict(v0 if v0 is not None else vals)
            # a callee given `&mut local` may change it
            for a, o in zip(args, t["args"]):
                if a is not None and a[0] == "ref" and "&mut" in ((o.get("place") or {}).get("ty") or {}).get("s", ""):
                    v2.pop(a[1], None)
            if val is None and not dest["p"]:
                val = self._fresh(v2, (bi, "T"))
            self._set(v2, dest, val)
            return tgt, v2, dict(g if g is not None else ghost)

        if self.on_call:
            r = self.on_call(self, bi, t, callee, args, vals, ghost)
            if r is not None:
                for val, g in r:
                    yield out(val, g)
                return
        if callee.endswith(("Option::map_or", "Option::is_some_and", "Option::is_none_or")) and args and args[-1] is not None and args[-1][0] == "clo":
            # Option combinators with a closure: None -> the default, Some(x) -> whatever the closure body computes (analysed with the same hooks)
            opt = args[0]
            dflt = args[1] if callee.endswith("map_or") else ("b", callee.endswith("is_none_or"))
            outs = []
            if opt is None or opt[0] != "en" or opt[2] == "None":
                outs.append((dflt, ghost))
            if opt is None or opt[0] != "en" or opt[2] == "Some":
                cb = self.F.body(args[-1][1])
                if cb is None:
                    outs.append((None, ghost))
                else:
                    sub = FlagInt(self.F, cb, self.on_call, self.cap, self.on_edge)
                    sub.run(ghost=ghost)
                    self.visited += sub.visited
                    self.capped = self.capped or sub.capped
                    for o in sub.obs:
                        if o not in self.obs:
                            self.obs.append(o)
                    for g, rv in sub.rets:
                        outs.append((rv, dict(g)))
            for val, g in outs:
                yield out(val, g)
            return
        if callee.endswith("Try>::branch") or callee.endswith("::branch"):
            a = args[0] if args else None
            if a is not None and a[0] == "en" and a[1] == RESULT:
                if a[2] == "Ok":
                    yield out(("en", CF, "Continue", a[3]))
                else:
                    yield out(("en", CF, "Break", None))
                return
            if a is not None and a[0] == "en" and a[1] == OPTION:
                yield out(("en", CF, "Continue", a[3]) if a[2] == "Some" else ("en", CF, "Break", None))
                return
            yield out(("en", CF, "Continue", None))
            yield out(("en", CF, "Break", None))
            return
        if callee.endswith("::from_residual"):
            if "Option" in callee.split(" as ")[0]:
                yield out(("en", OPTION, "None", ()))
            else:
                yield out(("en", RESULT, "Err", None))
            return
        if callee.endswith("PartialEq>::eq") or callee.endswith("PartialEq>::ne") or callee in ("std::cmp::PartialEq::ne", "std::cmp::PartialEq::eq"):
            is_ne = callee.endswith("ne")
            a = self._deref(vals, args[0]) if len(args) == 2 else None
            c = self._deref(vals, args[1]) if len(args) == 2 else None
            if a and c and a[0] == "en" and c[0] == "en" and a[1] == c[1] and not a[3] and not c[3]:
                yield out(("b", (a[2] == c[2]) != is_ne))
                return
            # comparing an unknown fieldless enum with a constant: split on the answer and refine
            for x, y in ((a, c), (c, a)):
                if x and y and x[0] == "u" and y[0] == "en" and not y[3] and y[1] in self.F.adts:
                    others = [n for n in self.F.variants(y[1]) if n != y[2]]
                    v_eq = dict(vals)
                    self._refine(v_eq, x, y)
                    yield out(("b", not is_ne), None, v_eq)
                    if len(others) == 1:
                        v_ne = dict(vals)
                        self._refine(v_ne, x, ("en", y[1], others[0], ()))
                        yield out(("b", is_ne), None, v_ne)
                    elif others:
                        yield out(("b", is_ne))
                    return
        yield out(None)
