"""Control-flow graph utilities over one MIR body (normal edges only; unwind paths are not explored).

Nodes are basic-block indices.  For edge-sensitive questions (``the true edge of this switch
dominates that call'') the graph is edge-split: every CFG edge (a, b, label) becomes a node
('e', a, b, label) between a and b.
"""


def term_succs(term):
    """[(target, label)] for the normal successors of a terminator."""
    if term is None:
        return []
    k = term["k"]
    if k in ("goto", "drop", "assert"):
        return [(term["target"], None)]
    if k == "call":
        return [(term["target"], None)] if term["target"] >= 0 else []
    if k == "switch":
        d = term.get("discr") or {}
        if d.get("k") == "const" and d.get("int") is not None:
            # a branch on a literal (`if false`, `if cfg!(..)`): only the matching edge exists
            for v, b in term["arms"]:
                if v == d["int"]:
                    return [(b, v)]
            return [(term["otherwise"], "otherwise")]
        r = [(b, v) for v, b in term["arms"]]
        r.append((term["otherwise"], "otherwise"))
        return r
    return []


class CFG:
    def __init__(self, body):
        self.body = body
        n = len(body.blocks)
        self.n = n
        self.succ = [[] for _ in range(n)]
        self.pred = [[] for _ in range(n)]
        for i, b in enumerate(body.blocks):
            if b["cleanup"]:
                continue
            for t, lab in term_succs(b["term"]):
                self.succ[i].append((t, lab))
                self.pred[t].append((i, lab))
        self.reach = self._reach_from(0)
        self._dom = None
        self._edom = None
        self._pdom = None

    # -- reachability ------------------------------------------------------------------------
    def _reach_from(self, start, avoid=()):
        seen = set()
        st = [start]
        avoid = set(avoid)
        while st:
            x = st.pop()
            if x in seen or x in avoid:
                continue
            seen.add(x)
            for t, _ in self.succ[x]:
                st.append(t)
        return seen

    def reachable(self, start, avoid=()):
        """blocks reachable from `start` (inclusive) without entering any block in `avoid`."""
        return self._reach_from(start, avoid)

    def reachable_from_edge(self, a, label, avoid=()):
        r = set()
        for t, lab in self.succ[a]:
            if lab == label:
                r |= self._reach_from(t, avoid)
        return r

    def reach_avoid(self, starts, avoid_blocks=(), avoid_edges=()):
        """blocks reachable from `starts` without entering avoid_blocks or taking avoid_edges {(bb,label)}.
        A start block that is itself in avoid_blocks is not expanded."""
        ab = set(avoid_blocks)
        ae = set(avoid_edges)
        seen = set()
        st = list(starts)
        while st:
            x = st.pop()
            if x in seen or x in ab:
                continue
            seen.add(x)
            for t, lab in self.succ[x]:
                if (x, lab) in ae:
                    continue
                st.append(t)
        return seen

    def edge_targets(self, bb, label):
        return [t for t, lab in self.succ[bb] if lab == label]

    def can_reach(self, a, b, avoid=()):
        return b in self._reach_from(a, avoid)

    def returns(self):
        return [i for i in self.reach if self.body.blocks[i]["term"] and self.body.blocks[i]["term"]["k"] == "return"]

    # -- dominators (iterative, fine for <=200 blocks) ----------------------------------------
    def _dominators(self, nodes, preds, entry):
        dom = {x: None for x in nodes}
        dom[entry] = {entry}
        changed = True
        order = list(nodes)
        while changed:
            changed = False
            for x in order:
                if x == entry:
                    continue
                ps = [dom[p] for p in preds(x) if dom.get(p) is not None]
                if not ps:
                    continue
                new = set.intersection(*ps) | {x}
                if dom[x] != new:
                    dom[x] = new
                    changed = True
        return dom

    def dom(self):
        if self._dom is None:
            nodes = sorted(self.reach)
            self._dom = self._dominators(nodes, lambda x: [p for p, _ in self.pred[x] if p in self.reach], 0)
        return self._dom

    def dominates(self, a, b):
        d = self.dom().get(b)
        return d is not None and a in d

    def _edge_split(self):
        if self._edom is None:
            nodes = []
            preds = {}
            for x in sorted(self.reach):
                nodes.append(x)
                preds.setdefault(x, [])
            for a in sorted(self.reach):
                for i, (t, lab) in enumerate(self.succ[a]):
                    e = ("e", a, t, lab)
                    nodes.append(e)
                    preds[e] = [a]
                    preds[t].append(e)
            self._edom = self._dominators(nodes, lambda x: preds[x], 0)
        return self._edom

    def edge_dominates(self, a, label, b):
        """every path from entry to block b takes an edge a --label--> (any target)"""
        d = self._edge_split().get(b)
        if d is None:
            return False
        for x in d:
            if isinstance(x, tuple) and x[1] == a and x[3] == label:
                return True
        return False

    def edges_dominating(self, b):
        d = self._edge_split().get(b) or set()
        return [(x[1], x[3], x[2]) for x in d if isinstance(x, tuple)]

    def pdom(self):
        """post-dominators w.r.t. a virtual exit joined to every return block"""
        if self._pdom is None:
            EXIT = -1
            nodes = sorted(self.reach) + [EXIT]
            rets = set(self.returns())

            def preds(x):
                if x == EXIT:
                    return []
                r = [t for t, _ in self.succ[x] if t in self.reach]
                if x in rets:
                    r.append(EXIT)
                return r

            self._pdom = self._dominators(nodes, preds, EXIT)
        return self._pdom

    def postdominates(self, a, b):
        d = self.pdom().get(b)
        return d is not None and a in d

    # -- loops -------------------------------------------------------------------------------
    def back_edges(self):
        r = []
        for a in self.reach:
            for t, lab in self.succ[a]:
                if self.dominates(t, a):
                    r.append((a, t))
        return r

    def loop_headers(self):
        return sorted({t for _, t in self.back_edges()})

    def natural_loop(self, header):
        body = {header}
        st = [a for a, t in self.back_edges() if t == header]
        while st:
            x = st.pop()
            if x in body:
                continue
            body.add(x)
            for p, _ in self.pred[x]:
                if p in self.reach:
                    st.append(p)
        return body

    def enclosing_loop_header(self, b):
        """innermost loop header whose natural loop contains b, or None"""
        best = None
        for h in self.loop_headers():
            l = self.natural_loop(h)
            if b in l and (best is None or len(l) < best[1]):
                best = (h, len(l))
        return best[0] if best else None
