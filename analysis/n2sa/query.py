"""Reusable queries: censuses (WHO), gating (DOM/GUARD), switch classification, string constants."""
from .cfg import CFG
from .expr import Resolver, strip, walk, field_chain, show, alts
from .facts import callee_of, norm, place_fields


class Ctx:
    """per-run cache of CFGs / resolvers"""

    def __init__(self, F):
        self.F = F
        self._cfg = {}
        self._res = {}
        self._keep = []

    def cfg(self, body):
        c = self._cfg.get(id(body))
        if c is None:
            c = self._cfg[id(body)] = CFG(body)
            self._keep.append(body)
        return c

    def res(self, body):
        r = self._res.get(id(body))
        if r is None:
            r = self._res[id(body)] = Resolver(self.F, body)
            self._keep.append(body)
        return r


# ----------------------------------------------------------------------------------------------
# switches


def bool_edges(term):
    """(true_label, false_label) of a switchInt on a bool"""
    arms = term["arms"]
    if len(arms) == 1 and arms[0][0] == 0:
        return ("otherwise", 0)
    if len(arms) == 1 and arms[0][0] == 1:
        return (1, "otherwise")
    if len(arms) == 2:
        d = dict((v, v) for v, _ in arms)
        return (d.get(1, "otherwise"), d.get(0, "otherwise"))
    return (None, None)


def switches(ctx, body):
    """[(bb, term, discr_expr)] for reachable switch terminators"""
    R = ctx.res(body)
    c = ctx.cfg(body)
    r = []
    for bb in sorted(c.reach):
        t = body.blocks[bb]["term"]
        if t and t["k"] == "switch":
            r.append((bb, t, R.discr(bb)))
    return r


def discr_adt(body, bb, term):
    """for `switchInt(move _x)` where `_x = discriminant(place)` in the same block: (place, adt path)"""
    d = term["discr"]
    if d["k"] not in ("copy", "move") or d["place"]["p"]:
        return None
    l = d["place"]["l"]
    for s in reversed(body.blocks[bb]["stmts"]):
        if s["k"] == "assign" and not s["place"]["p"] and s["place"]["l"] == l:
            if s["rv"]["k"] == "discr":
                pl = s["rv"]["place"]
                return pl, norm(pl["ty"]["adt"] or "")
            return None
    return None


def enum_switches(ctx, body):
    """[(bb, term, scrutinee_expr, adt, {variant: label})]; label is the switch value or 'otherwise'.

    A variant maps to 'otherwise' when it has no explicit arm (and is not excluded by an
    `unreachable` otherwise block)."""
    F = ctx.F
    R = ctx.res(body)
    out = []
    for bb, t, e in switches(ctx, body):
        da = discr_adt(body, bb, t)
        if not da:
            continue
        pl, adt = da
        if adt not in F.adts:
            continue
        vmap = {}
        explicit = {v for v, _ in t["arms"]}
        oth = body.blocks[t["otherwise"]]["term"]
        oth_unreach = oth is not None and oth["k"] == "unreachable"
        for v in F.adts[adt]["variants"]:
            if v["discr"] in explicit:
                vmap[v["name"]] = v["discr"]
            elif not oth_unreach:
                vmap[v["name"]] = "otherwise"
        out.append((bb, t, R.place(pl, R.term_at(bb)), adt, vmap))
    return out


# ----------------------------------------------------------------------------------------------
# gating


def gated(cfg, target_bb, gate_edges, def_blocks=(), repeat=False):
    """True iff every path from entry (and, with repeat, from the target's own successors, and
    from every block in def_blocks) to target_bb takes one of gate_edges = {(bb, label)}.
    Returns (ok, witness_start)."""
    gate = set(gate_edges)

    def reach(start_nodes):
        seen = set()
        st = list(start_nodes)
        while st:
            x = st.pop()
            if x in seen:
                continue
            seen.add(x)
            for t, lab in cfg.succ[x]:
                if (x, lab) in gate:
                    continue
                st.append(t)
        return seen

    if target_bb in reach([0]):
        return False, "entry"
    for d in def_blocks:
        if d == target_bb:
            continue
        if target_bb in reach([d]) and d in cfg.reach:
            # a definition inside the block that also holds the gate switch is fine: its only
            # ungated exits were followed above
            return False, "redefinition in bb%d" % d
    if repeat:
        succs = [t for t, lab in cfg.succ[target_bb] if (target_bb, lab) not in gate]
        if target_bb in reach(succs):
            return False, "repeat"
    return True, None


def def_blocks_of_local(body, l):
    r = []
    for bi, b in enumerate(body.blocks):
        if b["cleanup"]:
            continue
        for s in b["stmts"]:
            if s["k"] == "assign" and s["place"]["l"] == l and not s["place"]["p"]:
                r.append(bi)
        t = b["term"]
        if t and t["k"] == "call" and t["dest"]["l"] == l and not t["dest"]["p"]:
            r.append(bi)
    return r


# ----------------------------------------------------------------------------------------------
# censuses


def field_census(F, owner, field, include_derives=False):
    """{fn nname: {'write': n, 'mutref': n, 'read': n}} for accesses through field `owner.field`.

    write  = an assignment (or call destination) to a place whose projection passes the field
    mutref = `&mut` / raw borrow of such a place (the reference may escape)
    """
    res = {}

    def hit(pl):
        for p in pl["p"]:
            if p["k"] == "field" and p["name"] == field and norm(p["of"]) == owner:
                return True
        return False

    def bump(fn, k):
        res.setdefault(fn, {"write": 0, "mutref": 0, "read": 0})[k] += 1

    def scan_op(fn, op):
        if op["k"] in ("copy", "move") and hit(op["place"]):
            bump(fn, "read")

    for b in F.all_bodies():
        if b.expn and not include_derives:
            continue
        for blk in b.blocks:
            if blk["cleanup"]:
                continue
            for s in blk["stmts"]:
                if s["k"] == "assign":
                    if hit(s["place"]):
                        bump(b.nname, "write")
                    rv = s["rv"]
                    k = rv["k"]
                    if k in ("ref", "rawptr") and hit(rv["place"]):
                        bump(b.nname, "mutref" if (k == "rawptr" or rv.get("mut")) else "read")
                    elif k == "use":
                        scan_op(b.nname, rv["op"])
                    elif k == "cast":
                        scan_op(b.nname, rv["op"])
                    elif k == "bin":
                        scan_op(b.nname, rv["a"])
                        scan_op(b.nname, rv["b"])
                    elif k == "un":
                        scan_op(b.nname, rv["a"])
                    elif k == "discr" and hit(rv["place"]):
                        bump(b.nname, "read")
                    elif k == "agg":
                        for o in rv["ops"]:
                            scan_op(b.nname, o)
                elif s["k"] == "setdiscr" and hit(s["place"]):
                    bump(b.nname, "write")
            t = blk["term"]
            if t and t["k"] == "call":
                if hit(t["dest"]):
                    bump(b.nname, "write")
                for a in t["args"]:
                    scan_op(b.nname, a)
            elif t and t["k"] == "switch":
                scan_op(b.nname, t["discr"])
    return res


def writers(F, owner, field):
    c = field_census(F, owner, field)
    return {fn: v for fn, v in c.items() if v["write"] or v["mutref"]}


def adt_constructors(F, adt, variant=None):
    """[(body, bb, stmt)] aggregate constructions of `adt` (optionally one variant)"""
    r = []
    for b in F.view_bodies():
        for bi, blk in enumerate(b.blocks):
            if blk["cleanup"]:
                continue
            for s in blk["stmts"]:
                if s["k"] == "assign" and s["rv"]["k"] == "agg" and s["rv"]["ak"] == "adt" and norm(s["rv"]["name"]) == adt:
                    if variant is None or s["rv"]["variant"] == variant:
                        r.append((b, bi, s))
    # promoted constants are bodies too
    for b in F.bodies.values():
        if b.kind != "promoted":
            continue
        for bi, blk in enumerate(b.blocks):
            for s in blk["stmts"]:
                if s["k"] == "assign" and s["rv"]["k"] == "agg" and s["rv"]["ak"] == "adt" and norm(s["rv"]["name"]) == adt:
                    if variant is None or s["rv"]["variant"] == variant:
                        r.append((b, bi, s))
    return r


def callers_of(F, callee):
    return sorted({b.nname for b, _, _ in F.call_sites(callee)})


def sites_in(body, callee, suffix=False):
    """[(bb, term)] call sites in one body"""
    r = []
    for bb, t in body.calls():
        c = callee_of(t)
        if c == callee or (suffix and c.endswith(callee)):
            r.append((bb, t))
    return r


def const_strings(body):
    """all string-ish constant reprs mentioned in a body (statements, call args)"""
    out = []

    def op(o):
        if o["k"] == "const" and o["int"] is None and not o.get("fn"):
            out.append(o["repr"])

    for blk in body.blocks:
        if blk["cleanup"]:
            continue
        for s in blk["stmts"]:
            if s["k"] != "assign":
                continue
            rv = s["rv"]
            if rv["k"] in ("use", "cast"):
                op(rv["op"])
            elif rv["k"] == "agg":
                for o in rv["ops"]:
                    op(o)
            elif rv["k"] == "bin":
                op(rv["a"])
                op(rv["b"])
        t = blk["term"]
        if t and t["k"] == "call":
            for a in t["args"]:
                op(a)
    return out


def body_strings(F, body):
    """string constants of a body including its promoted constants"""
    out = list(const_strings(body))
    i = 0
    while True:
        pb = F.promoted(body, i)
        if pb is None:
            break
        out.extend(const_strings(pb))
        i += 1
    return out


def ret_assignments(body):
    """[(bb, stmt|term)] definitions of the return place _0 (whole)"""
    r = []
    for bi, b in enumerate(body.blocks):
        if b["cleanup"]:
            continue
        for s in b["stmts"]:
            if s["k"] == "assign" and s["place"]["l"] == 0 and not s["place"]["p"]:
                r.append((bi, s))
        t = b["term"]
        if t and t["k"] == "call" and t["dest"]["l"] == 0 and not t["dest"]["p"]:
            r.append((bi, t))
    return r


def loc_of(body, bb):
    t = body.blocks[bb]["term"]
    if t and "loc" in t:
        return t["loc"]
    for s in body.blocks[bb]["stmts"]:
        if "loc" in s:
            return s["loc"]
    return body.loc
