"""Fact extraction (runs the rustc_private driver over /repo) and the in-memory MIR model.

Everything the rules look at comes from here: bodies keyed by *normalised* def path
(lifetime / generic-parameter segments removed), their basic blocks, resolved callees,
field/variant names of every place projection, evaluated constants and spans.
"""
import fcntl
import glob
import json
import os
import shutil
import subprocess
import time
import uuid

VERIF = os.path.dirname(os.path.dirname(os.path.dirname(os.path.abspath(__file__))))
REPO = os.environ.get("N2SA_REPO", "/repo")
CACHE = os.path.join(VERIF, ".cache")
DRIVER = os.path.join(VERIF, "engine", "n2facts", "target", "release", "n2facts")

CONFIGS = {
    "default": [],
    "nodefault": ["--no-default-features"],
    "crlf": ["--features", "crlf"],
}


class ExtractError(Exception):
    pass


def norm(name):
    """Strip `::<...>` generic-argument segments from a def path (balanced)."""
    out = []
    i = 0
    n = len(name)
    while i < n:
        if name.startswith("::<", i):
            depth = 0
            j = i + 2
            while j < n:
                c = name[j]
                if c == "<":
                    depth += 1
                elif c == ">":
                    # `->` inside fn types
                    if j > 0 and name[j - 1] == "-":
                        j += 1
                        continue
                    depth -= 1
                    if depth == 0:
                        break
                j += 1
            i = j + 1
            continue
        out.append(name[i])
        i += 1
    return "".join(out)


def _sysroot():
    return subprocess.check_output(["rustc", "+nightly", "--print", "sysroot"], text=True).strip()


def ensure_driver():
    if not os.path.exists(DRIVER):
        raise ExtractError("extractor binary missing: %s (run MANIFEST.setup_cmd)" % DRIVER)


def extract(config="default", repo=None, keep=False):
    """Run the extractor over `repo`'s current working tree; return path of a fresh facts dir.

    Serialised with a file lock because the dependency target dir is shared; the workspace
    member's fingerprints are deleted first so cargo cannot replay a cached run and skip the
    wrapper.  The facts carry a nonce that is checked on load.
    """
    ensure_driver()
    repo = repo or REPO
    os.makedirs(CACHE, exist_ok=True)
    nonce = uuid.uuid4().hex
    out = os.path.join(CACHE, "facts-%s-%s" % (config, nonce[:12]))
    os.makedirs(out)
    # a scratch copy (mutant runs) gets its own member fingerprint dir because cargo keys the
    # package by path; dependency artefacts are shared.
    target = os.path.join(CACHE, "target")
    env = dict(os.environ)
    env.update(
        N2FACTS_OUT=out,
        N2FACTS_NONCE=nonce,
        LD_LIBRARY_PATH=_sysroot() + "/lib",
        RUSTFLAGS="-Zmir-opt-level=0 -Awarnings",
        RUSTC_WORKSPACE_WRAPPER=DRIVER,
        CARGO_TARGET_DIR=target,
        CARGO_NET_OFFLINE="true",
    )
    env.pop("RUSTC_WRAPPER", None)
    cmd = ["cargo", "+nightly", "check", "--offline", "--lib", "--bins"] + CONFIGS[config]
    lock = open(os.path.join(CACHE, "lock"), "w")
    fcntl.flock(lock, fcntl.LOCK_EX)
    try:
        for d in glob.glob(os.path.join(target, "debug", ".fingerprint", "n2-*")):
            shutil.rmtree(d, ignore_errors=True)
        t0 = time.time()
        p = subprocess.run(cmd, cwd=repo, env=env, stdout=subprocess.PIPE, stderr=subprocess.STDOUT, text=True)
        dt = time.time() - t0
    finally:
        fcntl.flock(lock, fcntl.LOCK_UN)
        lock.close()
    if p.returncode != 0:
        shutil.rmtree(out, ignore_errors=True)
        raise ExtractError("cargo check failed on %s (config %s):\n%s" % (repo, config, p.stdout[-4000:]))
    files = sorted(glob.glob(os.path.join(out, "*.json")))
    if not files:
        shutil.rmtree(out, ignore_errors=True)
        raise ExtractError("extractor produced no facts (wrapper skipped?)\n" + p.stdout[-2000:])
    return out, nonce, dt


# ----------------------------------------------------------------------------------------------
# model


class Body:
    __slots__ = ("raw", "name", "nname", "kind", "loc", "expn", "argc", "locals", "names", "blocks", "_calls")

    def __init__(self, raw):
        self.raw = raw
        self.name = raw["name"]
        self.nname = norm(raw["name"])
        self.kind = raw["kind"]
        self.loc = raw["loc"]
        self.expn = raw["expn"]
        self.argc = raw["argc"]
        self.locals = raw["locals"]
        self.names = {int(k): v for k, v in raw["names"].items()}
        self.blocks = raw["blocks"]
        self._calls = None

    def calls(self):
        """[(bb, term)] for every Call terminator in non-cleanup blocks, in block order."""
        if self._calls is None:
            r = []
            for i, b in enumerate(self.blocks):
                t = b["term"]
                if t and t["k"] == "call" and not b["cleanup"]:
                    r.append((i, t))
            self._calls = r
        return self._calls

    def local_name(self, l):
        return self.names.get(l, "_%d" % l)

    def local_ty(self, l):
        return self.locals[l]["s"]

    def local_adt(self, l):
        return self.locals[l]["adt"]


def callee_of(term):
    c = term["callee"]
    return norm(c["resolved"] or c["path"])


def callee_path(term):
    return norm(term["callee"]["path"])


class Facts:
    def __init__(self, dirs, nonce=None, config="default"):
        self.config = config
        self.bodies = {}
        self.raw_names = {}
        self.adts = {}
        self.crates = []
        for d in dirs if isinstance(dirs, (list, tuple)) else [dirs]:
            for f in sorted(glob.glob(os.path.join(d, "*.json"))):
                j = json.load(open(f))
                if nonce is not None and j.get("nonce") != nonce:
                    raise ExtractError("stale facts (nonce mismatch) in %s" % f)
                self.crates.append((j["crate"], j["crate_types"], len(j["bodies"])))
                prefix = "" if "Rlib" in j["crate_types"] or "Lib" in j["crate_types"] else "bin::"
                self.adts.update(j["adts"])
                for rb in j["bodies"]:
                    b = Body(rb)
                    if prefix:
                        b.nname = prefix + b.nname
                    if b.nname in self.bodies:
                        # two impls can normalise to one name (EvalString<&str>::as_cow vs <String>)
                        k = 1
                        while "%s#%d" % (b.nname, k) in self.bodies:
                            k += 1
                        b.nname = "%s#%d" % (b.nname, k)
                    self.bodies[b.nname] = b
        self._callers = None

    # -- lookups -------------------------------------------------------------------------------
    def body(self, nname):
        return self.bodies.get(nname)

    def fns(self, include_promoted=False, include_derives=False):
        for b in self.bodies.values():
            if b.kind == "promoted" and not include_promoted:
                continue
            if b.expn and not include_derives:
                continue
            yield b

    def all_bodies(self):
        """every non-promoted body, derives included"""
        return [b for b in self.bodies.values() if b.kind != "promoted"]

    def promoted(self, body, idx):
        base = body.name
        # promoted bodies are named `<raw name>::promoted[i]`
        return self.bodies.get(norm("%s::promoted[%d]" % (base, idx)))

    def call_sites(self, callee, exact=True):
        """[(body, bb, term)] of all non-cleanup call sites whose resolved callee is `callee`."""
        r = []
        for b in self.all_bodies():
            for bb, t in b.calls():
                c = callee_of(t)
                if c == callee or (not exact and callee in c) or callee_path(t) == callee:
                    r.append((b, bb, t))
        return r

    def variants(self, adt):
        return [v["name"] for v in self.adts[adt]["variants"]]

    def discr(self, adt, variant):
        for v in self.adts[adt]["variants"]:
            if v["name"] == variant:
                return v["discr"]
        return None

    def variant_of_discr(self, adt, d):
        for v in self.adts[adt]["variants"]:
            if v["discr"] == d:
                return v["name"]
        return None

    def struct_fields(self, adt):
        a = self.adts.get(adt)
        if not a:
            return None
        return a["variants"][0]["fields"]


def load_current(config="default", repo=None):
    """Extract and load facts for the current tree; the facts dir is removed after loading."""
    out, nonce, dt = extract(config, repo)
    try:
        f = Facts(out, nonce, config)
    finally:
        shutil.rmtree(out, ignore_errors=True)
    f.extract_s = dt
    return f


# ----------------------------------------------------------------------------------------------
# place / operand helpers


def place_fields(pl):
    """names of the Field projections of a place, outermost first (`self.build_states.counts`)."""
    return [p["name"] or str(p["i"]) for p in pl["p"] if p["k"] == "field"]


def last_field(pl):
    """(owner adt path [::Variant], field name) of the *last* projection if it is a field, else None."""
    for p in reversed(pl["p"]):
        if p["k"] == "field":
            return (p["of"], p["name"] or str(p["i"]))
        if p["k"] in ("deref",):
            continue
        return None
    return None


def any_field(pl, owner, name):
    for p in pl["p"]:
        if p["k"] == "field" and p["of"] == owner and p["name"] == name:
            return True
    return False


def place_str(body, pl):
    s = body.local_name(pl["l"]) if body else "_%d" % pl["l"]
    for p in pl["p"]:
        k = p["k"]
        if k == "deref":
            s = "(*%s)" % s
        elif k == "field":
            s += "." + (p["name"] or str(p["i"]))
        elif k == "downcast":
            s += " as " + p["variant"]
        elif k == "index":
            s += "[_%d]" % p["l"]
        elif k == "cindex":
            s += "[%d]" % p["offset"]
        elif k == "subslice":
            s += "[%d..%s%d]" % (p["from"], "-" if p["from_end"] else "", p["to"])
        else:
            s += ".?"
    return s


def op_place(op):
    if op["k"] in ("copy", "move"):
        return op["place"]
    return None


def op_local(op):
    """local index if the operand is a bare local (no projection)"""
    pl = op_place(op)
    if pl is not None and not pl["p"]:
        return pl["l"]
    return None


def op_const_int(op):
    if op["k"] == "const":
        return op["int"]
    return None


def op_str(body, op):
    if op["k"] in ("copy", "move"):
        return place_str(body, op["place"])
    if op["k"] == "const":
        if op.get("fn"):
            return "fn " + norm(op["fn"]["path"])
        if op["int"] is not None:
            return "const %s" % op["int"]
        if op["promoted"] >= 0:
            return "promoted[%d]" % op["promoted"]
        return "const %s" % op["repr"]
    return op.get("d", "?")
