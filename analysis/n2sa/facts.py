"""Fact extraction (runs the rustc_private driver over /repo) and the in-memory MIR model.

Everything the rules look at comes from here: bodies keyed by *normalised* def path
(lifetime / generic-parameter segments removed), their basic blocks, resolved callees,
field/variant names of every place projection, evaluated constants and spans.
"""
import fcntl
import glob
import json
import os
import shutil
import subprocess
import time
import uuid

VERIF = os.path.dirname(os.path.dirname(os.path.dirname(os.path.abspath(__file__))))
REPO = os.environ.get("N2SA_REPO", "/repo")
CACHE = os.path.join(VERIF, ".cache")
DRIVER = os.path.join(VERIF, "engine", "n2facts", "target", "release", "n2facts")

CONFIGS = {
    "default": [],
    "nodefault": ["--no-default-features"],
    "crlf": ["--features", "crlf"],
}


class ExtractError(Exception):
    pass


_NORM = {}


def norm(name):
    """Strip `::<...>` generic-argument segments from a def path (balanced)."""
    r = _NORM.get(name)
    if r is None:
        r = _NORM[name] = _norm(name)
    return r


def _norm(name):
    if "::<" not in name:
        return name
    out = []
    i = 0
    n = len(name)
    while i < n:
        if name.startswith("::<", i):
            depth = 0
            j = i + 2
            while j < n:
                c = name[j]
                if c == "<":
                    depth += 1
                elif c == ">":
                    # `->` inside fn types
                    if j > 0 and name[j - 1] == "-":
                        j += 1
                        continue
                    depth -= 1
                    if depth == 0:
                        break
                j += 1
            i = j + 1
            continue
        out.append(name[i])
        i += 1
    return "".join(out)


def _sysroot():
    return subprocess.check_output(["rustc", "+nightly", "--print", "sysroot"], text=True).strip()


def ensure_driver():
    if not os.path.exists(DRIVER):
        raise ExtractError("extractor binary missing: %s (run MANIFEST.setup_cmd)" % DRIVER)


def extract(config="default", repo=None, keep=False):
    """Run the extractor over `repo`'s current working tree; return path of a fresh facts dir.

    Serialised with a file lock because the dependency target dir is shared; the workspace
    member's fingerprints are deleted first so cargo cannot replay a cached run and skip the
    wrapper.  The facts carry a nonce that is checked on load.
    """
    ensure_driver()
    repo = repo or REPO
    os.makedirs(CACHE, exist_ok=True)
    nonce = uuid.uuid4().hex
    out = os.path.join(CACHE, "facts-%s-%s" % (config, nonce[:12]))
    os.makedirs(out)
    # a scratch copy (mutant runs) gets its own member fingerprint dir because cargo keys the
    # package by path; dependency artefacts are shared.
    target = os.path.join(CACHE, "target")
    env = dict(os.environ)
    env.update(
        N2FACTS_OUT=out,
        N2FACTS_NONCE=nonce,
        LD_LIBRARY_PATH=_sysroot() + "/lib",
        RUSTFLAGS="-Zmir-opt-level=0 -Awarnings",
        RUSTC_WORKSPACE_WRAPPER=DRIVER,
        CARGO_TARGET_DIR=target,
        CARGO_NET_OFFLINE="true",
    )
    env.pop("RUSTC_WRAPPER", None)
    cmd = ["cargo", "+nightly", "check", "--offline", "--lib", "--bins"] + CONFIGS[config]
    lock = open(os.path.join(CACHE, "lock"), "w")
    fcntl.flock(lock, fcntl.LOCK_EX)
    try:
        for d in glob.glob(os.path.join(target, "debug", ".fingerprint", "n2-*")):
            shutil.rmtree(d, ignore_errors=True)
        t0 = time.time()
        p = subprocess.run(cmd, cwd=repo, env=env, stdout=subprocess.PIPE, stderr=subprocess.STDOUT, text=True)
        dt = time.time() - t0
    finally:
        fcntl.flock(lock, fcntl.LOCK_UN)
        lock.close()
    if p.returncode != 0:
        shutil.rmtree(out, ignore_errors=True)
        raise ExtractError("cargo check failed on %s (config %s):\n%s" % (repo, config, p.stdout[-4000:]))
    files = sorted(glob.glob(os.path.join(out, "*.json")))
    if not files:
        shutil.rmtree(out, ignore_errors=True)
        raise ExtractError("extractor produced no facts (wrapper skipped?)\n" + p.stdout[-2000:])
    return out, nonce, dt


# ----------------------------------------------------------------------------------------------
# model


class Body:
    __slots__ = ("raw", "name", "nname", "kind", "loc", "expn", "argc", "locals", "names", "blocks", "_calls", "inlined")

    def __init__(self, raw):
        self.raw = raw
        self.name = raw["name"]
        self.nname = norm(raw["name"])
        self.kind = raw["kind"]
        self.loc = raw["loc"]
        self.expn = raw["expn"]
        self.argc = raw["argc"]
        self.locals = raw["locals"]
        self.names = {int(k): v for k, v in raw["names"].items()}
        self.blocks = raw["blocks"]
        self._calls = None
        self.inlined = []

    def calls(self):
        """[(bb, term)] for every Call terminator in non-cleanup blocks, in block order."""
        if self._calls is None:
            r = []
            for i, b in enumerate(self.blocks):
                t = b["term"]
                if t and t["k"] == "call" and not b["cleanup"]:
                    r.append((i, t))
            self._calls = r
        return self._calls

    def local_name(self, l):
        return self.names.get(l, "_%d" % l)

    def local_ty(self, l):
        return self.locals[l]["s"]

    def local_adt(self, l):
        return self.locals[l]["adt"]


def callee_of(term):
    c = term["callee"]
    return norm(c["resolved"] or c["path"])


def callee_path(term):
    return norm(term["callee"]["path"])


class Facts:
    def __init__(self, dirs, nonce=None, config="default"):
        self.config = config
        self.bodies = {}
        self.raw_names = {}
        self.adts = {}
        self.crates = []
        for d in dirs if isinstance(dirs, (list, tuple)) else [dirs]:
            for f in sorted(glob.glob(os.path.join(d, "*.json"))):
                j = json.load(open(f))
                if nonce is not None and j.get("nonce") != nonce:
                    raise ExtractError("stale facts (nonce mismatch) in %s" % f)
                self.crates.append((j["crate"], j["crate_types"], len(j["bodies"])))
                prefix = "" if "Rlib" in j["crate_types"] or "Lib" in j["crate_types"] else "bin::"
                self.adts.update(j["adts"])
                for rb in j["bodies"]:
                    b = Body(rb)
                    if prefix:
                        b.nname = prefix + b.nname
                    if b.nname in self.bodies:
                        # two impls can normalise to one name (EvalString<&str>::as_cow vs <String>)
                        k = 1
                        while "%s#%d" % (b.nname, k) in self.bodies:
                            k += 1
                        b.nname = "%s#%d" % (b.nname, k)
                    self.bodies[b.nname] = b
        self._callers = None
        self._views = {}
        self._anchors = None

    # -- helper inlining ------------------------------------------------------------------------
    # Path rules are written against the functions the rules name (anchors).  A refactoring that moves part
    # of an anchor's body into a new private helper must not blind or alarm them, so `body()` hands out a
    # *view* in which calls to crate-local, non-anchored, non-recursive helpers are spliced into the caller's
    # CFG (callee locals/blocks renumbered, parameters assigned from the arguments, `return` replaced by an
    # assignment to the call destination and a goto).  WHO censuses keep using the raw bodies and attribute a
    # helper to its unique caller (`owner`).
    LOGIC_PREFIXES = ("work::", "run::", "task::", "db::", "load::", "parse::", "depfile::", "graph::", "hash::", "process_posix::", "progress_fancy::", "progress_dumb::", "progress::", "scanner::", "canon::", "eval::", "terminal::")

    def _load_anchors(self):
        names = set()
        try:
            for line in open(os.path.join(VERIF, "analysis", "anchors.txt")):
                line = line.strip()
                if line and not line.startswith("#"):
                    names.add(line)
        except OSError:
            pass
        return names

    def anchored(self, nname):
        if self._anchors is None:
            self._anchors = self._load_anchors()
        return nname in self._anchors

    def inlinable(self, nname, caller=None):
        b = self.bodies.get(nname)
        if b is None or b.kind not in ("fn", "assoc") or b.expn:
            return False
        if not nname.startswith(self.LOGIC_PREFIXES):
            return False
        if self.anchored(nname):
            return False
        if len(b.blocks) > 120:
            return False
        for _, t in b.calls():
            if callee_of(t) == nname:
                return False
        return True

    def owner(self, nname):
        """the anchored function a helper / closure belongs to for who-may-call purposes"""
        seen = set()
        while nname not in seen:
            seen.add(nname)
            if "::{closure#" in nname:
                nname = nname.split("::{closure#")[0]
                continue
            if not self.inlinable(nname):
                return nname
            callers = {b.nname.split("::{closure#")[0] for b, _, _ in self.call_sites(nname)} - {nname}
            if len(callers) != 1:
                return nname
            nname = next(iter(callers))
        return nname

    def raw(self, nname):
        return self.bodies.get(nname)

    def body(self, nname):
        b = self.bodies.get(nname)
        if b is None or b.kind == "promoted" or os.environ.get("N2SA_NO_INLINE"):
            return b
        v = self._views.get(nname)
        if v is None:
            v = self._views[nname] = self._inline(b, 3, (nname,))
        return v

    def _inline(self, body, depth, stack):
        if depth == 0:
            return body
        targets = [(bi, blk["term"]) for bi, blk in enumerate(body.blocks) if not blk["cleanup"] and blk["term"] and blk["term"]["k"] == "call" and blk["term"]["target"] >= 0 and callee_of(blk["term"]) not in stack and self.inlinable(callee_of(blk["term"])) and not blk["term"]["dest"]["p"]]
        if not targets:
            return body
        import copy

        raw = copy.deepcopy({k: body.raw[k] for k in ("name", "kind", "loc", "expn", "argc", "locals", "names", "blocks")})
        for bi, t in targets:
            cname = callee_of(t)
            cb = self._inline(self.bodies[cname], depth - 1, stack + (cname,))
            lbase = len(raw["locals"])
            bbase = len(raw["blocks"])
            raw["locals"].extend(copy.deepcopy(cb.locals))
            for l, nm in cb.names.items():
                raw["names"][str(l + lbase)] = nm

            def fix_place(pl):
                pl["l"] += lbase
                for pr in pl["p"]:
                    if pr["k"] == "index":
                        pr["l"] += lbase

            def fix_op(o):
                if o is None:
                    return
                if o["k"] in ("copy", "move"):
                    fix_place(o["place"])
                elif o["k"] == "const" and o.get("promoted", -1) >= 0 and "pname" not in o:
                    o["pname"] = cb.name if "pname" not in o else o["pname"]

            def fix_rv(rv):
                k = rv["k"]
                if k in ("use", "cast"):
                    fix_op(rv["op"])
                elif k in ("ref", "rawptr", "discr"):
                    fix_place(rv["place"])
                elif k == "bin":
                    fix_op(rv["a"])
                    fix_op(rv["b"])
                elif k == "un":
                    fix_op(rv["a"])
                elif k == "agg":
                    for o in rv["ops"]:
                        fix_op(o)

            new_blocks = copy.deepcopy(cb.blocks)
            call_blk = raw["blocks"][bi]
            dest = call_blk["term"]["dest"]
            ret_target = call_blk["term"]["target"]
            for nb in new_blocks:
                for st in nb["stmts"]:
                    if st["k"] == "assign":
                        fix_place(st["place"])
                        fix_rv(st["rv"])
                    elif st["k"] == "setdiscr":
                        fix_place(st["place"])
                    elif st["k"] == "dead":
                        st["l"] += lbase
                tt = nb["term"]
                if tt is None:
                    continue
                k = tt["k"]
                if k in ("goto", "drop", "assert"):
                    tt["target"] += bbase
                    if k == "drop":
                        fix_place(tt["place"])
                    if k == "assert":
                        fix_op(tt["cond"])
                elif k == "switch":
                    fix_op(tt["discr"])
                    tt["arms"] = [[v, x + bbase] for v, x in tt["arms"]]
                    tt["otherwise"] += bbase
                elif k == "call":
                    for a in tt["args"]:
                        fix_op(a)
                    fix_place(tt["dest"])
                    if tt["target"] >= 0:
                        tt["target"] += bbase
                    if tt["callee"].get("op"):
                        fix_op(tt["callee"]["op"])
                elif k == "return":
                    nb["stmts"].append({"k": "assign", "place": copy.deepcopy(dest), "rv": {"k": "use", "op": {"k": "move", "place": {"l": lbase, "p": [], "ty": cb.locals[0]}}}, "loc": call_blk["term"]["loc"]})
                    nb["term"] = {"k": "goto", "target": ret_target}
            # parameter passing, then jump into the callee
            for ai, a in enumerate(call_blk["term"]["args"]):
                call_blk["stmts"].append({"k": "assign", "place": {"l": lbase + 1 + ai, "p": [], "ty": cb.locals[1 + ai]}, "rv": {"k": "use", "op": a}, "loc": call_blk["term"]["loc"], "inlined_arg": cname})
            call_blk["term"] = {"k": "goto", "target": bbase, "inlined": cname, "loc": call_blk["term"]["loc"]}
            raw["blocks"].extend(new_blocks)
        nb_ = Body(raw)
        nb_.nname = body.nname
        nb_.inlined = sorted({callee_of(t) for _, t in targets})
        return nb_

    def absorbed(self, nname):
        """a helper whose body is spliced into (all of) its callers' views: path rules must not look at it on its own"""
        if not self.inlinable(nname):
            return False
        callers = [b for b, _, _ in self.call_sites(nname)]
        return bool(callers) and all(c.kind in ("fn", "assoc") or "::{closure#" in c.nname for c in callers)

    def view_bodies(self):
        """the bodies path rules iterate over: the inlined view of every non-promoted body that is not itself absorbed into
        its callers (so a construct moved into a new helper is seen once, inside its owner, with the owner's context)"""
        r = []
        for b in self.all_bodies():
            if self.absorbed(b.nname):
                continue
            r.append(self.body(b.nname))
        return r

    def inlined_helpers(self):
        return sorted({h for v in self._views.values() for h in getattr(v, "inlined", [])})

    def fns(self, include_promoted=False, include_derives=False):
        for b in self.bodies.values():
            if b.kind == "promoted" and not include_promoted:
                continue
            if b.expn and not include_derives:
                continue
            yield b

    def all_bodies(self):
        """every non-promoted body, derives included"""
        return [b for b in self.bodies.values() if b.kind != "promoted"]

    def promoted(self, body, idx, pname=None):
        base = pname or body.name
        # promoted bodies are named `<raw name>::promoted[i]`
        return self.bodies.get(norm("%s::promoted[%d]" % (base, idx)))

    def call_sites(self, callee, exact=True):
        """[(body, bb, term)] of all non-cleanup call sites whose resolved callee is `callee`."""
        r = []
        for b in self.all_bodies():
            for bb, t in b.calls():
                c = callee_of(t)
                if c == callee or (not exact and callee in c) or callee_path(t) == callee:
                    r.append((b, bb, t))
        return r

    def view_call_sites(self, callee):
        """call sites as the path rules see them: in the inlined views, so a site moved into a private helper appears in its caller(s)"""
        r = []
        for b in self.view_bodies():
            for bb, t in b.calls():
                if callee_of(t) == callee or callee_path(t) == callee:
                    r.append((b, bb, t))
        return r

    def variants(self, adt):
        return [v["name"] for v in self.adts[adt]["variants"]]

    def discr(self, adt, variant):
        for v in self.adts[adt]["variants"]:
            if v["name"] == variant:
                return v["discr"]
        return None

    def variant_of_discr(self, adt, d):
        for v in self.adts[adt]["variants"]:
            if v["discr"] == d:
                return v["name"]
        return None

    def struct_fields(self, adt):
        a = self.adts.get(adt)
        if not a:
            return None
        return a["variants"][0]["fields"]


def load_current(config="default", repo=None):
    """Extract and load facts for the current tree; the facts dir is removed after loading."""
    out, nonce, dt = extract(config, repo)
    try:
        f = Facts(out, nonce, config)
    finally:
        shutil.rmtree(out, ignore_errors=True)
    f.extract_s = dt
    return f


# ----------------------------------------------------------------------------------------------
# place / operand helpers


def place_fields(pl):
    """names of the Field projections of a place, outermost first (`self.build_states.counts`)."""
    return [p["name"] or str(p["i"]) for p in pl["p"] if p["k"] == "field"]


def last_field(pl):
    """(owner adt path [::Variant], field name) of the *last* projection if it is a field, else None."""
    for p in reversed(pl["p"]):
        if p["k"] == "field":
            return (p["of"], p["name"] or str(p["i"]))
        if p["k"] in ("deref",):
            continue
        return None
    return None


def any_field(pl, owner, name):
    for p in pl["p"]:
        if p["k"] == "field" and p["of"] == owner and p["name"] == name:
            return True
    return False


def place_str(body, pl):
    s = body.local_name(pl["l"]) if body else "_%d" % pl["l"]
    for p in pl["p"]:
        k = p["k"]
        if k == "deref":
            s = "(*%s)" % s
        elif k == "field":
            s += "." + (p["name"] or str(p["i"]))
        elif k == "downcast":
            s += " as " + p["variant"]
        elif k == "index":
            s += "[_%d]" % p["l"]
        elif k == "cindex":
            s += "[%d]" % p["offset"]
        elif k == "subslice":
            s += "[%d..%s%d]" % (p["from"], "-" if p["from_end"] else "", p["to"])
        else:
            s += ".?"
    return s


def op_place(op):
    if op["k"] in ("copy", "move"):
        return op["place"]
    return None


def op_local(op):
    """local index if the operand is a bare local (no projection)"""
    pl = op_place(op)
    if pl is not None and not pl["p"]:
        return pl["l"]
    return None


def op_const_int(op):
    if op["k"] == "const":
        return op["int"]
    return None


def op_str(body, op):
    if op["k"] in ("copy", "move"):
        return place_str(body, op["place"])
    if op["k"] == "const":
        if op.get("fn"):
            return "fn " + norm(op["fn"]["path"])
        if op["int"] is not None:
            return "const %s" % op["int"]
        if op["promoted"] >= 0:
            return "promoted[%d]" % op["promoted"]
        return "const %s" % op["repr"]
    return op.get("d", "?")
