"""Exhaustive byte-class tables of lexer dispatch code.

For a call site that yields one input byte (Scanner::read / Scanner::peek, whose result is `buf[ofs] as char`,
i.e. a value in 0..=255) the code following the call is interpreted for each of the 256 possible values with a
concrete value for the byte and *unknown* for everything else.  The outcome of a value is the set of first
events reachable: the next call (by callee), a return, or re-entering the site.  This is a finite-domain
abstract interpretation of the dispatch predicate (a pure function of the byte); no program is executed.
"""
from .facts import callee_of

CMP = {"Eq": lambda a, b: a == b, "Ne": lambda a, b: a != b, "Lt": lambda a, b: a < b, "Le": lambda a, b: a <= b, "Gt": lambda a, b: a > b, "Ge": lambda a, b: a >= b}
SKIP_CALLEES = ()


def _val(env, op):
    if op["k"] == "const":
        return op["int"]
    if op["k"] in ("copy", "move") and not op["place"]["p"]:
        return env.get(op["place"]["l"])
    if op["k"] in ("copy", "move") and len(op["place"]["p"]) == 1 and op["place"]["p"][0]["k"] == "deref":
        return env.get(("*", op["place"]["l"]))
    return None


def predicate_table(body, param_local, deref=True):
    """for a bool-returning function of one byte (passed by reference when deref): {True: [bytes], False: [bytes], None: [bytes]}"""
    r = {}
    for v in range(256):
        env0 = {("*", param_local): v} if deref else {param_local: v}
        res = _run_to_return(body, env0)
        r.setdefault(res, []).append(v)
    return r


def _run_to_return(body, env0, max_steps=200):
    bb, env = 0, dict(env0)
    for _ in range(max_steps):
        blk = body.blocks[bb]
        for s in blk["stmts"]:
            if s["k"] != "assign" or s["place"]["p"]:
                continue
            rv = s["rv"]
            val = None
            if rv["k"] in ("use", "cast"):
                val = _val(env, rv["op"])
            elif rv["k"] == "bin":
                a, b_ = _val(env, rv["a"]), _val(env, rv["b"])
                if a is not None and b_ is not None and rv["op"] in CMP:
                    val = int(CMP[rv["op"]](a, b_))
            elif rv["k"] == "un" and rv["op"] == "Not":
                a = _val(env, rv["a"])
                val = None if a is None else int(not a)
            elif rv["k"] == "ref" and len(rv["place"]["p"]) == 1 and rv["place"]["p"][0]["k"] == "deref":
                # reborrow of a reference: keep the pointee value
                v = env.get(("*", rv["place"]["l"]))
                if v is not None:
                    env[("*", s["place"]["l"])] = v
                continue
            if val is None:
                env.pop(s["place"]["l"], None)
            else:
                env[s["place"]["l"]] = val
        t = blk["term"]
        if t is None:
            return None
        if t["k"] == "return":
            return env.get(0)
        if t["k"] in ("goto", "drop", "assert"):
            bb = t["target"]
        elif t["k"] == "switch":
            d = _val(env, t["discr"])
            if d is None:
                return None
            tgt = t["otherwise"]
            for val, b2 in t["arms"]:
                if val == d:
                    tgt = b2
            bb = tgt
        else:
            return None
    return None


def outcome(body, site_bb, v, transparent=(), max_steps=400):
    """frozenset of first events after the byte-yielding call in site_bb returned value v"""
    t0 = body.blocks[site_bb]["term"]
    dest = t0["dest"]
    env0 = {}
    if not dest["p"]:
        env0[dest["l"]] = v
    out = set()
    work = [(t0["target"], env0, 0)]
    seen = set()
    while work:
        bb, env, steps = work.pop()
        key = (bb, tuple(sorted(env.items())))
        if key in seen or steps > max_steps:
            continue
        seen.add(key)
        env = dict(env)
        blk = body.blocks[bb]
        for s in blk["stmts"]:
            if s["k"] == "dead":
                env.pop(s["l"], None)
                continue
            if s["k"] != "assign" or s["place"]["p"]:
                continue
            rv = s["rv"]
            val = None
            if rv["k"] == "use":
                val = _val(env, rv["op"])
            elif rv["k"] == "cast":
                val = _val(env, rv["op"])
            elif rv["k"] == "bin":
                a, b_ = _val(env, rv["a"]), _val(env, rv["b"])
                if a is not None and b_ is not None:
                    if rv["op"] in CMP:
                        val = int(CMP[rv["op"]](a, b_))
                    elif rv["op"] == "BitAnd":
                        val = a & b_
                    elif rv["op"] == "BitOr":
                        val = a | b_
                    elif rv["op"] == "Sub":
                        val = a - b_
                    elif rv["op"] == "Add":
                        val = a + b_
            elif rv["k"] == "un" and rv["op"] == "Not":
                a = _val(env, rv["a"])
                if a is not None:
                    val = int(not a)
            if val is None:
                env.pop(s["place"]["l"], None)
            else:
                env[s["place"]["l"]] = val
        t = blk["term"]
        if t is None:
            continue
        k = t["k"]
        if k == "return":
            out.add("return")
        elif k == "unreachable":
            continue
        elif k in ("goto", "drop", "assert"):
            work.append((t["target"], env, steps + 1))
        elif k == "switch":
            d = _val(env, t["discr"])
            if d is not None:
                tgt = t["otherwise"]
                for val, b2 in t["arms"]:
                    if val == d:
                        tgt = b2
                work.append((tgt, env, steps + 1))
            else:
                for val, b2 in t["arms"]:
                    work.append((b2, env, steps + 1))
                work.append((t["otherwise"], env, steps + 1))
        elif k == "call":
            c = callee_of(t)
            if bb == site_bb:
                out.add("again")
            elif c in transparent and t["target"] >= 0:
                env2 = dict(env)
                if not t["dest"]["p"]:
                    env2.pop(t["dest"]["l"], None)
                work.append((t["target"], env2, steps + 1))
            else:
                out.add(c)
    return frozenset(out)


def table(body, site_bb, transparent=()):
    """{outcome: sorted list of byte values}"""
    r = {}
    for v in range(256):
        r.setdefault(outcome(body, site_bb, v, transparent), []).append(v)
    return r


def ranges(vals):
    """compact description of a byte set"""
    out = []
    vals = sorted(vals)
    i = 0
    while i < len(vals):
        j = i
        while j + 1 < len(vals) and vals[j + 1] == vals[j] + 1:
            j += 1
        a, b = vals[i], vals[j]

        def ch(x):
            return repr(chr(x)) if 32 <= x < 127 else "0x%02x" % x

        out.append(ch(a) if a == b else "%s-%s" % (ch(a), ch(b)))
        i = j + 1
    return " ".join(out)
