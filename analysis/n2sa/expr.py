"""Symbolic resolution of MIR operands to expression trees (flow-insensitive backward slice).

An expression is a nested tuple:
  ('const', value)            integer / bool / char constants; strings as ('str', repr)
  ('fnptr', path)
  ('promoted', idx, value)    value = evaluated promoted constant if simple, else None
  ('param', i, name)
  ('field', base, name)       also tuple fields '0','1'
  ('deref', base) ('ref', base) ('index', base) ('downcast', base, variant)
  ('call', callee, (args...), bb)
  ('bin', op, a, b) ('un', op, a) ('cast', a, to_ty) ('discr', a)
  ('agg', kind, name, variant, (ops...))
  ('phi', (alts...))          a local with several definitions (user variable / loop)
  ('loop',)                   cyclic definition cut
  ('unk', why)
Temporaries with a single definition are substituted; `*&x` is simplified to `x`; the `.0` of a
checked-arithmetic pair is simplified to the plain operation.
"""
from .facts import callee_of, norm


class Defs:
    """definition sites of every bare local in a body"""

    def __init__(self, body):
        self.body = body
        self.defs = {}
        self.partial = {}
        for bi, b in enumerate(body.blocks):
            if b["cleanup"]:
                continue
            for si, s in enumerate(b["stmts"]):
                if s["k"] == "assign":
                    pl = s["place"]
                    if not pl["p"]:
                        self.defs.setdefault(pl["l"], []).append(("assign", bi, si, s["rv"]))
                    else:
                        self.partial.setdefault(pl["l"], []).append(("assign", bi, si, s))
            t = b["term"]
            if t and t["k"] == "call":
                pl = t["dest"]
                if not pl["p"]:
                    self.defs.setdefault(pl["l"], []).append(("call", bi, None, t))
                else:
                    self.partial.setdefault(pl["l"], []).append(("call", bi, None, t))


_CHECKED = {"AddWithOverflow": "Add", "SubWithOverflow": "Sub", "MulWithOverflow": "Mul"}


class Resolver:
    def __init__(self, facts, body, max_depth=14):
        self.F = facts
        self.body = body
        self.defs = Defs(body)
        self.max_depth = max_depth
        self._memo = {}

    # -- public -------------------------------------------------------------------------------
    def operand(self, op, depth=0, stack=()):
        k = op["k"]
        if k in ("copy", "move"):
            return self.place(op["place"], depth, stack)
        if k == "const":
            if op.get("fn"):
                return ("fnptr", norm(op["fn"]["resolved"] or op["fn"]["path"]))
            if op["int"] is not None:
                return ("const", op["int"])
            if op["promoted"] >= 0:
                return ("promoted", op["promoted"], self.promoted_value(op["promoted"]))
            return ("str", op["repr"])
        return ("unk", op.get("d", "operand"))

    def place(self, pl, depth=0, stack=()):
        e = self.local(pl["l"], depth, stack)
        for p in pl["p"]:
            e = self._project(e, p, depth, stack)
        return e

    def local(self, l, depth=0, stack=()):
        if 1 <= l <= self.body.argc:
            if l not in self.defs.defs:
                return ("param", l, self.body.local_name(l))
        if l in stack:
            return ("loop",)
        if depth > self.max_depth:
            return ("unk", "depth")
        ds = self.defs.defs.get(l, [])
        if not ds:
            if 1 <= l <= self.body.argc:
                return ("param", l, self.body.local_name(l))
            # only partially initialised (field by field) or never assigned
            return ("var", l, self.body.local_name(l))
        stack2 = stack + (l,)
        alts = []
        for d in ds:
            if d[0] == "assign":
                alts.append(self.rvalue(d[3], depth + 1, stack2))
            else:
                t = d[3]
                alts.append(self.call_expr(t, d[1], depth + 1, stack2))
        if 1 <= l <= self.body.argc:
            alts.insert(0, ("param", l, self.body.local_name(l)))
        if len(alts) == 1:
            return alts[0]
        # de-duplicate
        u = []
        for a in alts:
            if a not in u:
                u.append(a)
        if len(u) == 1:
            return u[0]
        return ("phi", tuple(u))

    def call_expr(self, t, bb, depth=0, stack=()):
        return ("call", callee_of(t), tuple(self.operand(a, depth + 1, stack) for a in t["args"]), bb)

    def rvalue(self, rv, depth=0, stack=()):
        k = rv["k"]
        if k == "use":
            return self.operand(rv["op"], depth, stack)
        if k in ("ref", "rawptr"):
            inner = self.place(rv["place"], depth, stack)
            if inner[0] == "deref":
                return inner[1]  # &*x == x (reborrow)
            return ("ref", inner)
        if k == "cast":
            return ("cast", self.operand(rv["op"], depth, stack), rv["to"]["s"])
        if k == "bin":
            return ("bin", rv["op"], self.operand(rv["a"], depth, stack), self.operand(rv["b"], depth, stack))
        if k == "un":
            return ("un", rv["op"], self.operand(rv["a"], depth, stack))
        if k == "discr":
            return ("discr", self.place(rv["place"], depth, stack))
        if k == "agg":
            return ("agg", rv["ak"], norm(rv["name"]), rv["variant"], tuple(self.operand(o, depth, stack) for o in rv["ops"]))
        return ("unk", rv.get("d", "rvalue")[:40])

    # -- helpers ------------------------------------------------------------------------------
    def _project(self, e, p, depth, stack):
        k = p["k"]
        if k == "deref":
            if e[0] == "ref":
                return e[1]
            return ("deref", e)
        if k == "field":
            name = p["name"] or str(p["i"])
            if e[0] == "bin" and e[1] in _CHECKED:
                if name == "0":
                    return ("bin", _CHECKED[e[1]], e[2], e[3])
                return ("overflow", e)
            if e[0] == "agg" and e[1] == "tuple" and name.isdigit() and int(name) < len(e[4]):
                return e[4][int(name)]
            return ("field", e, name)
        if k == "downcast":
            return ("downcast", e, p["variant"])
        if k in ("index", "cindex", "subslice"):
            return ("index", e)
        return ("unk", "proj")

    def promoted_value(self, idx):
        pb = self.F.promoted(self.body, idx)
        if pb is None:
            return None
        return eval_promoted(self.F, pb)


def eval_promoted(F, pb):
    """evaluate a promoted constant body to ('enum', adt, variant) | ('const', n) | ('str', s) | None"""
    vals = {}
    for blk in pb.blocks:
        for s in blk["stmts"]:
            if s["k"] != "assign" or s["place"]["p"]:
                continue
            rv = s["rv"]
            l = s["place"]["l"]
            if rv["k"] == "agg" and rv["ak"] == "adt":
                if not rv["ops"]:
                    vals[l] = ("enum", norm(rv["name"]), rv["variant"])
                else:
                    vals[l] = ("agg", norm(rv["name"]), rv["variant"])
            elif rv["k"] == "agg" and rv["ak"] in ("array", "tuple"):
                items = []
                for o in rv["ops"]:
                    if o["k"] == "const" and o["int"] is not None:
                        items.append(o["int"])
                    elif o["k"] == "const":
                        items.append(o["repr"])
                    else:
                        items.append(vals.get(o["place"]["l"]) if not o["place"]["p"] else None)
                vals[l] = (rv["ak"], tuple(items))
            elif rv["k"] == "ref" and not rv["place"]["p"]:
                vals[l] = vals.get(rv["place"]["l"])
            elif rv["k"] == "use":
                o = rv["op"]
                if o["k"] == "const":
                    if o["int"] is not None:
                        vals[l] = ("const", o["int"])
                    else:
                        vals[l] = ("str", o["repr"])
                elif not o["place"]["p"]:
                    vals[l] = vals.get(o["place"]["l"])
    return vals.get(0)


# ----------------------------------------------------------------------------------------------
# pattern helpers over expression trees


def strip(e):
    """peel ref / deref / cast / single-arg identity calls (Deref::deref, clone, as_ref, borrow, into_iter)"""
    IDENT = ("::deref", "::deref_mut", "::clone", "::as_ref", "::borrow", "::into_iter", "::iter", "::as_deref", "::as_slice", "::as_mut_slice")
    while True:
        if e[0] in ("ref", "deref"):
            e = e[1]
        elif e[0] == "cast":
            e = e[1]
        elif e[0] == "call" and len(e[2]) == 1 and e[1].endswith(IDENT):
            e = e[2][0]
        else:
            return e


def walk(e):
    """yield every sub-expression (pre-order)"""
    yield e
    if not isinstance(e, tuple):
        return
    for x in e[1:]:
        if isinstance(x, tuple):
            if x and isinstance(x[0], str):
                yield from walk(x)
            else:
                for y in x:
                    if isinstance(y, tuple):
                        yield from walk(y)


def calls_in(e):
    return [x for x in walk(e) if isinstance(x, tuple) and x and x[0] == "call"]


def field_chain(e):
    """for ('field', ('field', base, a), b) return (base, [a, b]) peeling derefs/refs in between"""
    names = []
    while True:
        e = strip(e) if e[0] in ("ref", "deref") else e
        if e[0] == "field":
            names.append(e[2])
            e = e[1]
        elif e[0] == "downcast":
            names.append("as " + e[2])
            e = e[1]
        else:
            break
    names.reverse()
    return e, names


def alts(e):
    """flatten phi alternatives"""
    if e[0] == "phi":
        r = []
        for a in e[1]:
            r.extend(alts(a))
        return r
    return [e]


def show(e, depth=0):
    if not isinstance(e, tuple) or not e:
        return repr(e)
    k = e[0]
    if depth > 6:
        return "…"
    if k == "const":
        return str(e[1])
    if k == "str":
        return e[1]
    if k == "param":
        return e[2]
    if k == "var":
        return e[2]
    if k == "field":
        return "%s.%s" % (show(e[1], depth + 1), e[2])
    if k == "deref":
        return "*%s" % show(e[1], depth + 1)
    if k == "ref":
        return "&%s" % show(e[1], depth + 1)
    if k == "index":
        return "%s[..]" % show(e[1], depth + 1)
    if k == "downcast":
        return "(%s as %s)" % (show(e[1], depth + 1), e[2])
    if k == "call":
        return "%s(%s)" % (e[1].split("::")[-1] if depth > 1 else e[1], ", ".join(show(a, depth + 1) for a in e[2]))
    if k == "bin":
        return "%s(%s, %s)" % (e[1], show(e[2], depth + 1), show(e[3], depth + 1))
    if k == "un":
        return "%s(%s)" % (e[1], show(e[2], depth + 1))
    if k == "cast":
        return "(%s as %s)" % (show(e[1], depth + 1), e[2])
    if k == "discr":
        return "discr(%s)" % show(e[1], depth + 1)
    if k == "agg":
        return "%s%s{%s}" % (e[2], "::" + e[3] if e[3] else "", ", ".join(show(a, depth + 1) for a in e[4]))
    if k == "phi":
        return "φ(%s)" % " | ".join(show(a, depth + 1) for a in e[1])
    if k == "promoted":
        return "promoted%s" % (e[2],)
    if k == "fnptr":
        return "fn:" + e[1]
    return str(e)
