"""Symbolic resolution of MIR operands to expression trees (flow-insensitive backward slice).

An expression is a nested tuple:
  ('const', value)            integer / bool / char constants; strings as ('str', repr)
  ('fnptr', path)
  ('promoted', idx, value)    value = evaluated promoted constant if simple, else None
  ('param', i, name)
  ('field', base, name)       also tuple fields '0','1'
  ('deref', base) ('ref', base) ('index', base) ('downcast', base, variant)
  ('call', callee, (args...), bb)
  ('bin', op, a, b) ('un', op, a) ('cast', a, to_ty) ('discr', a)
  ('agg', kind, name, variant, (ops...))
  ('phi', (alts...))          a local with several definitions (user variable / loop)
  ('loop',)                   cyclic definition cut
  ('unk', why)
Temporaries with a single definition are substituted; `*&x` is simplified to `x`; the `.0` of a
checked-arithmetic pair is simplified to the plain operation.
"""
from .facts import callee_of, norm


class Defs:
    """definition sites of every bare local in a body"""

    def __init__(self, body):
        self.body = body
        self.defs = {}
        self.partial = {}
        for bi, b in enumerate(body.blocks):
            if b["cleanup"]:
                continue
            for si, s in enumerate(b["stmts"]):
                if s["k"] == "assign":
                    pl = s["place"]
                    if not pl["p"]:
                        self.defs.setdefault(pl["l"], []).append(("assign", bi, si, s["rv"]))
                    else:
                        self.partial.setdefault(pl["l"], []).append(("assign", bi, si, s))
            t = b["term"]
            if t and t["k"] == "call":
                pl = t["dest"]
                if not pl["p"]:
                    self.defs.setdefault(pl["l"], []).append(("call", bi, None, t))
                else:
                    self.partial.setdefault(pl["l"], []).append(("call", bi, None, t))


_CHECKED = {"AddWithOverflow": "Add", "SubWithOverflow": "Sub", "MulWithOverflow": "Mul"}


class Resolver:
    """Resolves operands to expression trees.

    With a program point `at=(bb, pos)` (pos = statement index; len(stmts) = the terminator) the
    resolution is flow-sensitive: only the definitions of a local that *reach* the point are
    followed (classic reaching-definitions over the normal-edge CFG).  Without a point every
    definition of the local is an alternative.
    """

    def __init__(self, facts, body, max_depth=64):
        self.F = facts
        self.body = body
        self.defs = Defs(body)
        self.max_depth = max_depth
        self._rd = {}
        self._succ = None

    # -- reaching definitions -----------------------------------------------------------------
    def _succs(self):
        if self._succ is None:
            from .cfg import term_succs

            self._succ = []
            for b in self.body.blocks:
                if b["cleanup"]:
                    self._succ.append([])
                else:
                    self._succ.append([t for t, _ in term_succs(b["term"])])
        return self._succ

    def _pos(self, d):
        # position of a def inside its block; a call's destination is written at the very end
        return d[2] if d[0] == "assign" else len(self.body.blocks[d[1]]["stmts"])

    def _reaching_in(self, l):
        """{bb: frozenset(def indices reaching block entry)}; -1 = the value at function entry"""
        r = self._rd.get(l)
        if r is not None:
            return r
        ds = self.defs.defs.get(l, [])
        last = {}
        for i, d in enumerate(ds):
            bb = d[1]
            if bb not in last or self._pos(d) >= self._pos(ds[last[bb]]):
                last[bb] = i
        succ = self._succs()
        IN = {0: {-1}}
        work = [0]
        while work:
            b = work.pop()
            out = {last[b]} if b in last else IN[b]
            for t in succ[b]:
                cur = IN.get(t)
                if cur is None:
                    IN[t] = set(out)
                    work.append(t)
                elif not out <= cur:
                    cur |= out
                    work.append(t)
        self._rd[l] = IN
        return IN

    def reaching(self, l, at):
        """indices into defs[l] (or -1) reaching point at=(bb,pos)"""
        ds = self.defs.defs.get(l, [])
        bb, pos = at
        best = None
        for i, d in enumerate(ds):
            if d[1] == bb and self._pos(d) < pos:
                if best is None or self._pos(d) >= self._pos(ds[best]):
                    best = i
        if best is not None:
            return [best]
        return sorted(self._reaching_in(l).get(bb, {-1}))

    def term_at(self, bb):
        return (bb, len(self.body.blocks[bb]["stmts"]))

    # -- public -------------------------------------------------------------------------------
    def arg(self, bb, i):
        """expression of the i-th argument of the call terminating block bb (flow-sensitive)"""
        return self.operand(self.body.blocks[bb]["term"]["args"][i], self.term_at(bb))

    def agg_op(self, bb, stmt, i):
        """expression of the i-th operand of an aggregate statement located in block bb"""
        idx = self.body.blocks[bb]["stmts"].index(stmt)
        return self.operand(stmt["rv"]["ops"][i], (bb, idx))

    def stmt_rvalue(self, bb, stmt):
        idx = self.body.blocks[bb]["stmts"].index(stmt)
        return self.rvalue(stmt["rv"], (bb, idx))

    def discr(self, bb):
        return self.operand(self.body.blocks[bb]["term"]["discr"], self.term_at(bb))

    def operand(self, op, at=None, depth=0, stack=()):
        k = op["k"]
        if k in ("copy", "move"):
            return self.place(op["place"], at, depth, stack)
        if k == "const":
            if op.get("fn"):
                return ("fnptr", norm(op["fn"]["resolved"] or op["fn"]["path"]))
            if op["int"] is not None:
                return ("const", op["int"])
            if op["promoted"] >= 0:
                return ("promoted", op["promoted"], self.promoted_value(op["promoted"], op.get("pname")))
            return ("str", op["repr"])
        return ("unk", op.get("d", "operand"))

    def place(self, pl, at=None, depth=0, stack=()):
        e = self.local(pl["l"], at, depth, stack)
        for p in pl["p"]:
            e = self._project(e, p, depth, stack, at)
        return e

    def local(self, l, at=None, depth=0, stack=()):
        ds = self.defs.defs.get(l, [])
        is_param = 1 <= l <= self.body.argc
        if not ds:
            if is_param:
                return ("param", l, self.body.local_name(l))
            return ("var", l, self.body.local_name(l))
        if depth > self.max_depth:
            return ("unk", "depth")
        if at is None:
            idxs = list(range(len(ds)))
            if is_param:
                idxs.insert(0, -1)
        else:
            idxs = self.reaching(l, at)
        alts = []
        for i in idxs:
            if i == -1:
                alts.append(("param", l, self.body.local_name(l)) if is_param else ("uninit", l))
                continue
            key = (l, i)
            if key in stack:
                alts.append(("loop",))
                continue
            d = ds[i]
            st2 = stack + (key,)
            if d[0] == "assign":
                dat = (d[1], d[2]) if at is not None else None
                alts.append(self.rvalue(d[3], dat, depth + 1, st2))
            else:
                dat = self.term_at(d[1]) if at is not None else None
                alts.append(self.call_expr(d[3], d[1], dat, depth + 1, st2))
        u = []
        for a in alts:
            if a not in u:
                u.append(a)
        if len(u) == 1:
            return u[0]
        return ("phi", tuple(u))

    def call_expr(self, t, bb, at=None, depth=0, stack=()):
        return ("call", callee_of(t), tuple(self.operand(a, at, depth + 1, stack) for a in t["args"]), bb)

    def rvalue(self, rv, at=None, depth=0, stack=()):
        k = rv["k"]
        if k == "use":
            return self.operand(rv["op"], at, depth, stack)
        if k in ("ref", "rawptr"):
            inner = self.place(rv["place"], at, depth, stack)
            if inner[0] == "deref":
                return inner[1]  # &*x == x (reborrow)
            return ("ref", inner)
        if k == "cast":
            return ("cast", self.operand(rv["op"], at, depth, stack), rv["to"]["s"], rv["from"]["s"])
        if k == "bin":
            return ("bin", rv["op"], self.operand(rv["a"], at, depth, stack), self.operand(rv["b"], at, depth, stack))
        if k == "un":
            return ("un", rv["op"], self.operand(rv["a"], at, depth, stack))
        if k == "discr":
            return ("discr", self.place(rv["place"], at, depth, stack))
        if k == "agg":
            return ("agg", rv["ak"], norm(rv["name"]), rv["variant"], tuple(self.operand(o, at, depth, stack) for o in rv["ops"]))
        return ("unk", rv.get("d", "rvalue")[:40])

    # -- helpers ------------------------------------------------------------------------------
    def _project(self, e, p, depth, stack, at=None):
        k = p["k"]
        if k == "deref":
            if e[0] == "ref":
                return e[1]
            return ("deref", e)
        if k == "field":
            name = p["name"] or str(p["i"])
            if e[0] == "bin" and e[1] in _CHECKED:
                if name == "0":
                    return ("bin", _CHECKED[e[1]], e[2], e[3])
                return ("overflow", e)
            if e[0] == "agg" and e[1] == "tuple" and name.isdigit() and int(name) < len(e[4]):
                return e[4][int(name)]
            if e[0] == "agg" and e[1] == "adt" and e[2] == "std::ops::ControlFlow" and name == "0" and len(e[4]) == 1:
                return e[4][0]
            if e[0] == "phi" and all(a[0] == "agg" and a[1] == "tuple" and name.isdigit() and int(name) < len(a[4]) for a in e[1]):
                # the same component of every alternative tuple (a helper returning a tuple from several places)
                parts = []
                for a in e[1]:
                    if a[4][int(name)] not in parts:
                        parts.append(a[4][int(name)])
                return parts[0] if len(parts) == 1 else ("phi", tuple(parts))
            return ("field", e, name)
        if k == "downcast":
            if p["variant"] == "Continue" and e[0] == "call" and e[1].endswith("::branch") and e[2]:
                # `helper(..)?` seen through an inlined helper: on the Continue edge the operand was one of its Ok(..) values
                pay = _ok_payloads(e[2][0])
                if pay:
                    return ("agg", "adt", "std::ops::ControlFlow", "Continue", (pay[0] if len(pay) == 1 else ("phi", tuple(pay)),))
            return ("downcast", e, p["variant"])
        if k == "index":
            return ("index", e, self.local(p["l"], at, depth + 1, stack))
        if k == "cindex":
            return ("index", e, ("const", p["offset"]))
        if k == "subslice":
            return ("index", e)
        return ("unk", "proj")

    def promoted_value(self, idx, pname=None):
        pb = self.F.promoted(self.body, idx, pname)
        if pb is None:
            return None
        return eval_promoted(self.F, pb)


def _ok_payloads(x):
    """payloads of the Result::Ok aggregates among the alternatives of x, or None when some alternative is neither an Ok/Err
    aggregate nor a from_residual call (i.e. x is not wholly a locally constructed Result)"""
    x = strip(x)
    al = list(x[1]) if x[0] == "phi" else [x]
    out = []
    for a in al:
        a = strip(a)
        if a[0] == "agg" and a[1] == "adt" and a[2] == "std::result::Result" and a[3] == "Ok" and len(a[4]) == 1:
            if a[4][0] not in out:
                out.append(a[4][0])
        elif a[0] == "agg" and a[1] == "adt" and a[2] == "std::result::Result" and a[3] == "Err":
            continue
        elif a[0] == "call" and a[1].endswith("::from_residual"):
            continue
        else:
            return None
    return out or None


def eval_promoted(F, pb):
    """evaluate a promoted constant body to ('enum', adt, variant) | ('const', n) | ('str', s) | None"""
    vals = {}
    for blk in pb.blocks:
        for s in blk["stmts"]:
            if s["k"] != "assign" or s["place"]["p"]:
                continue
            rv = s["rv"]
            l = s["place"]["l"]
            if rv["k"] == "agg" and rv["ak"] == "adt":
                if not rv["ops"]:
                    vals[l] = ("enum", norm(rv["name"]), rv["variant"])
                else:
                    vals[l] = ("agg", norm(rv["name"]), rv["variant"])
            elif rv["k"] == "agg" and rv["ak"] in ("array", "tuple"):
                items = []
                for o in rv["ops"]:
                    if o["k"] == "const" and o["int"] is not None:
                        items.append(o["int"])
                    elif o["k"] == "const":
                        items.append(o["repr"])
                    else:
                        items.append(vals.get(o["place"]["l"]) if not o["place"]["p"] else None)
                vals[l] = (rv["ak"], tuple(items))
            elif rv["k"] == "ref" and not rv["place"]["p"]:
                vals[l] = vals.get(rv["place"]["l"])
            elif rv["k"] == "use":
                o = rv["op"]
                if o["k"] == "const":
                    if o["int"] is not None:
                        vals[l] = ("const", o["int"])
                    else:
                        vals[l] = ("str", o["repr"])
                elif not o["place"]["p"]:
                    vals[l] = vals.get(o["place"]["l"])
    return vals.get(0)


# ----------------------------------------------------------------------------------------------
# pattern helpers over expression trees


def strip(e):
    """peel ref / deref / cast / single-arg identity calls (Deref::deref, clone, as_ref, borrow, into_iter)"""
    IDENT = ("::deref", "::deref_mut", "::clone", "::as_ref", "::borrow", "::into_iter", "::iter", "::as_deref", "::as_slice", "::as_mut_slice")
    while True:
        if e[0] in ("ref", "deref"):
            e = e[1]
        elif e[0] == "cast":
            e = e[1]
        elif e[0] == "call" and len(e[2]) == 1 and e[1].endswith(IDENT):
            e = e[2][0]
        else:
            return e


def walk(e):
    """yield every sub-expression (pre-order)"""
    yield e
    if not isinstance(e, tuple):
        return
    for x in e[1:]:
        if isinstance(x, tuple):
            if x and isinstance(x[0], str):
                yield from walk(x)
            else:
                for y in x:
                    if isinstance(y, tuple):
                        yield from walk(y)


def calls_in(e):
    return [x for x in walk(e) if isinstance(x, tuple) and x and x[0] == "call"]


def field_chain(e):
    """for ('field', ('field', base, a), b) return (base, [a, b]) peeling derefs/refs in between"""
    names = []
    while True:
        e = strip(e) if e[0] in ("ref", "deref") else e
        if e[0] == "field":
            names.append(e[2])
            e = e[1]
        elif e[0] == "downcast":
            names.append("as " + e[2])
            e = e[1]
        else:
            break
    names.reverse()
    return e, names


def alts(e):
    """flatten phi alternatives"""
    if e[0] == "phi":
        r = []
        for a in e[1]:
            r.extend(alts(a))
        return r
    return [e]


def show(e, depth=0):
    if not isinstance(e, tuple) or not e:
        return repr(e)
    k = e[0]
    if depth > 6:
        return "…"
    if k == "const":
        return str(e[1])
    if k == "str":
        return e[1]
    if k == "param":
        return e[2]
    if k == "var":
        return e[2]
    if k == "field":
        return "%s.%s" % (show(e[1], depth + 1), e[2])
    if k == "deref":
        return "*%s" % show(e[1], depth + 1)
    if k == "ref":
        return "&%s" % show(e[1], depth + 1)
    if k == "index":
        return "%s[%s]" % (show(e[1], depth + 1), show(e[2], depth + 1) if len(e) > 2 else "..")
    if k == "downcast":
        return "(%s as %s)" % (show(e[1], depth + 1), e[2])
    if k == "call":
        return "%s(%s)" % (e[1].split("::")[-1] if depth > 1 else e[1], ", ".join(show(a, depth + 1) for a in e[2]))
    if k == "bin":
        return "%s(%s, %s)" % (e[1], show(e[2], depth + 1), show(e[3], depth + 1))
    if k == "un":
        return "%s(%s)" % (e[1], show(e[2], depth + 1))
    if k == "cast":
        return "(%s as %s)" % (show(e[1], depth + 1), e[2])
    if k == "discr":
        return "discr(%s)" % show(e[1], depth + 1)
    if k == "agg":
        return "%s%s{%s}" % (e[2], "::" + e[3] if e[3] else "", ", ".join(show(a, depth + 1) for a in e[4]))
    if k == "phi":
        return "φ(%s)" % " | ".join(show(a, depth + 1) for a in e[1])
    if k == "promoted":
        return "promoted%s" % (e[2],)
    if k == "fnptr":
        return "fn:" + e[1]
    return str(e)
