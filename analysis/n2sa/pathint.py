"""Path-enumerating abstract interpreter for loop-free MIR bodies over finite symbolic domains.

Used for effect tables (EFF): the function is interpreted for *all* values of a few symbolic
inputs with finite domains (enum variants, booleans); every switch on a symbolic value splits
the domain, so each explored path carries the exact set of inputs that take it together with
the list of effects (field updates, calls) on it.  No concrete execution, no solver: values are
lattice elements and the verdict covers every concrete run abstracted by a path.

Abstract values
  ('sym', tag)            symbolic variable; domain in state.syms[tag] (frozenset of variant names / bools)
  ('enum', adt, variant)  known enum value (fieldless)
  ('bool', b) ('int', n)
  ('ref', local)          reference to a local of this body
  ('refv', aval)          reference to a value (e.g. promoted constant)
  ('pl', descr)           reference to / value of a non-local place, descr = field path string
  ('arith', descr, delta) checked add/sub of a constant to place `descr`
  ('op', descr)           opaque
"""
from .expr import eval_promoted
from .facts import callee_of, norm, place_fields


class PathExplosion(Exception):
    pass


class Unsupported(Exception):
    pass


class PState:
    __slots__ = ("vals", "syms", "events", "trace")

    def __init__(self, vals=None, syms=None, events=None, trace=None):
        self.vals = dict(vals or {})
        self.syms = dict(syms or {})
        self.events = list(events or [])
        self.trace = list(trace or [])

    def copy(self):
        return PState(self.vals, self.syms, self.events, self.trace)


def place_descr(body, pl):
    """stable description of a non-local place: `<TypeOfBase>.field.field` using ADT-qualified last field"""
    fs = []
    for p in pl["p"]:
        if p["k"] == "field":
            fs.append("%s.%s" % (norm(p["of"]), p["name"] or p["i"]))
        elif p["k"] in ("index", "cindex"):
            fs.append("[]")
    return "/".join(fs) if fs else "_%d" % pl["l"]


class PathInt:
    def __init__(self, F, body, on_call=None, max_paths=4000):
        self.F = F
        self.body = body
        self.on_call = on_call
        self.max_paths = max_paths
        self.results = []  # (kind, state) kind in return/diverge/unreachable

    # -- value access ----------------------------------------------------------------------------
    def load(self, st, pl):
        v = st.vals.get(pl["l"])
        proj = pl["p"]
        i = 0
        while i < len(proj):
            p = proj[i]
            if p["k"] == "deref":
                if v is None:
                    return ("pl", place_descr(self.body, pl))
                if v[0] == "ref":
                    v = st.vals.get(v[1])
                elif v[0] == "refv":
                    v = v[1]
                elif v[0] == "pl":
                    rest = {"l": pl["l"], "p": proj[i + 1 :]}
                    d = place_descr(self.body, rest)
                    return ("pl", v[1] + ("/" + d if rest["p"] and not d.startswith("_") else ""))
                else:
                    return ("pl", place_descr(self.body, pl))
            elif p["k"] == "field":
                if v is not None and v[0] == "arith" and (p["name"] or str(p["i"])) == "0":
                    pass  # (x op k).0 keeps the arith value
                elif v is not None and v[0] == "arith":
                    v = ("bool", False)  # overflow flag: the assert takes the success edge
                else:
                    return ("pl", place_descr(self.body, pl))
            else:
                return ("pl", place_descr(self.body, pl))
            i += 1
        return v

    def opval(self, st, op):
        k = op["k"]
        if k in ("copy", "move"):
            return self.load(st, op["place"])
        if k == "const":
            if op["promoted"] >= 0:
                pb = self.F.promoted(self.body, op["promoted"], op.get("pname"))
                v = eval_promoted(self.F, pb) if pb else None
                if v and v[0] == "enum":
                    return ("refv", v)
                if v and v[0] == "const":
                    return ("refv", ("int", v[1]))
                return ("op", "promoted")
            if op["int"] is not None:
                if op["ty"]["s"] == "bool":
                    return ("bool", bool(op["int"]))
                return ("int", op["int"])
            return ("op", op["repr"])
        return None

    def deref(self, st, v):
        if v is None:
            return None
        if v[0] == "ref":
            return st.vals.get(v[1])
        if v[0] == "refv":
            return v[1]
        return v

    # -- domains ---------------------------------------------------------------------------------
    def domain(self, st, v):
        """(tag or None, frozenset of concrete values) for enum/bool-ish values"""
        if v is None:
            return None, None
        if v[0] == "sym":
            return v[1], st.syms[v[1]]
        if v[0] == "enum":
            return None, frozenset([v[2]])
        if v[0] == "bool":
            return None, frozenset([v[1]])
        return None, None

    def split(self, st, v, pred):
        """yield (state', truth) restricting v's domain by pred(concrete)->bool"""
        tag, dom = self.domain(st, v)
        if dom is None:
            raise Unsupported("split on non-finite value %r" % (v,))
        t = frozenset(x for x in dom if pred(x))
        f = dom - t
        for part, truth in ((t, True), (f, False)):
            if not part:
                continue
            s2 = st.copy()
            if tag is not None:
                s2.syms[tag] = part
            yield s2, truth

    # -- interpretation --------------------------------------------------------------------------
    def run(self, init_vals, init_syms):
        st = PState(init_vals, init_syms)
        self._step(0, st, 0)
        return self.results

    def _finish(self, kind, st):
        self.results.append((kind, st))
        if len(self.results) > self.max_paths:
            raise PathExplosion(self.body.nname)

    def _assign(self, st, pl, val, rv=None):
        if not pl["p"]:
            if val is None:
                st.vals.pop(pl["l"], None)
            else:
                st.vals[pl["l"]] = val
            return
        # write through a projection: an effect
        base = st.vals.get(pl["l"])
        d = place_descr(self.body, pl)
        if base is not None and base[0] == "pl" and pl["p"] and pl["p"][0]["k"] == "deref":
            rest = place_descr(self.body, {"l": pl["l"], "p": pl["p"][1:]})
            d = base[1] + ("/" + rest if not rest.startswith("_") else "")
        if val is not None and val[0] == "arith":
            st.events.append(("add", val[1], val[2], d))
        else:
            st.events.append(("write", d, self.show(st, val)))

    def show(self, st, v):
        if v is None:
            return "?"
        if v[0] == "sym":
            return "$" + v[1]
        if v[0] == "enum":
            return v[2]
        if v[0] in ("bool", "int"):
            return v[1]
        if v[0] in ("ref", "refv"):
            return self.show(st, self.deref(st, v))
        if v[0] == "pl":
            return "@" + v[1]
        return v[0] + ":" + str(v[1])

    def _step(self, bb, st, depth):
        if depth > 400:
            raise Unsupported("path too long / loop in %s" % self.body.nname)
        body = self.body
        blk = body.blocks[bb]
        st = st.copy()
        st.trace.append(bb)
        for s in blk["stmts"]:
            if s["k"] == "dead":
                st.vals.pop(s["l"], None)
                continue
            if s["k"] != "assign":
                continue
            rv = s["rv"]
            k = rv["k"]
            val = None
            if k == "use":
                val = self.opval(st, rv["op"])
            elif k == "ref" or k == "rawptr":
                rp = rv["place"]
                if not rp["p"]:
                    val = ("ref", rp["l"])
                elif len(rp["p"]) == 1 and rp["p"][0]["k"] == "deref":
                    val = st.vals.get(rp["l"])  # reborrow
                    if val is None:
                        val = ("pl", place_descr(body, rp))
                else:
                    base = st.vals.get(rp["l"])
                    if base is not None and base[0] == "pl" and rp["p"][0]["k"] == "deref":
                        rest = place_descr(body, {"l": rp["l"], "p": rp["p"][1:]})
                        val = ("pl", base[1] + ("/" + rest if not rest.startswith("_") else ""))
                    else:
                        val = ("pl", place_descr(body, rp))
            elif k == "discr":
                v = self.load(st, rv["place"])
                tag, dom = self.domain(st, v)
                adt = norm(rv["place"]["ty"]["adt"] or "")
                if dom is not None and adt in self.F.adts:
                    val = ("discr", v, adt)
                else:
                    val = ("op", "discr")
            elif k == "bin":
                a = self.opval(st, rv["a"])
                b = self.opval(st, rv["b"])
                if rv["op"] in ("AddWithOverflow", "SubWithOverflow", "Add", "Sub") and b and b[0] == "int" and a and a[0] == "pl":
                    val = ("arith", a[1], b[1] if rv["op"].startswith("Add") else -b[1])
                elif a and b and a[0] == "int" and b[0] == "int" and rv["op"] in ("Eq", "Ne", "Lt", "Le", "Gt", "Ge"):
                    x, y = a[1], b[1]
                    val = ("bool", {"Eq": x == y, "Ne": x != y, "Lt": x < y, "Le": x <= y, "Gt": x > y, "Ge": x >= y}[rv["op"]])
                else:
                    val = ("op", "%s(%s,%s)" % (rv["op"], self.show(st, a), self.show(st, b)))
            elif k == "un" and rv["op"] == "Not":
                a = self.opval(st, rv["a"])
                if a and a[0] == "bool":
                    val = ("bool", not a[1])
                elif a and a[0] == "sym":
                    val = ("not", a)
                else:
                    val = ("op", "not")
            elif k == "cast":
                val = self.opval(st, rv["op"])
            elif k == "agg" and rv["ak"] == "adt" and not rv["ops"] and norm(rv["name"]) in self.F.adts:
                val = ("enum", norm(rv["name"]), rv["variant"])
            else:
                val = ("op", k)
            self._assign(st, s["place"], val, rv)
        t = blk["term"]
        if t is None or t["k"] in ("unreachable", "resume"):
            self._finish("unreachable", st)
            return
        k = t["k"]
        if k == "return":
            self._finish("return", st)
            return
        if k in ("goto", "drop"):
            return self._step(t["target"], st, depth + 1)
        if k == "assert":
            st.events.append(("may-panic", t["msg"]))
            return self._step(t["target"], st, depth + 1)
        if k == "switch":
            return self._switch(bb, t, st, depth)
        if k == "call":
            return self._call(bb, t, st, depth)
        raise Unsupported("terminator %s" % k)

    def _switch(self, bb, t, st, depth):
        d = self.opval(st, t["discr"])
        arms = t["arms"]
        oth = t["otherwise"]
        neg = False
        if d is not None and d[0] == "not":
            d = d[1]
            neg = True
        if d is not None and d[0] in ("bool", "int"):
            n = int(d[1]) if not neg else int(not d[1])
            tgt = oth
            for v, b in arms:
                if v == n:
                    tgt = b
            return self._step(tgt, st, depth + 1)
        if d is not None and d[0] == "discr":
            _, v, adt = d
            tag, dom = self.domain(st, v)
            groups = {}
            for name in dom:
                n = self.F.discr(adt, name)
                tgt = oth
                for val, b in arms:
                    if val == n:
                        tgt = b
                groups.setdefault(tgt, set()).add(name)
            for tgt in sorted(groups):
                s2 = st.copy()
                if tag is not None:
                    s2.syms[tag] = frozenset(groups[tgt])
                self._step(tgt, s2, depth + 1)
            return
        if d is not None and d[0] == "sym":
            tag, dom = self.domain(st, d)
            groups = {}
            for x in dom:
                n = int(x) if isinstance(x, bool) else x
                if neg:
                    n = int(not x)
                tgt = oth
                for val, b in arms:
                    if val == n:
                        tgt = b
                groups.setdefault(tgt, set()).add(x)
            for tgt in sorted(groups):
                s2 = st.copy()
                s2.syms[tag] = frozenset(groups[tgt])
                self._step(tgt, s2, depth + 1)
            return
        # opaque: explore every successor (sound over-approximation), note it
        st.events.append(("opaque-branch", bb))
        seen = set()
        for v, b in arms + [["otherwise", oth]]:
            if b in seen:
                continue
            seen.add(b)
            self._step(b, st.copy(), depth + 1)

    def _call(self, bb, t, st, depth):
        callee = callee_of(t)
        args = [self.opval(st, a) for a in t["args"]]
        dest = t["dest"]
        tgt = t["target"]

        def cont(val, s2=None):
            s2 = (s2 or st).copy()
            if tgt < 0:
                self._finish("diverge", s2)
                return
            self._assign(s2, dest, val)
            self._step(tgt, s2, depth + 1)

        if self.on_call:
            r = self.on_call(self, st, bb, t, callee, args)
            if r is not None:
                for s2, val in r:
                    cont(val, s2)
                return
        if callee.endswith("PartialEq>::eq") or callee.endswith("PartialEq>::ne") or callee in ("std::cmp::PartialEq::ne", "std::cmp::PartialEq::eq"):
            is_ne = callee.endswith("ne")
            a = self.deref(st, args[0])
            b = self.deref(st, args[1])
            ta, da = self.domain(st, a)
            tb, db = self.domain(st, b)
            if da is not None and db is not None and len(db) == 1:
                k = next(iter(db))
                for s2, truth in self.split(st, a, lambda x: x == k):
                    cont(("bool", truth != is_ne), s2)
                return
            if da is not None and db is not None and len(da) == 1:
                k = next(iter(da))
                for s2, truth in self.split(st, b, lambda x: x == k):
                    cont(("bool", truth != is_ne), s2)
                return
            st.events.append(("call", callee))
            return cont(("op", "eq"))
        if callee in ("std::option::Option::unwrap", "std::option::Option::expect"):
            st2 = st.copy()
            st2.events.append(("unwrap", self.show(st, args[0])))
            return cont(args[0], st2)
        if tgt < 0:
            st2 = st.copy()
            st2.events.append(("diverge", callee))
            self._finish("diverge", st2)
            return
        st2 = st.copy()
        st2.events.append(("call", callee, tuple(self.show(st, a) for a in args)))
        cont(("op", "call:" + callee), st2)


def concretise(st):
    """all concrete assignments (dict tag->value) of a final path state"""
    tags = sorted(st.syms)
    out = [{}]
    for tg in tags:
        out = [dict(o, **{tg: v}) for o in out for v in sorted(st.syms[tg], key=str)]
    return out
