#![feature(rustc_private)]
// MIR fact extractor: a rustc driver that dumps the type-checked, callee-resolved MIR of the
// crate being compiled as JSON (one file per rustc process) for the Python analyses.
extern crate rustc_abi;
extern crate rustc_driver;
extern crate rustc_hir;
extern crate rustc_interface;
extern crate rustc_middle;
extern crate rustc_span;

use rustc_driver::Compilation;
use rustc_hir::def::DefKind;
use rustc_interface::interface::Compiler;
use rustc_middle::mir::{
    AggregateKind, BasicBlock, Body, Operand, Place, ProjectionElem, Rvalue, StatementKind,
    TerminatorKind,
};
use rustc_middle::mir::PlaceTy;
use rustc_middle::ty::{self, Ty, TyCtxt};
use std::collections::BTreeMap;
use std::fmt::Write as _;

fn esc(s: &str) -> String {
    let mut o = String::with_capacity(s.len() + 2);
    o.push('"');
    for c in s.chars() {
        match c {
            '"' => o.push_str("\\\""),
            '\\' => o.push_str("\\\\"),
            '\n' => o.push_str("\\n"),
            '\r' => o.push_str("\\r"),
            '\t' => o.push_str("\\t"),
            c if (c as u32) < 0x20 => {
                let _ = write!(o, "\\u{:04x}", c as u32);
            }
            c => o.push(c),
        }
    }
    o.push('"');
    o
}

struct Ex<'tcx> {
    tcx: TyCtxt<'tcx>,
    adts: BTreeMap<String, String>,
}

impl<'tcx> Ex<'tcx> {
    fn note_adt(&mut self, ty: Ty<'tcx>) {
        if let ty::Adt(adt, _) = ty.kind() {
            let name = self.tcx.def_path_str(adt.did());
            if self.adts.contains_key(&name) {
                return;
            }
            if !adt.did().is_local() && !(adt.is_enum() && adt.variants().len() <= 64) {
                return;
            }
            let mut s = String::new();
            let kind = if adt.is_enum() { "enum" } else if adt.is_struct() { "struct" } else { "union" };
            let _ = write!(s, "{{\"kind\":\"{}\",\"variants\":[", kind);
            let discrs: Vec<u128> = if adt.is_enum() {
                adt.discriminants(self.tcx).map(|(_, d)| d.val).collect()
            } else {
                vec![0]
            };
            for (i, v) in adt.variants().iter().enumerate() {
                if i > 0 { s.push(','); }
                let fields: Vec<String> = v.fields.iter().map(|f| esc(f.name.as_str())).collect();
                let _ = write!(s, "{{\"name\":{},\"discr\":{},\"fields\":[{}]}}", esc(v.name.as_str()), discrs.get(i).copied().unwrap_or(i as u128), fields.join(","));
            }
            s.push_str("]}");
            self.adts.insert(name, s);
        }
    }

    fn ty_json(&mut self, ty: Ty<'tcx>) -> String {
        let peeled = ty.peel_refs();
        self.note_adt(peeled);
        let adt = match peeled.kind() {
            ty::Adt(a, _) => esc(&self.tcx.def_path_str(a.did())),
            ty::Closure(d, _) => esc(&format!("closure:{}", self.tcx.def_path_str(*d))),
            ty::Dynamic(..) => esc("dyn"),
            _ => "null".to_string(),
        };
        format!("{{\"s\":{},\"adt\":{}}}", esc(&ty.to_string()), adt)
    }

    fn place_json(&mut self, body: &Body<'tcx>, p: &Place<'tcx>) -> String {
        let mut s = String::new();
        let _ = write!(s, "{{\"l\":{},\"p\":[", p.local.as_usize());
        let mut pty = PlaceTy::from_ty(body.local_decls[p.local].ty);
        for (i, elem) in p.projection.iter().enumerate() {
            if i > 0 { s.push(','); }
            match elem {
                ProjectionElem::Deref => s.push_str("{\"k\":\"deref\"}"),
                ProjectionElem::Field(f, _) => {
                    let mut fname = String::new();
                    let mut owner = String::new();
                    if let ty::Adt(adt, _) = pty.ty.kind() {
                        let vidx = pty.variant_index.unwrap_or(rustc_abi::FIRST_VARIANT);
                        let v = adt.variant(vidx);
                        fname = v.fields[f].name.to_string();
                        owner = self.tcx.def_path_str(adt.did());
                        if adt.is_enum() { owner = format!("{}::{}", owner, v.name); }
                    }
                    let _ = write!(s, "{{\"k\":\"field\",\"i\":{},\"name\":{},\"of\":{}}}", f.as_usize(), esc(&fname), esc(&owner));
                }
                ProjectionElem::Index(l) => { let _ = write!(s, "{{\"k\":\"index\",\"l\":{}}}", l.as_usize()); }
                ProjectionElem::ConstantIndex { offset, min_length, from_end } => {
                    let _ = write!(s, "{{\"k\":\"cindex\",\"offset\":{},\"min\":{},\"from_end\":{}}}", offset, min_length, from_end);
                }
                ProjectionElem::Subslice { from, to, from_end } => {
                    let _ = write!(s, "{{\"k\":\"subslice\",\"from\":{},\"to\":{},\"from_end\":{}}}", from, to, from_end);
                }
                ProjectionElem::Downcast(name, vidx) => {
                    let n = name.map(|n| n.to_string()).unwrap_or_default();
                    let _ = write!(s, "{{\"k\":\"downcast\",\"variant\":{},\"vi\":{}}}", esc(&n), vidx.as_usize());
                }
                other => { let _ = write!(s, "{{\"k\":\"other\",\"d\":{}}}", esc(&format!("{:?}", other))); }
            }
            pty = pty.projection_ty(self.tcx, elem);
        }
        let tj = self.ty_json(pty.ty);
        let _ = write!(s, "],\"ty\":{}}}", tj);
        s
    }

    fn callee_json(&mut self, caller: rustc_hir::def_id::DefId, fty: Ty<'tcx>) -> Option<String> {
        if let ty::FnDef(cdid, args) = fty.kind() {
            let env = ty::TypingEnv::post_analysis(self.tcx, caller);
            let inst = ty::Instance::try_resolve(self.tcx, env, *cdid, args);
            let resolved = match inst {
                Ok(Some(i)) => self.tcx.def_path_str(i.def_id()),
                _ => String::new(),
            };
            let args_s: Vec<String> = args.iter().map(|a| esc(&a.to_string())).collect();
            let is_foreign = self.tcx.is_foreign_item(*cdid);
            Some(format!(
                "{{\"path\":{},\"resolved\":{},\"generics\":[{}],\"foreign\":{},\"local\":{}}}",
                esc(&self.tcx.def_path_str(*cdid)), esc(&resolved), args_s.join(","), is_foreign, cdid.is_local()
            ))
        } else {
            None
        }
    }

    fn operand_json(&mut self, did: rustc_hir::def_id::DefId, body: &Body<'tcx>, op: &Operand<'tcx>) -> String {
        match op {
            Operand::Copy(p) => format!("{{\"k\":\"copy\",\"place\":{}}}", self.place_json(body, p)),
            Operand::Move(p) => format!("{{\"k\":\"move\",\"place\":{}}}", self.place_json(body, p)),
            Operand::Constant(c) => {
                let cty = c.const_.ty();
                let env = ty::TypingEnv::post_analysis(self.tcx, did);
                let mut int = "null".to_string();
                if cty.is_integral() || cty.is_bool() || cty.is_char() {
                    if let Some(si) = c.const_.try_eval_scalar_int(self.tcx, env) {
                        let size = si.size();
                        let bits = si.to_bits(size);
                        let v: i128 = if cty.is_signed() { size.sign_extend(bits) as i128 } else { bits as i128 };
                        int = v.to_string();
                    }
                }
                let f = self.callee_json(did, cty).unwrap_or_else(|| "null".to_string());
                let promoted = match c.const_ {
                    rustc_middle::mir::Const::Unevaluated(uv, _) => uv.promoted.map(|p| p.as_usize() as i64).unwrap_or(-1),
                    _ => -1,
                };
                // string-like constants (&str, &[u8], &CStr literals): export the bytes
                let mut repr = format!("{}", c.const_);
                if cty.is_ref() && promoted < 0 {
                    if let Ok(val) = c.const_.eval(self.tcx, env, c.span) {
                        if let rustc_middle::mir::ConstValue::Slice { .. } = val {
                            if let Some(bytes) = val.try_get_slice_bytes_for_diagnostics(self.tcx) {
                                let pointee = cty.peel_refs().to_string();
                                let body = String::from_utf8_lossy(bytes).into_owned();
                                if pointee != "str" {
                                    repr = format!("b{:?}", body);
                                } else {
                                    repr = format!("{:?}", body);
                                }
                            }
                        }
                    }
                }
                format!("{{\"k\":\"const\",\"ty\":{},\"int\":{},\"repr\":{},\"fn\":{},\"promoted\":{}}}",
                    self.ty_json(cty), int, esc(&repr), f, promoted)
            }
            #[allow(unreachable_patterns)]
            other => format!("{{\"k\":\"other\",\"d\":{}}}", esc(&format!("{:?}", other))),
        }
    }

    fn rvalue_json(&mut self, did: rustc_hir::def_id::DefId, body: &Body<'tcx>, rv: &Rvalue<'tcx>) -> String {
        match rv {
            Rvalue::Use(op, _) => format!("{{\"k\":\"use\",\"op\":{}}}", self.operand_json(did, body, op)),
            Rvalue::Ref(_, bk, p) => format!("{{\"k\":\"ref\",\"mut\":{},\"place\":{}}}", matches!(bk, rustc_middle::mir::BorrowKind::Mut { .. }), self.place_json(body, p)),
            Rvalue::RawPtr(_, p) => format!("{{\"k\":\"rawptr\",\"place\":{}}}", self.place_json(body, p)),
            Rvalue::CopyForDeref(p) => format!("{{\"k\":\"use\",\"op\":{{\"k\":\"copy\",\"place\":{}}}}}", self.place_json(body, p)),
            Rvalue::Cast(kind, op, ty) => format!("{{\"k\":\"cast\",\"ck\":{},\"op\":{},\"from\":{},\"to\":{}}}", esc(&format!("{:?}", kind)), self.operand_json(did, body, op), { let t = op.ty(&body.local_decls, self.tcx); self.ty_json(t) }, self.ty_json(*ty)),
            Rvalue::BinaryOp(op, ab) => format!("{{\"k\":\"bin\",\"op\":{},\"a\":{},\"b\":{}}}", esc(&format!("{:?}", op)), self.operand_json(did, body, &ab.0), self.operand_json(did, body, &ab.1)),
            Rvalue::UnaryOp(op, a) => format!("{{\"k\":\"un\",\"op\":{},\"a\":{}}}", esc(&format!("{:?}", op)), self.operand_json(did, body, a)),
            Rvalue::Discriminant(p) => format!("{{\"k\":\"discr\",\"place\":{}}}", self.place_json(body, p)),
            Rvalue::Aggregate(kind, ops) => {
                let (ak, name, variant) = match &**kind {
                    AggregateKind::Array(t) => ("array", t.to_string(), String::new()),
                    AggregateKind::Tuple => ("tuple", String::new(), String::new()),
                    AggregateKind::Adt(adid, vidx, _, _, _) => {
                        let adt = self.tcx.adt_def(*adid);
                        ("adt", self.tcx.def_path_str(*adid), adt.variant(*vidx).name.to_string())
                    }
                    AggregateKind::Closure(cdid, _) => ("closure", self.tcx.def_path_str(*cdid), String::new()),
                    _ => ("other", format!("{:?}", kind), String::new()),
                };
                let os: Vec<String> = ops.iter().map(|o| self.operand_json(did, body, o)).collect();
                format!("{{\"k\":\"agg\",\"ak\":\"{}\",\"name\":{},\"variant\":{},\"ops\":[{}]}}", ak, esc(&name), esc(&variant), os.join(","))
            }
            other => format!("{{\"k\":\"other\",\"d\":{}}}", esc(&format!("{:?}", other))),
        }
    }

    fn loc(&self, span: rustc_span::Span) -> String {
        let sm = self.tcx.sess.source_map();
        let lo = sm.lookup_char_pos(span.lo());
        format!("{}:{}", lo.file.name.prefer_local_unconditionally(), lo.line)
    }

    fn body_json(&mut self, did: rustc_hir::def_id::DefId, name: &str, kind: &str, body: &Body<'tcx>) -> String {
        let mut s = String::new();
        let _ = write!(s, "{{\"name\":{},\"kind\":\"{}\",\"loc\":{},\"expn\":{},\"argc\":{},\"locals\":[", esc(name), kind, esc(&self.loc(body.span)), body.span.from_expansion(), body.arg_count);
        for (i, (_, d)) in body.local_decls.iter_enumerated().enumerate() {
            if i > 0 { s.push(','); }
            let t = self.ty_json(d.ty);
            s.push_str(&t);
        }
        s.push_str("],\"names\":{");
        let mut first = true;
        for vdi in &body.var_debug_info {
            if let rustc_middle::mir::VarDebugInfoContents::Place(p) = &vdi.value {
                if p.projection.is_empty() {
                    if !first { s.push(','); }
                    first = false;
                    let _ = write!(s, "\"{}\":{}", p.local.as_usize(), esc(vdi.name.as_str()));
                }
            }
        }
        s.push_str("},\"blocks\":[");
        for (bi, (_bb, data)) in body.basic_blocks.iter_enumerated().enumerate() {
            if bi > 0 { s.push(','); }
            let _ = write!(s, "{{\"cleanup\":{},\"stmts\":[", data.is_cleanup);
            let mut firsts = true;
            for st in &data.statements {
                let js = match &st.kind {
                    StatementKind::Assign(b) => {
                        let (p, rv) = &**b;
                        Some(format!("{{\"k\":\"assign\",\"place\":{},\"rv\":{},\"loc\":{}}}", self.place_json(body, p), self.rvalue_json(did, body, rv), esc(&self.loc(st.source_info.span))))
                    }
                    StatementKind::SetDiscriminant { place, variant_index } => Some(format!("{{\"k\":\"setdiscr\",\"place\":{},\"vi\":{}}}", self.place_json(body, place), variant_index.as_usize())),
                    StatementKind::StorageDead(l) => Some(format!("{{\"k\":\"dead\",\"l\":{}}}", l.as_usize())),
                    _ => None,
                };
                if let Some(js) = js {
                    if !firsts { s.push(','); }
                    firsts = false;
                    s.push_str(&js);
                }
            }
            s.push_str("],\"term\":");
            let bbn = |b: &BasicBlock| b.as_usize();
            let t = match &data.terminator {
                None => "null".to_string(),
                Some(term) => {
                    let loc = esc(&self.loc(term.source_info.span));
                    let expn = term.source_info.span.from_expansion();
                    match &term.kind {
                        TerminatorKind::Goto { target } => format!("{{\"k\":\"goto\",\"target\":{}}}", bbn(target)),
                        TerminatorKind::SwitchInt { discr, targets } => {
                            let arms: Vec<String> = targets.iter().map(|(v, b)| format!("[{},{}]", v, bbn(&b))).collect();
                            format!("{{\"k\":\"switch\",\"discr\":{},\"discr_ty\":{},\"arms\":[{}],\"otherwise\":{},\"loc\":{}}}", self.operand_json(did, body, discr), { let t = discr.ty(&body.local_decls, self.tcx); self.ty_json(t) }, arms.join(","), bbn(&targets.otherwise()), loc)
                        }
                        TerminatorKind::Return => "{\"k\":\"return\"}".to_string(),
                        TerminatorKind::Unreachable => "{\"k\":\"unreachable\"}".to_string(),
                        TerminatorKind::UnwindResume => "{\"k\":\"resume\"}".to_string(),
                        TerminatorKind::Drop { place, target, .. } => format!("{{\"k\":\"drop\",\"place\":{},\"target\":{}}}", self.place_json(body, place), bbn(target)),
                        TerminatorKind::Call { func, args, destination, target, .. } => {
                            let fty = func.ty(&body.local_decls, self.tcx);
                            let callee = self.callee_json(did, fty).unwrap_or_else(|| format!("{{\"path\":\"<indirect>\",\"resolved\":\"\",\"generics\":[],\"foreign\":false,\"local\":false,\"op\":{}}}", self.operand_json(did, body, func)));
                            let a: Vec<String> = args.iter().map(|sp| self.operand_json(did, body, &sp.node)).collect();
                            format!("{{\"k\":\"call\",\"callee\":{},\"args\":[{}],\"dest\":{},\"target\":{},\"loc\":{},\"expn\":{}}}", callee, a.join(","), self.place_json(body, destination), target.map(|t| t.as_usize() as i64).unwrap_or(-1), loc, expn)
                        }
                        TerminatorKind::Assert { cond, expected, msg, target, .. } => {
                            let mk = format!("{:?}", msg);
                            let mk = mk.split('(').next().unwrap_or("").to_string();
                            format!("{{\"k\":\"assert\",\"cond\":{},\"expected\":{},\"msg\":{},\"target\":{},\"loc\":{}}}", self.operand_json(did, body, cond), expected, esc(&mk), bbn(target), loc)
                        }
                        other => format!("{{\"k\":\"other\",\"d\":{}}}", esc(&format!("{:?}", other).chars().take(80).collect::<String>())),
                    }
                }
            };
            s.push_str(&t);
            s.push('}');
        }
        s.push_str("]}");
        s
    }
}

struct Cb;
impl rustc_driver::Callbacks for Cb {
    fn after_analysis<'tcx>(&mut self, _c: &Compiler, tcx: TyCtxt<'tcx>) -> Compilation {
        let crate_name = tcx.crate_name(rustc_hir::def_id::LOCAL_CRATE).to_string();
        let out_dir = match std::env::var("N2FACTS_OUT") { Ok(d) => d, Err(_) => return Compilation::Continue };
        let crate_types: Vec<String> = tcx.crate_types().iter().map(|t| format!("{:?}", t)).collect();
        let mut ex = Ex { tcx, adts: BTreeMap::new() };
        let mut bodies: Vec<String> = Vec::new();
        for &ldid in tcx.mir_keys(()) {
            let did = ldid.to_def_id();
            let kind = tcx.def_kind(did);
            let k = match kind { DefKind::Fn => "fn", DefKind::AssocFn => "assoc", DefKind::Closure => "closure", _ => continue };
            let name = tcx.def_path_str(did);
            let body = tcx.optimized_mir(did);
            bodies.push(ex.body_json(did, &name, k, body));
            let promoted = tcx.promoted_mir(did);
            for (pi, pb) in promoted.iter_enumerated() {
                let pname = format!("{}::promoted[{}]", name, pi.as_usize());
                bodies.push(ex.body_json(did, &pname, "promoted", pb));
            }
        }
        let mut out = String::new();
        let nonce = std::env::var("N2FACTS_NONCE").unwrap_or_default();
        let _ = write!(out, "{{\"crate\":{},\"crate_types\":{},\"nonce\":{},\"adts\":{{", esc(&crate_name), esc(&crate_types.join(",")), esc(&nonce));
        // bodies first populate adts
        let adts: Vec<String> = ex.adts.iter().map(|(k, v)| format!("{}:{}", esc(k), v)).collect();
        out.push_str(&adts.join(","));
        out.push_str("},\"bodies\":[");
        out.push_str(&bodies.join(",\n"));
        out.push_str("]}");
        let path = format!("{}/{}-{}.json", out_dir, crate_name, crate_types.join("_"));
        std::fs::write(&path, out).expect("write facts");
        eprintln!("N2FACTS wrote {} bodies={}", path, bodies.len());
        Compilation::Continue
    }
}

fn main() {
    let mut args: Vec<String> = std::env::args().collect();
    // RUSTC_WORKSPACE_WRAPPER: argv[1] is the real rustc path
    args.remove(1);
    rustc_driver::run_compiler(&args, &mut Cb);
}
