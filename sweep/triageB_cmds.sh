#!/bin/bash
# verdicts for the second-generation sweep (tools/mutgen2.py)
S=${1:-/tmp/sweepB.jsonl}
T="python3 /verif/tools/triage.py $S"
$T control C04 "the first declared pool is never registered" n00011
$T equivalent - "inside a comment / trace-only code" n00034 n00035 n00036 n00037
$T control C06,C05 "only unlimited pools are ever popped: steps queued in a depth-limited pool are stranded" n00093
$T control C02 "only the first dirtying input is re-stat'ed after the command ran" n00148
$T equivalent - "iteration order reversed, same set" n00149 n00363
$T equivalent - "which missing output is reported (first or last)" n00185
$T out-of-scope - "explain / trace switches" n00199 n00202 n00203 n00210 n00253 n00254
$T control C08 "a producer compared with itself: records whose outputs belong to different steps are accepted" n00320
$T out-of-scope - "signature / version of a foreign file accepted" n00333 n00335
