#!/bin/bash
# verdicts for the second-generation sweep (tools/mutgen2.py)
S=${1:-/tmp/sweepB2.jsonl}
T="python3 /verif/tools/triage.py $S"
$T control C04 "the first declared pool is never registered" n00011
$T equivalent - "inside a comment / trace-only code" n00034 n00035 n00036 n00037
$T control C06,C05 "only unlimited pools are ever popped: steps queued in a depth-limited pool are stranded" n00093
$T control C02 "only the first dirtying input is re-stat'ed after the command ran" n00148
$T equivalent - "iteration order reversed, same set" n00149 n00363
$T equivalent - "which missing output is reported (first or last)" n00185
$T out-of-scope - "explain / trace switches" n00199 n00202 n00203 n00210 n00253 n00254
$T control C08 "a producer compared with itself: records whose outputs belong to different steps are accepted" n00320
$T out-of-scope - "signature / version of a foreign file accepted" n00333 n00335
$T out-of-scope - "an empty identifier / variable name is accepted instead of reported: differs only on input outside the supported syntax" n00550 n00584
$T control C11 "environments consulted back to front: the outermost binding wins" n00608
$T equivalent - "capacity estimate only" n00611 n00613
$T equivalent - "capacity estimate only" n00616 n00620
$T equivalent - "StackStack::push still bounds-checks vals[n]: the 61st component panics either way (F6)" n00649 n00650 n00651
$T equivalent - "src and dst are both 0 at that point" n00662
$T control C13 "the byte after `..` is looked up at the write cursor instead of the read cursor" n00677
$T out-of-scope - "assert_unchecked hints (numeric invariants of the in-place rewrite are not decided)" n00681 n00682 n00683 n00688 n00689 n00690 n00696 n00697 n00698 n00713 n00714 n00715 n00717
$T control C13 "the component stack remembers the read cursor instead of the write cursor: `..` pops to the wrong place" n00702
$T control C13 "the end of the copied span is counted from the write cursor" n00709
$T control C09 "/showIncludes: blanks are skipped from the end of the line" n00774
$T out-of-scope - "thread-id slots of the trace/display" n00810
$T equivalent - "defensive end-of-buffer panic in Scanner::read moved by one: never reached, the typestate shows no read after the NUL" n00868
$T out-of-scope - "layout of the diagnostic / of n2's own log lines" n00880 n00887 n00888 n00889 n00935 n00936
$T control C20,C06,C16 "the render thread's handle is not kept: Drop unwraps None and panics at exit" n00909
$T out-of-scope - "verbose switch; figures and order of the status display" n00919 n00920 n00937 n00938 n00940 n00944
$T equivalent - "ids are unique: searching from the other end finds the same task" n00930
$T out-of-scope - "plain console: description line repeated or not, hide_success honoured or not, empty output written: no captured byte lost" n00988 n00991 n00995 n00996
$T control C18 "every named target is skipped as if it were the manifest whenever the manifest is not a build output" n01023
$T equivalent - "inside the usage text" n01033
$T out-of-scope - "--version output" n01034 n01035
$T control C04 "the default parallelism always replaces the -j value" n01036
$T out-of-scope - "DenseMap::set_grow grows one element early (the maps it is used on are never empty)" n01045
$T equivalent - "keys are unique: searching from the other end finds the same entry" n01052
$T out-of-scope - "the `used generated file .. no dependency path` diagnostic is disabled: the file is stat()ed instead; a misuse diagnostic, not one of the properties" n00121
$T out-of-scope - "de-duplication of reported dependencies (not needed by the property; rule relaxed)" n00135 n00138
$T out-of-scope - "hide_progress" n00819 n00820
$T control C16 "errors of posix_spawn / pipe2 / waitpid family calls are never reported (result checker neutralised)" n00829 n00831
$T equivalent - "cfg(feature = crlf) code, not compiled in the default configuration" n00843 n00844 n00845 n00846 n00847 n00848 n00849 n00859 n00860 n00861
$T equivalent - "defensive panics in Scanner::back / read that the typestate shows unreachable" n00851 n00866
$T out-of-scope - "Scanner::back stepping over a carriage return (inputs with CR LF without the crlf feature are not supported)" n00856 n00858
