#!/bin/bash
# verdicts for the third-generation sweep (tools/mutgen3.py)
S=${1:-/tmp/sweepC.jsonl}
T="python3 /verif/tools/triage.py $S"
$T equivalent - "independent statements exchanged" p00006 p00021 p00065 p00066
$T equivalent - "the manifest target is wanted again (already Done): no effect" p00026
$T out-of-scope - "de-duplication of reported dependencies / of created directories removed (neither is needed)" p00031 p00032 p00062
$T out-of-scope - "an I/O error of the log write / of a stat is ignored: error handling of the filesystem is not one of the properties (a torn record is repaired on the next load)" p00039 p00051 p00054
$T out-of-scope - "explain output" p00057 p00058
$T equivalent - "set(Running) and create_parent_dirs exchanged: both still precede Runner::start" p00068
