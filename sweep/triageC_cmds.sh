#!/bin/bash
# verdicts for the third-generation sweep (tools/mutgen3.py)
S=${1:-/tmp/sweepC.jsonl}
T="python3 /verif/tools/triage.py $S"
$T equivalent - "independent statements exchanged" p00006 p00021 p00065 p00066
$T equivalent - "the manifest target is wanted again (already Done): no effect" p00026
$T out-of-scope - "de-duplication of reported dependencies / of created directories removed (neither is needed)" p00031 p00032 p00062
$T out-of-scope - "an I/O error of the log write / of a stat is ignored: error handling of the filesystem is not one of the properties (a torn record is repaired on the next load)" p00039 p00051 p00054
$T out-of-scope - "explain output" p00057 p00058
$T equivalent - "set(Running) and create_parent_dirs exchanged: both still precede Runner::start" p00068
$T equivalent - "independent statements exchanged" p00074 p00099 p00102 p00103
$T out-of-scope - "trace output" p00081
$T equivalent - "dependents are promoted before the finished step is recorded: their own dirty checks still run after both (same loop iteration), and an error from record_finished still aborts" p00087
$T out-of-scope - "an I/O error (stat, log write) is ignored: filesystem error handling is not one of the properties" p00088 p00094 p00095 p00101
