#!/bin/bash
# verdicts for the third-generation sweep (tools/mutgen3.py)
S=${1:-/tmp/sweepC2.jsonl}
T="python3 /verif/tools/triage.py $S"
$T equivalent - "independent statements exchanged" p00006 p00021 p00065 p00066
$T equivalent - "the manifest target is wanted again (already Done): no effect" p00026
$T out-of-scope - "de-duplication of reported dependencies / of created directories removed (neither is needed)" p00031 p00032 p00062
$T out-of-scope - "an I/O error of the log write / of a stat is ignored: error handling of the filesystem is not one of the properties (a torn record is repaired on the next load)" p00039 p00051 p00054
$T out-of-scope - "explain output" p00057 p00058
$T equivalent - "set(Running) and create_parent_dirs exchanged: both still precede Runner::start" p00068
$T equivalent - "independent statements exchanged" p00074 p00099 p00102 p00103
$T out-of-scope - "trace output" p00081
$T equivalent - "dependents are promoted before the finished step is recorded: their own dirty checks still run after both (same loop iteration), and an error from record_finished still aborts" p00087
$T out-of-scope - "an I/O error (stat, log write) is ignored: filesystem error handling is not one of the properties" p00088 p00094 p00095 p00101
$T control C07,C08 "the outcome of a read_exact in the log reader is ignored: a short read is decoded as data instead of ending the load" p00114 p00116 p00118 p00131 p00134
$T equivalent - "independent statements exchanged" p00122 p00124 p00125 p00126 p00128 p00136 p00148 p00149 p00150 p00151 p00152 p00153 p00154 p00155 p00156 p00157 p00158 p00175 p00191 p00193 p00229 p00233 p00237 p00248
$T out-of-scope - "signature / version of a foreign file accepted" p00132 p00135
$T out-of-scope - "an I/O error (re-signing the log, creating builddir) is ignored" p00143 p00169
$T equivalent - "the expected character is known to be there (peek just saw it / read_eval stops only at it): ignoring the Result changes nothing" p00178 p00180 p00258
$T control C10,C04 "a pool header requires the newline before its name: every `pool` statement is rejected" p00188
$T out-of-scope - "an empty identifier / variable name accepted (input outside the supported syntax)" p00227 p00242
$T equivalent - "StackStack::push still bounds-checks (F6 unchanged)" p00259
$T equivalent - "independent statements / declarations exchanged" p00263 p00264 p00272 p00274 p00291 p00298 p00301 p00302 p00303 p00304 p00305 p00308 p00321 p00322 p00342 p00345
$T equivalent - "the order in which name/mtime, or the input sections, enter the manifest hash changes consistently for recording and checking" p00277 p00279 p00280
$T out-of-scope - "an I/O / syscall error is ignored (mkdir for the rspfile, pipe, setflags, close, waitpid): resource-failure handling is not one of the properties" p00288 p00311 p00312 p00313 p00323 p00326
$T out-of-scope - "last-line display one chunk behind / hide_progress" p00295 p00306
$T equivalent - "cfg(feature = crlf) code; defensive panics the typestate shows unreachable" p00329 p00330 p00336 p00337 p00332 p00339
$T out-of-scope - "Scanner::back and carriage returns (unsupported input)" p00334
$T out-of-scope - "layout of the diagnostic (ellipsis, excerpt, caret order); file and line are still named" p00346 p00347 p00349 p00350 p00351 p00352
$T equivalent - "independent statements exchanged (the buffer already has its final length; both happen under the display lock)" p00355 p00362 p00363 p00369 p00370
$T out-of-scope - "a read error while loading a file is ignored (the file shrank between stat and read): filesystem error handling" p00356
$T out-of-scope - "verbose command echo / order of text and newline in n2's own log lines" p00364 p00368
$T equivalent - "independent statements exchanged / the manifest target wanted again" p00371 p00373 p00374 p00385 p00386 p00396 p00398 p00406
$T out-of-scope - "status-line text, plain-console description line / hide_success, usage text, version output, trace flush order" p00372 p00378 p00390 p00391 p00403 p00404 p00405 p00407 p00409
$T control C06,C18 "the error of want_file / want_every_file (a dependency cycle) is dropped in run::build: the build goes on with half-marked states" p00394 p00399 p00400 p00401
