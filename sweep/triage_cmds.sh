#!/bin/bash
# verdicts for the mutation sweep's unreported survivors (tools/triage.py <sweep.jsonl> <verdict> <props|-> <why> <ids..>)
S=${1:-/tmp/sweep.jsonl}
T="python3 /verif/tools/triage.py $S"
$T equivalent - "StackStack::push indexes vals[n] with a bounds check, so without (or with a weaker) explicit capacity test the 61st component still panics: F6 unchanged" m00001 m00003
$T control C12,C13 "the empty-path guard (fix F5) no longer covers the empty string: data[0] is indexed on an empty buffer" m00017
$T equivalent - "the leading separator is skipped by the loop's separator arm anyway; only the dst<=src hint is off, the result is the same" m00022 m00024
$T control C13 "without the continue a separator falls through to the component code: an empty component is pushed, so a//.. pops the wrong entry" m00034
$T out-of-scope - "assert_unchecked hints: weakening is behaviour-preserving, strengthening is UB only if the stronger relation fails at run time; the numeric invariants of the rewrite are not decided statically (DESIGN section 8)" m00045 m00052 m00059 m00077 m00075 m00078
$T equivalent - "the log version constant changes consistently for writer and reader; only logs of another n2 build are affected" m00091 m00092
$T control C08 "a path of exactly 32768 bytes is written with the tag bit set in its length word and read back as a build record" m00107
$T equivalent - "db_ids is a write-side cache: without the insert path records are re-emitted (log grows, ids stay consistent); nothing recorded is misread" m00111 m00126
$T equivalent - "buffers are fully overwritten by read_exact" m00118 m00122 m00124 m00141
$T control C08,C07 "leaving the output loop of read_build at the first obsolete output leaves the rest of the record unread: every later record is misparsed" m00129
$T out-of-scope - "a foreign signature is accepted: not a crash-recovery or attribution scenario of C07/C08" m00145
$T control C07 "is_unexpected_eof (fix F4) misclassifies: a torn signature is no longer treated as an empty log / other io errors truncate it" m00155 m00156
$T equivalent - "capacity estimates / reserve only" m00172 m00202 m00203 m00204
$T control C02,C03 "the manifest hash loses its section separators: moving a name between adjacent categories no longer changes it" m00222 m00225 m00227
$T equivalent - "explain output only" m00236
$T control C10,C09 "deps = msvc is parsed but never stored in the Build: /showIncludes output is not interpreted" m00256
$T out-of-scope - "exit status 2 instead of 1 on an error: still non-zero" m00274
$T out-of-scope - "include/subninja paths read in path mode: differs only for names containing spaces or separators; the grammar as a whole is not decided" m00282 m00283
$T equivalent - "redundant skip_spaces (the caller / callee skips the same spaces)" m00285 m00296
$T control C10 "the pool header's newline is not consumed: its depth line is never attached and the next line is misread" m00299
$T control C10,C18 "a default statement with exactly one path is rejected (and an empty one accepted)" m00339
$T equivalent - "an empty literal part is pushed before an escape: evaluates to the same string" m00356 m00368
$T control C12,C10 "Scanner::slice is handed start > end / a window shifted past the escape: unchecked slicing out of order" m00384 m00385 m00386
$T control C10,C11 "the literal produced for an escaped character is no longer exactly that character (empty, or two bytes)" m00387 m00388
$T equivalent - "cfg(wasm) only: not part of the compiled crate" m00400
$T control C10 "read_default no longer consumes its line end" m00341
$T out-of-scope - "resource hygiene of posix_spawn attributes (leak), no observable effect on the properties" m00408
$T equivalent - "out-parameters fully overwritten by the callee (pid, buffer contents)" m00428 m00433
$T equivalent - "pipe is dropped at the end of the function anyway; EOF was already seen" m00440
$T out-of-scope - "waitpid options 0 -> 1 (WNOHANG): the child has closed its pipe but may not have exited; timing-dependent, not decidable statically here" m00442
$T control C16,C05 "a SIGINT'ed command is reported as a plain failure: the build is not stopped as interrupted" m00446
$T out-of-scope - "the word interrupted is not written to the captured output" m00445
$T control C16 "plain console: one-byte outputs are suppressed" m00451
$T out-of-scope - "plain console: whether the description line is repeated / hide_success honoured: no captured byte is lost or duplicated" m00455 m00458 m00459
$T control C16,C06 "render thread exits at once (done starts true): frames and pending text are only written if a later flush happens; task output appended after that is lost" m00464
$T equivalent - "initial dirty flag: one extra frame" m00465
$T control C16,C06 "pending text is not written when the console shuts down" m00469
$T control C06,C16 "wait predicate / done test / break changed: the render thread never leaves its loop (join hangs) or leaves it early" m00467 m00470 m00471 m00468
$T out-of-scope - "debounce sleep removed: frames are printed more often" m00472
$T control C19,C20 "FancyConsoleProgress::update no longer forwards the counts" m00474
$T control C16,C20 "frames are never printed by the render thread: pending output accumulates until shutdown" m00473
$T control C20,C16 "task_started not forwarded: task_finished's lookup unwrap() panics under the display lock" m00475
$T control C20 "task_output / log not forwarded" m00476 m00478
$T control C06,C16 "Drop does not stop / join the render thread: the final pending text may never be written" m00479 m00480
$T out-of-scope - "dirty flag never set / never cleared: frames appear at the 450 ms timeout or every 50 ms instead; nothing is lost" m00481 m00482 m00483 m00485 m00488 m00491 m00502 m00505 m00508 m00537 m00538
$T out-of-scope - "verbose flag inverted: prints command lines or not" m00486
$T control C20 "task lookup by inequality: wrong task updated/removed, or unwrap() on None panics under the display lock" m00489 m00492
$T out-of-scope - "a success with empty output prints its description line (no captured byte involved)" m00493
$T control C16 "fancy console: one-byte outputs of successful commands are suppressed" m00494
$T control C16 "fancy console: the early return moves to the Failure arm: failing commands with hide_success (or empty output) are silently dropped and successes are always shown" m00495
$T control C16 "newline completion inverted / removed: an unterminated last line is wiped by the next frame's clear sequence" m00500 m00501
$T out-of-scope - "log() text dropped or unterminated: n2's own messages, not captured output" m00503 m00504
$T control C06 "cleanup does not set done: the join in Drop never returns" m00506 m00507
$T out-of-scope - "figures in the status line (finished, failed, running): display text, observed by C19 at the Progress callbacks, not here" m00509 m00510 m00511 m00512 m00513 m00514 m00515 m00516
$T out-of-scope - "cursor-up line count of the frame: terminal rendering arithmetic, not decided" m00517 m00518 m00519 m00520 m00521 m00522 m00523 m00524 m00525 m00526 m00527 m00530 m00531 m00532 m00533
$T control C16 "the frame (with the pending captured output in front) is never written / the buffer is not cleared after writing (output repeated with every frame)" m00534 m00535
$T out-of-scope - "clear sequence not re-armed: stale frame lines stay on screen" m00536
$T equivalent - "time note threshold" m00539
$T control C18 "with -t restat an unknown name ends the target loop instead of being skipped: later targets are never wanted" m00596
$T equivalent - "the manifest target, already Done from phase 1, is wanted again: want_file on a Done step changes nothing" m00601
$T control C18 "with no target and no default statement nothing is wanted: n2 reports success without building anything" m00606
$T out-of-scope - "usage/help/version/tool output, exit status of --help, -v, ninja-compat detection, trace flush: not covered by any of the 20 properties" m00609 m00610 m00611 m00612 m00613 m00616 m00617 m00618 m00619 m00620 m00621 m00624 m00625 m00626 m00627 m00628 m00629 m00630 m00631 m00646
$T out-of-scope - "exit status 2 instead of 1 after a failed build: still non-zero" m00637
$T equivalent - "cfg(feature = crlf) code: not compiled in the default configuration that the tests and the quick tier use (the thorough tier re-runs the scanner rules with the feature on)" m00652 m00653 m00654 m00655 m00656 m00657 m00658 m00659 m00660 m00661 m00662 m00663 m00664 m00665 m00694 m00695 m00696 m00697
$T out-of-scope - "Scanner::back stepping over a carriage return: only inputs containing CR LF without the crlf feature, which n2 does not support" m00677 m00678 m00680 m00681 m00682 m00683 m00689
$T equivalent - "cfg(feature = crlf) code" m00698 m00699 m00700 m00701
$T out-of-scope - "expect() reports the error one byte later (no back): only the reported column moves" m00722
$T control C12,C15 "format_parse_error's line tiling broken (start offset 1, split on non-newlines, wrong increment): `err.ofs - ofs` underflows or no line is found: a parse error becomes a panic" m00723 m00724 m00751 m00752 m00753
$T out-of-scope - "layout of the diagnostic (newlines, ellipses, excerpt, caret padding): the message still names file and line" m00728 m00737 m00738 m00739 m00743 m00744 m00745 m00746 m00747 m00748
$T control C12,C15 "the diagnostic no longer names the file and the right line" m00730 m00731 m00732 m00733
$T equivalent - "buffer capacity only" m00756 m00757 m00758
$T out-of-scope - "signal plumbing (flag, handler installation, SA_RESETHAND): the interrupted command's own termination status stops the build; signal delivery is not modelled" m00764 m00765 m00766 m00767
$T control C11 "SmallMap::insert no longer replaces the value of an existing key: a block's second binding of a name is ignored" m00771
$T control C09 "/showIncludes: the recorded name starts at the first blank instead of the first non-blank (or at 1 when there is none)" m00780 m00781
$T out-of-scope - "last-line display callback, thread-id slots for the trace/display, hide_progress: progress cosmetics" m00804 m00812 m00813 m00814 m00816 m00817 m00825 m00831
$T out-of-scope - "tty / terminal width detection results (isatty comparison, ioctl status): get_cols still answers None or a width >= 10 (cols-contract rule), fancy vs plain console choice is not a property" m00837 m00839 m00840 m00841 m00842 m00843 m00844 m00845 m00846
$T equivalent - "cfg(windows) code: not compiled here" m00850 m00851 m00852 m00853 m00854 m00855 m00856 m00857 m00858 m00859 m00860 m00861 m00862 m00863
$T out-of-scope - "chrome trace output (trace.rs) and its call sites: no property covers it" m00864 m00865 m00866 m00867 m00868 m00869 m00870 m00871 m00872 m00873 m00874 m00875 m00876 m00877 m00878 m00879 m00880 m00881 m00882 m00883 m00884 m00885 m00886 m00887 m00888 m00889 m00890 m00946 m00947 m00948 m00949 m00950 m01113
$T equivalent - "the manifest target is wanted again: want_file on a Done step changes nothing" m00998
$T control C01,C02,C05 "recheck_ready stops at the first input without a producer and answers true without examining the rest" m01001
$T equivalent - "an empty None arm still proceeds to the next input" m01002
$T control C09 "the first duplicate / already-declared name ends the scan of the reported dependencies: the rest are dropped" m01016 m01020
$T control C01,C06 "the first dependent that is not yet ready ends the promotion loop: later dependents are never promoted" m01045
$T out-of-scope - "explain flag inverted; SIGINT handler not registered" m01066 m01082
$T control C16 "the first directory that was already created ends the loop: the remaining outputs' directories are not created" m01078
$T equivalent - "without the continue the directory is created again (idempotent) / without the push nothing is remembered (create_dir_all is idempotent)" m01079 m01081
$T equivalent - "made_progress after Runner::start: a command is running, so falling through to the wait is equivalent" m01091 m01092
$T control C06,C05 "stuck after a failure: the loop spins for ever (continue) or falls into the internal-error panic (break removed)" m01109 m01110
$T out-of-scope - "last-line display callback / trace thread ids" m01112 m01114 m01115 m01116 m01117
$T out-of-scope - "which end of the ready / pool / display queue is used: scheduling and display order are not part of C01/C04/C19 (rules relaxed after the sweep)" m00930 m00979 m00984 m00992 m00487
$T out-of-scope - "the last output line is not remembered for display: nothing to render" m00490
$T out-of-scope - "plural wording of the summary" m00642
$T equivalent - "the cut threshold moves by one; the cut stays in range" m00734 m00740
$T out-of-scope - "the caret line of the diagnostic is dropped; file and line are still named" m00749
$T out-of-scope - "trace output" m01118
